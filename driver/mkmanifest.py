#!/usr/bin/env python3
"""Regenerates /verif/MANIFEST.json from the table below (kept valid against the schema)."""
import json, subprocess
from pathlib import Path
ROOT = Path(__file__).resolve().parent.parent

import importlib, sys
sys.path.insert(0, str(ROOT / "driver"))

def load_claimed():
    """a property is claimed when driver/props/<id>.py exists and defines MANIFEST"""
    out = {}
    for f in sorted((ROOT / "driver" / "props").glob("c[0-9]*.py")):
        try:
            mod = importlib.import_module("props." + f.stem)
        except Exception as e:
            print(f"mkmanifest: skipping {f.stem}: {e!r}", file=sys.stderr)
            continue
        if getattr(mod, "MANIFEST", None):
            out[f.stem.upper()] = mod.MANIFEST
    return out

CLAIMED = load_claimed()
PENDING_REASON = "check not built yet in this session (planned, see DESIGN.md section 6); not claimed until its theorems and correspondence run"

def main():
    props = [json.loads(l) for l in (ROOT / "properties.jsonl").read_text().splitlines() if l.strip()]
    hooks_commits = subprocess.run(["git", "-C", "/repo", "log", "--format=%H", "--grep=^verif hooks"], capture_output=True, text=True).stdout.split()
    checks, na = [], []
    for p in props:
        pid = p["id"]
        if pid in CLAIMED:
            c = CLAIMED[pid]
            checks.append({
                "property_id": pid,
                "quick_cmd": f"./check {pid} quick",
                "thorough_cmd": f"./check {pid} thorough",
                "evidence_file": f"/verif/evidence/{pid}.json",
                "replay_cmd_template": f"./check {pid} quick --replay {{path}}",
                "engine": "coq-proof+correspondence",
                "level_claimed": {"category": "proof", "text": c["text"], "design_ref": c["design"]},
                "level_note": c["note"],
                "technique": c["technique"],
            })
        else:
            na.append({"property_id": pid, "reason": PENDING_REASON})
    m = {
        "version": 1,
        "setup_cmd": "./check --setup",
        "hooks": {
            "guard": "betaveros_noulith_verif",
            "enable": "RUSTFLAGS='--cfg betaveros_noulith_verif' cargo build --offline (done by driver/common.py build_harness; harness crate depends on /repo by path)",
            "baseline_off_cmd": "cd /repo && cargo nextest run --workspace --no-fail-fast --test-threads 8 --offline",
            "source_commits": hooks_commits,
            "add_only": True,
        },
        "engines": [{
            "name": "coq-proof+correspondence", "path": "/verif/check",
            "serves_properties": [c["property_id"] for c in checks],
            "kind_free_text": "Coq 8.16 theorems about hand-written Gallina models (coq/theories), models extracted to OCaml and run against the "
                              "Rust implementation (harness/) on generated/exhaustive inputs by driver/; independent Python oracles classify disagreements",
        }],
        "checks": checks,
        "not_applicable": na,
        "notes": "Every check: (1) rebuilds and audits the Coq closure of Props/<ID>.v (Print Assumptions, forbidden-vernacular grep, statement pins), "
                 "(2) rebuilds the harness against /repo's working tree with the cfg guard on, (3) runs the correspondence. See DESIGN.md.",
    }
    (ROOT / "MANIFEST.json").write_text(json.dumps(m, indent=1) + "\n")

main()
