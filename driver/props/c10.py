"""C10 - indexing and slicing follow Python semantics on every sequence kind.

Correspondence: an exhaustive grid (kind x length x index/bounds x surface form) is run through
the implementation (bin/prog) and through the extracted Coq model (Seq/Index.v, Seq/Accessors.v); an independent
Python oracle (Python's own list indexing) decides, on a disagreement, whether the property
itself fails on that input.
"""
import itertools, json
import common

ID = "C10"
MANIFEST = dict(
    technique="Coq proof (model = Python indexing spec, unbounded) + exhaustive-grid correspondence model/implementation/Python oracle",
    text="Machine-checked theorems (Coq 8.16, no axioms) that the Gallina transcription of pythonic_index/pythonic_slice, the Stream default "
         "methods, the accessors and the write-addressing helpers equals Python's indexing/slicing for every list length and every integer "
         "index/bound, never panics, that writes address the position reads do, and that tail/butlast/take n/drop n/uncons/unsnoc/only (Seq/Accessors.v; lists and "
         "finite streams) are the corresponding index and slice expressions for every machine-word count (23 theorems). The model is tied to /repo on every run by an exhaustive "
         "grid (8 kinds x len 0..5 x all small and extreme indices x every surface form) run through both and through an independent Python oracle.",
    note="Trusted: Coq kernel; hand-written model Seq/Index.v (tie to code is the correspondence run, i.e. differential testing on the grid); "
         "extraction+OCaml runner; Rust harness; Python oracle. Element reads of the per-kind wrappers (UTF-8 soft decoding, dict indexing) are compared "
         "by correspondence only. uncons/unsnoc on a multi-byte string (removed by character) are checked against the Python oracle only.",
    design="6-C10")
I63 = 2 ** 63
EXTREMES = [2 ** 31, -2 ** 31, I63 - 1, -(I63 - 1), -I63, I63, -I63 - 1, 2 ** 64, -2 ** 64, 10 ** 30]
MB = "aé\U0001d11eb"  # 1+2+4+1 bytes


def lit(n):
    return str(n) if n >= 0 else f"(0-{-n})"


def render_idx(i):
    if i == "f":
        return "1.0"
    if i == "q":
        return "(1/2)"
    if i == "s":
        return '"a"'
    if i == "n":
        return "null"
    return lit(i)


BIG_FORMS = ["({} // 1)", "(2^64 - 2^64 + {})", "({} << 0)"]


def render_idx_big(i, k):
    """the same integer held in big representation (results of //, big arithmetic, <<)"""
    return BIG_FORMS[k % len(BIG_FORMS)].format(lit(i)) if isinstance(i, int) else render_idx(i)


def model_idx(i):
    if i in ("f", "q"):
        return "f"
    if i in ("s", "n"):
        return "x"
    return str(i)


KINDS = ["list", "string", "vector", "bytes", "range", "wstream", "lazy", "range_adv", "wstream_adv", "lazy_adv", "wstream_tail"]
STREAMS = {"range", "wstream", "lazy", "range_adv", "wstream_adv", "lazy_adv", "wstream_tail"}


def render_seq(kind, n):
    if kind == "list":
        return "[" + ",".join(str(10 + p) for p in range(n)) + "]"
    if kind == "string":
        return '"' + "abcdefgh"[:n] + '"'
    if kind == "mbstring":
        return '"' + MB + '"'
    if kind == "vector":
        return "V(" + ",".join(str(10 + p) for p in range(n)) + ")"
    if kind == "bytes":
        return "B[" + ",".join(str(200 + p) for p in range(n)) + "]"
    if kind == "range":
        return f"(10 til {10 + n})"
    if kind == "wstream":
        return "stream([" + ",".join(str(10 + p) for p in range(n)) + "])"
    if kind == "lazy":
        return f"((9 til {9 + n}) lazy_map (+1))"
    # streams that have already been advanced: the remaining elements are again 10, 11, ...
    if kind == "range_adv":
        return f"((8 til {10 + n}) drop 2)"
    if kind == "wstream_adv":
        return "(stream([" + ",".join(str(p) for p in [7, 8, 9] + [10 + q for q in range(n)]) + "]) drop 3)"
    if kind == "lazy_adv":
        return f"(((7 til {9 + n}) lazy_map (+1)) drop 2)"
    if kind == "wstream_tail":
        return "tail(stream([" + ",".join(str(p) for p in [9] + [10 + q for q in range(n)]) + "]))"
    raise ValueError(kind)


def seq_len(kind, n):
    return len(MB.encode()) if kind == "mbstring" else n


def elem(kind, p):
    """canonical form of the element at position p when read by index"""
    if kind in ("list", "vector") or kind in STREAMS:
        return f"I{10 + p}"
    if kind == "bytes":
        return f"I{200 + p}"
    if kind == "string":
        return 'S"' + "abcdefgh"[p] + '"'
    if kind == "mbstring":
        return soft(MB.encode()[p:p + 1])
    raise ValueError(kind)


def soft(bs):
    try:
        return 'S"' + bs.decode("utf8") + '"'
    except UnicodeDecodeError:
        return "B[" + ",".join(str(b) for b in bs) + "]"


def sub(kind, ps, as_stream=False):
    """canonical form of the subsequence at positions ps, as produced by a slice"""
    if kind == "list":
        return "L[" + ",".join(f"I{10 + p}" for p in ps) + "]"
    if kind == "vector":
        return "V[" + ",".join(f"I{10 + p}" for p in ps) + "]"
    if kind == "bytes":
        return "B[" + ",".join(str(200 + p) for p in ps) + "]"
    if kind == "string":
        return 'S"' + "".join("abcdefgh"[p] for p in ps) + '"'
    if kind == "mbstring":
        b = MB.encode()
        return soft(bytes(b[p] for p in ps))
    return ("T[" if as_stream else "L[") + ",".join(f"I{10 + p}" for p in ps) + "]"


def py_index(n, i):
    """oracle: Python's xs[i] on range(n): position or None (IndexError); 'any' if no opinion"""
    if not isinstance(i, int):
        return None
    try:
        return list(range(n))[i]
    except IndexError:
        return None


def py_slice(n, a, b):
    for x in (a, b):
        if x is not None and not isinstance(x, int):
            return "err"
        if x is not None and not (-I63 <= x < I63):
            return "any"  # the property only speaks about bounds that fit a machine word
    return list(range(n))[a:b]


def gen_cases(ctx):
    cases = []
    lens = range(0, 6)
    def idxs(n, small=False):
        base = list(range(-n - 3, n + 4))
        return base if small else base + EXTREMES + ["f", "q", "s", "n"]
    for kind in KINDS + ["mbstring"]:
        for n in (lens if kind != "mbstring" else [4]):
            L = seq_len(kind, n)
            X = render_seq(kind, n)
            st = kind in STREAMS
            for i in idxs(L):
                I = render_idx(i)
                mi = model_idx(i)
                for form, src in (("expr", f"{X}[{I}]"), ("bang", f"{X} !! {I}"), ("call", f"index({X}, {I})"),
                                  ("section", f"(_[{I}])({X})")):
                    cases.append(dict(kind=kind, n=n, op="index", form=form, args=[i], src=src,
                                      model=f"{'sindex' if st else 'index'} {L} {mi}"))
                if not st:
                    cases.append(dict(kind=kind, n=n, op="safe", form="op", args=[i], src=f"{X} !? {I}", model=f"safe {L} {mi}"))
                    cases.append(dict(kind=kind, n=n, op="cyc", form="op", args=[i], src=f"{X} !% {I}", model=f"cyc {L} {mi}"))
                for op, a, b, src in (("take", None, i, f"{X} take {I}"), ("drop", i, None, f"{X} drop {I}")):
                    ma = "_" if a is None else model_idx(a)
                    mb = "_" if b is None else model_idx(b)
                    cases.append(dict(kind=kind, n=n, op="slice", form=op, args=[a, b], src=src,
                                      model=f"{'s' if st else ''}{op} {L} {mi}"))
            # the same reads with the index / bounds held in big representation (x // 1, 2^64-2^64+x, x << 0)
            for bi, i in enumerate(j for j in idxs(L, small=True)):
                Ib = render_idx_big(i, bi)
                mi = model_idx(i)
                cases.append(dict(kind=kind, n=n, op="index", form="expr-bigrep", args=[i], src=f"{X}[{Ib}]",
                                  model=f"{'sindex' if st else 'index'} {L} {mi}"))
                if not st:
                    cases.append(dict(kind=kind, n=n, op="safe", form="op-bigrep", args=[i], src=f"{X} !? {Ib}", model=f"safe {L} {mi}"))
                    cases.append(dict(kind=kind, n=n, op="cyc", form="op-bigrep", args=[i], src=f"{X} !% {Ib}", model=f"cyc {L} {mi}"))
                cases.append(dict(kind=kind, n=n, op="slice", form="expr-bigrep", args=[i, None], src=f"{X}[{Ib}:]",
                                  model=f"{'sslice' if st else 'slice'} {L} {mi} _"))
                cases.append(dict(kind=kind, n=n, op="slice", form="take-bigrep", args=[None, i], src=f"{X} take {Ib}",
                                  model=f"{'stake' if st else 'take'} {L} {mi}"))
            for k, name in ((0, "first"), (1, "second"), (2, "third"), (-1, "last")):
                cases.append(dict(kind=kind, n=n, op="index", form=name, args=[k], src=f"{name}({X})",
                                  model=f"{'sindex' if st else 'lin'} {L} {k}"))
            cases.append(dict(kind=kind, n=n, op="slice", form="tail", args=[1, None], src=f"tail({X})",
                              model=f"{'stail' if st else 'tail'} {L}"))
            cases.append(dict(kind=kind, n=n, op="slice", form="butlast", args=[None, -1], src=f"butlast({X})",
                              model=f"{'sbutlast' if st else 'butlast'} {L}"))
            for op in ("uncons", "unsnoc", "only", "unconsq", "unsnocq"):
                # strings are unconsed by character, not by byte: the multi-byte string is judged by the oracle only
                mop = None if kind == "mbstring" else ("s" + op if st and op in ("uncons", "unsnoc", "only") else op)
                if st and op in ("unconsq", "unsnocq"):
                    mop = None
                fn = {"unconsq": "uncons?", "unsnocq": "unsnoc?"}.get(op, op)
                cases.append(dict(kind=kind, n=n, op=op, form=op, args=[], src=f"{fn}({X})",
                                  model=f"{mop} {L}" if mop else None))
            # slices: full small grid, plus extremes against a few partners
            small = [None] + list(range(-L - 3, L + 4))
            big = EXTREMES + ["f", "s"]
            pairs = list(itertools.product(small, small)) + [(x, y) for x in big for y in (None, 1, -1)] + \
                    [(y, x) for x in big for y in (None, 1, -1)]
            for a, b in pairs:
                A = "" if a is None else render_idx(a)
                B = "" if b is None else render_idx(b)
                ma = "_" if a is None else model_idx(a)
                mb = "_" if b is None else model_idx(b)
                forms = (("expr", f"{X}[{A}:{B}]"), ("section", f"(_[{A}:{B}])({X})"))
                for form, src in forms:
                    cases.append(dict(kind=kind, n=n, op="slice", form=form, args=[a, b], src=src,
                                      model=f"{'sslice' if st else 'slice'} {L} {ma} {mb}"))
    # writes
    for kind in ("list", "vector", "bytes", "string"):
        for n in lens:
            X = render_seq(kind, n)
            V = {"list": "99", "vector": "99", "bytes": "7", "string": '"z"'}[kind]
            for i in idxs(n):
                I = render_idx(i)
                mi = model_idx(i)
                cases.append(dict(kind=kind, n=n, op="set", form="assign", args=[i], src=f"x := {X}; x[{I}] = {V}; x", model=f"set {n} {mi}"))
                cases.append(dict(kind=kind, n=n, op="setkeep", form="assign-caught", args=[i],
                                  src=f"x := {X}; y := x; r := try (x[{I}] = {V}; 0) catch e -> 1; [r, x, y]", model=f"set {n} {mi}"))
                if isinstance(i, int) and -n - 1 <= i <= n:
                    cases.append(dict(kind=kind, n=n, op="set", form="assign-bigrep", args=[i],
                                      src=f"x := {X}; x[{render_idx_big(i, i)}] = {V}; x", model=f"set {n} {mi}"))
                if kind == "list":  # |.. and remove exist for lists (and dicts) only
                    cases.append(dict(kind=kind, n=n, op="set", form="update", args=[i], src=f"{X} |.. [{I}, {V}]", model=f"set {n} {mi}"))
                    cases.append(dict(kind=kind, n=n, op="rm", form="remove", args=[i], src=f"x := {X}; r := remove x[{I}]; [r, x]", model=f"rm {n} {mi}"))
            if kind == "list":
                cases.append(dict(kind=kind, n=n, op="rm", form="pop", args=[-1], src=f"x := {X}; r := pop x; [r, x]", model=f"rm {n} -1"))
                small = [None] + list(range(-n - 2, n + 3))
                for a, b in itertools.product(small, small):
                    A = "" if a is None else render_idx(a)
                    B = "" if b is None else render_idx(b)
                    ma = "_" if a is None else model_idx(a)
                    mb = "_" if b is None else model_idx(b)
                    cases.append(dict(kind=kind, n=n, op="rmslice", form="remove", args=[a, b],
                                      src=f"x := {X}; remove x[{A}:{B}]; x", model=f"rmslice {n} {ma} {mb}"))
    # nested paths: x[i][j] read / assign / remove address the same positions (rows of lengths 3,2,1,0)
    rows = [3, 2, 1, 0]
    XN = "[" + ",".join("[" + ",".join(str(100 * r + c) for c in range(m)) + "]" for r, m in enumerate(rows)) + "]"
    small = list(range(-5, 5)) + [2 ** 63 - 1, "f"]
    for i in small:
        for j in small:
            I, J = render_idx(i), render_idx(j)
            for op, src in (("nread", f"x := {XN}; x[{I}][{J}]"),
                            ("nset", f"x := {XN}; x[{I}][{J}] = 99; x"),
                            ("nrm", f"x := {XN}; r := remove x[{I}][{J}]; [r, x]"),
                            ("nopset", f"x := {XN}; x[{I}][{J}] += 1; x")):
                cases.append(dict(kind="nested", n=4, op=op, form="path2", args=[i, j], src=src, model=None,
                                  model2=(f"index 4 {model_idx(i)}", j)))
    return cases


def nested_oracle(c):
    """Python nested-list semantics for x[i][j] (read / assign / remove / +=)"""
    rows = [3, 2, 1, 0]
    x = [[100 * r + k for k in range(m)] for r, m in enumerate(rows)]
    i, j = c["args"]
    def canon(v):
        return "L[" + ",".join(canon(e) for e in v) + "]" if isinstance(v, list) else f"I{v}"
    if not isinstance(i, int) or not isinstance(j, int):
        return "err"
    try:
        row = x[i]
        if c["op"] == "nread":
            return "ok " + canon(row[j])
        if c["op"] == "nset":
            row[j] = 99
            return "ok " + canon(x)
        if c["op"] == "nopset":
            row[j] += 1
            return "ok " + canon(x)
        if c["op"] == "nrm":
            _ = row[j]
            r = row.pop(j if j >= 0 else len(row) + j)
            return "ok L[" + canon(r) + "," + canon(x) + "]"
    except IndexError:
        return "err"


def positions(s):
    s = s.strip()
    assert s.startswith("[") and s.endswith("]"), s
    return [int(x) for x in s[1:-1].split(",") if x]


def expected_from_model(c, m):
    """translate the model's answer (in positions) into the canonical text the harness prints"""
    kind, op = c["kind"], c["op"]
    if c["op"] == "setkeep" and m == "err":
        keep = sub(c["kind"], list(range(c["n"])))
        return "ok L[I1," + keep + "," + keep + "]"
    if m in ("err", "panic", "fuel"):
        return m
    assert m.startswith("ok "), m
    body = m[3:]
    if op in ("index", "cyc"):
        return "ok " + elem(kind, int(body))
    if op == "safe":
        return "ok N" if body == "null" else "ok " + elem(kind, int(body))
    if op == "slice":
        if kind in STREAMS:
            tag, l = body.split(" ", 1)
            return "ok " + sub(kind, positions(l), as_stream=(tag == "S"))
        return "ok " + sub(kind, positions(body))
    if op == "setkeep":
        inner = expected_from_model(dict(c, op="set"), m)
        return "ok L[I0," + inner[3:] + "," + sub(kind, list(range(c["n"]))) + "]"
    if op == "set":
        ps = positions(body)
        els = []
        for j, p in enumerate(ps):
            if p == -1:
                els.append({"list": "I99", "vector": "I99", "bytes": "7", "string": "z"}[kind])
            else:
                els.append({"list": f"I{10 + j}", "vector": f"I{10 + j}", "bytes": str(200 + j), "string": "abcdefgh"[j]}[kind])
        return "ok " + {"list": "L[%s]", "vector": "V[%s]", "bytes": "B[%s]"}.get(kind, 'S"%s"') % ("".join(els) if kind == "string" else ",".join(els))
    if op == "rm":
        a, l = body.split(" ", 1)
        return "ok L[" + elem(kind, int(a)) + "," + sub(kind, positions(l)) + "]"
    if op == "rmslice":
        m_, l = body.split(" ", 1)
        return "ok " + sub(kind, positions(l))
    if op == "only":
        return "ok " + elem(kind, int(body))
    if op in ("uncons", "unconsq"):
        if body == "null":
            return "ok N"
        a, l = body.split(" ", 1)
        return "ok L[" + elem(kind, int(a)) + "," + sub(kind, positions(l), as_stream=kind in STREAMS) + "]"
    if op in ("unsnoc", "unsnocq"):
        if body == "null":
            return "ok N"
        l, a = body.rsplit(" ", 1)
        return "ok L[" + sub(kind, positions(l)) + "," + elem(kind, int(a)) + "]"
    raise ValueError(op)


def oracle(c):
    """Python-list semantics, independent of the Coq model. Returns expected text or 'any'."""
    if c["kind"] == "nested":
        return nested_oracle(c)
    kind, op, n = c["kind"], c["op"], seq_len(c["kind"], c["n"])
    a = c["args"]
    if op == "index":
        i = a[0]
        if not isinstance(i, int):
            return "err"
        p = py_index(n, i)
        return "err" if p is None else "ok " + elem(kind, p)
    if op == "safe":
        i = a[0]
        if not isinstance(i, int):
            return "any"
        return "ok " + elem(kind, i) if 0 <= i < n else "ok N"
    if op == "cyc":
        i = a[0]
        if not isinstance(i, int) or n == 0 or not (-I63 <= i < I63):
            return "err" if isinstance(i, int) and n == 0 else "any"
        return "ok " + elem(kind, i % n)
    if op == "slice":
        r = py_slice(n, a[0], a[1])
        if r in ("err", "any"):
            return r
        if kind in STREAMS:
            return ("elems", [10 + p for p in r])
        return "ok " + sub(kind, r)
    if op in ("uncons", "unconsq"):
        if n == 0:
            return "err" if op == "uncons" else "ok N"
        if kind == "mbstring" and op == "unconsq":
            return "any"
        return "ok L[" + elem(kind, 0) + "," + sub(kind, list(range(1, n)), as_stream=kind in STREAMS) + "]"
    if op in ("unsnoc", "unsnocq"):
        if n == 0:
            return "err" if op == "unsnoc" else "ok N"
        if kind == "mbstring" and op == "unsnocq":
            return "any"
        return "ok L[" + sub(kind, list(range(0, n - 1))) + "," + elem(kind, n - 1) + "]"
    if op == "only":
        return "ok " + elem(kind, 0) if n == 1 else "err"
    if op == "setkeep":
        i = a[0]
        p = py_index(n, i) if isinstance(i, int) else None
        keep = sub(kind, list(range(n)))
        if p is None:
            return "ok L[I1," + keep + "," + keep + "]"
        xs = list(range(n))
        xs[p] = -1
        return "ok L[I0," + expected_from_model(dict(c, op="set"), "ok [" + ",".join(map(str, xs)) + "]")[3:] + "," + keep + "]"
    if op == "set":
        i = a[0]
        p = py_index(n, i) if isinstance(i, int) else None
        if p is None:
            return "err"
        xs = list(range(n))
        xs[p] = -1
        return expected_from_model(c, "ok [" + ",".join(map(str, xs)) + "]")
    if op == "rm":
        i = a[0]
        p = py_index(n, i) if isinstance(i, int) else None
        if p is None:
            return "err"
        xs = list(range(n))
        del xs[p]
        return expected_from_model(c, f"ok {p} [" + ",".join(map(str, xs)) + "]")
    if op == "rmslice":
        r = py_slice(n, a[0], a[1])
        if r in ("err", "any"):
            return r
        xs = [p for p in range(n) if p not in r]
        return "ok " + sub(kind, xs)
    return "any"


def nested_expected(c, p, m):
    """compose the model's inner answer (positions within row p) into the whole nested value"""
    rows = [3, 2, 1, 0]
    x = [[100 * r + k for k in range(n)] for r, n in enumerate(rows)]
    def canon(v):
        return "L[" + ",".join(canon(e) for e in v) + "]" if isinstance(v, list) else f"I{v}"
    if not m.startswith("ok "):
        return m
    body = m[3:]
    if c["op"] == "nread":
        return "ok " + canon(x[p][int(body)])
    if c["op"] in ("nset", "nopset"):
        ps = positions(body)
        x[p] = [(99 if c["op"] == "nset" else x[p][k] + 1) if q == -1 else x[p][k] for k, q in enumerate(ps)]
        return "ok " + canon(x)
    a, l = body.split(" ", 1)
    removed = x[p][int(a)]
    x[p] = [x[p][q] for q in positions(l)]
    return "ok L[" + canon(removed) + "," + canon(x) + "]"


def observed(r):
    st = r.get("status")
    if st == "ok":
        return "ok " + r["val"]
    if st == "err":
        return "err"
    return st  # panic / hang / abort / parse


def agrees(obs, exp):
    if exp == "any":
        return True
    if isinstance(exp, tuple):  # stream slice: elements only
        want = ",".join(f"I{x}" for x in exp[1])
        return obs in (f"ok L[{want}]", f"ok T[{want}]")
    return obs == exp


def nontrivial(c):
    n = seq_len(c["kind"], c["n"])
    return any((isinstance(x, int) and not (0 <= x < n)) or isinstance(x, str) for x in c["args"]) or c["kind"] in STREAMS | {"mbstring"}


def evaluate(ctx, cases, runner):
    res = common.run_prog([c["src"] for c in cases], timeout=10.0)
    mlines = [c["model"] for c in cases if c["model"]]
    mres = iter(common.run_model(runner, mlines)) if runner else iter([])
    nested = [c for c in cases if c.get("model2")]
    if runner and nested:
        rows = [3, 2, 1, 0]
        outer = common.run_model(runner, [c["model2"][0] for c in nested])
        inner_lines, inner_cases = [], []
        for c, o in zip(nested, outer):
            c["nested_outer"] = o
            if o.startswith("ok "):
                p = int(o[3:])
                opn = {"nread": "index", "nset": "set", "nopset": "set", "nrm": "rm"}[c["op"]]
                inner_lines.append(f"{opn} {rows[p]} {model_idx(c['model2'][1])}")
                inner_cases.append((c, p))
            else:
                c["nested_model"] = "err"
        for (c, p), m in zip(inner_cases, common.run_model(runner, inner_lines)):
            c["nested_model"] = nested_expected(c, p, m)
    bad = []
    for c, r in zip(cases, res):
        obs = observed(r)
        c["impl"] = obs
        orc = oracle(c)
        c["oracle"] = orc if not isinstance(orc, tuple) else list(orc)
        mod = None
        if c["model"] and runner:
            mod = expected_from_model(c, next(mres))
        elif c.get("model2") and runner:
            mod = c.get("nested_model")
        c["model_says"] = mod
        crashed = obs in ("panic", "hang", "abort", "parse", "badjson")
        if crashed or not agrees(obs, orc):
            bad.append(("property", c, r))
        elif mod is not None and obs != mod:
            bad.append(("correspondence", c, r))
    return bad


def report(ctx, bad):
    seen = set()
    for kind, c, r in bad:
        key = (kind, c["kind"], c["op"], c["form"])
        if key in seen:
            continue
        seen.add(key)
        replay = {"case": {k: c.get(k) for k in ("kind", "n", "op", "form", "args", "src", "model", "model2")},
                  "program": c["src"], "implementation": c["impl"], "implementation_msg": r.get("msg"),
                  "python_oracle": c["oracle"], "coq_model": c["model_says"]}
        if kind == "property":
            replay["what"] = "the implementation's answer differs from Python indexing/slicing semantics on this input"
            ctx.violation("property", replay, found=True)
        else:
            replay["what"] = ("correspondence Seq/Index.v <-> implementation no longer checks on this input; the Python oracle "
                              "accepts the implementation's answer, so no input violating the property statement was found")
            ctx.violation("correspondence", replay, found=False)


def run(ctx):
    runner = common.standard_prelude(ctx)
    cases = gen_cases(ctx)
    if ctx.quick():
        # quick: every case of length <= 3 and all forms; longer lengths only in expression form
        cases = [c for c in cases if c["n"] <= 3 or c["kind"] == "mbstring" or c["form"] in ("expr", "assign", "remove", "op", "path2", "expr-bigrep", "op-bigrep", "take-bigrep", "assign-caught", "assign-bigrep")]
    bad = evaluate(ctx, cases, runner)
    report(ctx, bad)
    nt = {(c["kind"], c["n"], c["op"], c["form"], json.dumps(c["args"])) for c in cases if nontrivial(c)}
    ctx.coverage.update({
        "evaluations": len(cases), "distinct_nontrivial": len(nt), "exhaustive": True,
        "rule": "exhaustive grid: 12 sequence kinds (list,string,multi-byte string,vector,bytes,range stream,stream(list),lazy_map stream, and the three stream kinds after a prefix was consumed by drop/tail) x lengths 0..5 x "
                "indices/bounds in [-len-3,len+3] + {+-2^31,+-(2^63-1),-2^63,2^63,-2^63-1,+-2^64,10^30, 1.0, 1/2, \"a\", null} x surface forms "
                "(expression, !!, index(), underscore section, first..last, tail/butlast/take/drop, !?, !%, uncons/unsnoc/only, x[i]=v, |.., remove, pop), plus two-level paths x[i][j] (read, =, +=, remove) over rows of length 3,2,1,0; small indices/bounds also held in big representation (i // 1, 2^64-2^64+i, i << 0); failed writes caught and the variable and an alias re-read. "
                "non-trivial = some index/bound is negative, out of range, extreme or non-integer, or the sequence is a stream / multi-byte string; "
                "distinct by (kind,len,op,form,args)",
        "samples": [{"program": c["src"], "implementation": c["impl"], "coq_model": c["model_says"]} for c in cases[::max(1, len(cases) // 12)]][:12],
        "by_op": {op: sum(1 for c in cases if c["op"] == op) for op in sorted({c["op"] for c in cases})},
        "by_kind": {k: sum(1 for c in cases if c["kind"] == k) for k in sorted({c["kind"] for c in cases})},
        "impl_outcomes": {o: sum(1 for c in cases if c["impl"].split(" ")[0] == o) for o in ("ok", "err", "panic", "hang", "abort")},
        "model_compared": sum(1 for c in cases if c.get("model_says") is not None),
    })
    ctx.assumptions += ["Rust Vec/slice lengths fit isize (hypothesis `fits` of the theorems)",
                        "elements are abstract in the model; the run instantiates them with positions"]
    return common.conclude(ctx)


def replay(ctx, rep):
    runner = common.standard_prelude(ctx)
    c = rep["case"]
    bad = evaluate(ctx, [c], runner)
    report(ctx, bad)
    print(json.dumps({"program": c["src"], "implementation": c.get("impl"), "oracle": c.get("oracle"), "model": c.get("model_says")}))
    return 1 if bad else 0
