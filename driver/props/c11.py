"""C11 - lazy streams are coherent: len / iteration / index / slice / reverse / last / in /
truthiness / unpacking agree with list(s) at every drop position; observing never advances the
variable; infinite streams follow their recurrences and report infinite length.

Correspondence: every constructor with all small parameter combinations, at every drop
position, is bound to a variable in one Noulith program; a random sequence of observations is
applied to that same variable and, at the end, the variable must still list the same elements.
Each observation is compared with (1) an independent Python oracle (range / itertools / list
semantics) and (2) the extracted Coq model (Seq/Streams.v) of the same stream state.
"""
import itertools, json, math
import common

ID = "C11"
MANIFEST = dict(
    technique="Coq proof (closed-form len = number of elements iteration yields, enumeration theorems, observers as list functions; "
              "unbounded for ranges/stream(seq)/subsequences/cartesian powers/combinations/adaptors, exhaustive for permutations of <= 6 things) "
              "+ correspondence model/implementation/itertools oracle over every small constructor x drop position x observation order",
    text="Machine-checked theorems (Coq 8.16, no axioms) about a Gallina transcription of src/streams.rs and WrappedVec: one-step lemmas "
         "len s = 1 + len (next s) / len s = 0 and, from them, len = number of elements iteration yields for every state of Range (any start/end/step in Z, "
         "any sign), stream(seq), Subsequences (binary counter), CartesianPower (mixed radix), Combinations (every n and k; default len) and, by exhaustive "
         "computation lifted with forallb_forall, Permutations of at most 6 things (for every base length: termination, only permutations, strictly increasing order); each constructor enumerates exactly its documented set without repetition in the documented order; "
         "lazy map/filter/zip list map/filter/zip of the inner lists; reverse/last/in/truthiness/unpacking are the list functions of list(s); consumers that hold a "
         "second reference never advance the variable's stream; iota/repeat/cycle/iterate prefixes follow their recurrences and len is infinite; n-ary lazy_zip (with or without a function), "
         "Repeat's slice override and lazy_map/lazy_filter with raising callbacks (the error is the last item; list(s) is mapM f) are characterised too. The model is tied to "
         "/repo on every run by programs that bind each small stream state to a variable and apply a random order of observations, compared with the model and with Python itertools/range.",
    note="Trusted: Coq kernel; hand-written model Seq/Streams.v (tie to the code is the correspondence run, differential testing); extraction + OCaml runner; Rust harness; "
         "Python oracle. The Permutations theorems are bounded (base length <= 6, stated in the theorem). `break`ing callbacks, erroring iterate/zip functions and the consumers' handling of an error item are "
         "correspondence-only (runner + oracle), the stream side of raising lazy_map/lazy_filter callbacks is modelled and proved. Known finding (one class): len of a finite range/permutations/subsequences/cartesian power with >= 2^64 elements "
         "reports infinity because Option<usize> cannot hold the count. Negative indices/slices of infinite streams other than repeat/cycle are outside the property.",
    design="6-C11")

I63 = 2 ** 63
U64 = 2 ** 64
INF = "F7ff0000000000000"
LONG = 400  # streams longer than this are only observed through finite prefixes


def lit(n):
    return str(n) if n >= 0 else f"(0-{-n})"


def canon(v):
    if isinstance(v, bool):
        return "I1" if v else "I0"
    if isinstance(v, int):
        return f"I{v}"
    return "L[" + ",".join(canon(x) for x in v) + "]"


def base(n):
    return list(range(10, 10 + n))


def blit(n):
    return "[" + ",".join(str(x) for x in base(n)) + "]"


# ----------------------------------------------------------------------------- stream descriptors
def render(d):
    k = d[0]
    if k == "til":
        _, a, b, c, by = d
        return f"({lit(a)} til {lit(b)} by {lit(c)})" if by else f"({lit(a)} til {lit(b)})"
    if k == "to":
        _, a, b, c, by = d
        return f"({lit(a)} to {lit(b)} by {lit(c)})" if by else f"({lit(a)} to {lit(b)})"
    if k == "iota":
        return f"iota({lit(d[1])})"
    if k == "wvec":
        return f"stream({blit(d[1])})"
    if k == "perm":
        return f"permutations({blit(d[1])})"
    if k == "comb":
        return f"combinations({blit(d[1])}, {d[2]})"
    if k == "subs":
        return f"subsequences({blit(d[1])})"
    if k == "cart":
        return f"({blit(d[1])} ^^ {d[2]})"
    if k == "repeat":
        return f"repeat({lit(d[1])})"
    if k == "cycle":
        return f"cycle({blit(d[1])})"
    if k == "iterate":
        return f"iterate({lit(d[1])}, \\x -> x * 2 + 1)"
    if k == "map":
        return f"({render(d[1])} lazy_map (\\x -> x * 2 + 1))"
    if k == "filter":
        return f"({render(d[1])} lazy_filter (\\x -> x % 2 == 0))"
    if k == "zip":
        return "lazy_zip(" + ", ".join(render(x) for x in d[1]) + ")"
    if k == "zipf":
        names = [f"a{i}" for i in range(len(d[1]))]
        body = names[0]
        for nm in names[1:]:
            body = f"({body} * 100 + {nm})"
        return "lazy_zip(\\" + ", ".join(names) + " -> " + body + ", " + ", ".join(render(x) for x in d[1]) + ")"
    if k == "emap":
        return f"({render(d[2])} lazy_map (\\x -> if (x == {lit(d[1])}) throw \"boom\" else x * 2 + 1))"
    if k == "efilter":
        return f"({render(d[2])} lazy_filter (\\x -> if (x == {lit(d[1])}) throw \"boom\" else x % 2 == 0))"
    raise ValueError(d)


def model_tokens(d):
    k = d[0]
    if k == "til":
        return f"range {d[1]} {d[2]} {d[3]}"
    if k == "to":
        return f"to {d[1]} {d[2]} {d[3]}"
    if k == "iota":
        return f"range {d[1]} _ 1"
    if k in ("wvec", "perm", "subs", "cycle", "repeat", "iterate"):
        return f"{k} {d[1]}"
    if k in ("comb", "cart"):
        return f"{k} {d[1]} {d[2]}"
    if k in ("map", "filter"):
        return f"{k} " + model_tokens(d[1])
    if k in ("zip", "zipf"):
        return f"{k} {len(d[1])} " + " ".join(model_tokens(x) for x in d[1])
    if k in ("emap", "efilter"):
        return f"{k} {d[1]} " + model_tokens(d[2])
    raise ValueError(d)


def py_range(a, b, c):
    """oracle for a range: Python's range; zero step = the constant stream while a is before b"""
    if c == 0:
        return itertools.repeat(a) if a < b else iter(())
    return iter(range(a, b, c))


def py_iter(d):
    """independent reference: a Python iterator over the stream's elements (possibly endless)"""
    k = d[0]
    if k == "til":
        return py_range(d[1], d[2], d[3])
    if k == "to":
        return py_range(d[1], d[2] - 1 if d[3] < 0 else d[2] + 1, d[3])
    if k == "iota":
        return itertools.count(d[1])
    if k == "wvec":
        return iter(base(d[1]))
    if k == "perm":
        return (list(p) for p in itertools.permutations(base(d[1])))
    if k == "comb":
        return (list(p) for p in itertools.combinations(base(d[1]), d[2]))
    if k == "subs":
        b = base(d[1])
        return ([x for m, x in zip(mask, b) if m] for mask in itertools.product([False, True], repeat=d[1]))
    if k == "cart":
        return (list(p) for p in itertools.product(base(d[1]), repeat=d[2]))
    if k == "repeat":
        return itertools.repeat(d[1])
    if k == "cycle":
        return itertools.cycle(base(d[1]))
    if k == "iterate":
        def gen(x):
            while True:
                yield x
                x = x * 2 + 1
        return gen(d[1])
    if k == "map":
        return (x * 2 + 1 for x in py_iter(d[1]))
    if k == "filter":
        return (x for x in py_iter(d[1]) if x % 2 == 0)
    if k == "zip":
        return (list(t) for t in zip(*[py_iter(x) for x in d[1]]))
    if k == "zipf":
        def fold(t):
            acc = t[0]
            for x in t[1:]:
                acc = acc * 100 + x
            return acc
        return (fold(t) for t in zip(*[py_iter(x) for x in d[1]]))
    raise ValueError(d)


def range_count(a, b, c):
    if c == 0:
        return math.inf if a < b else 0
    if c > 0:
        return max(0, (b - a + c - 1) // c)
    return max(0, (a - b - c - 1) // (-c))


def count(d):
    """number of elements (math.inf for endless); never materialises a long stream"""
    k = d[0]
    if k == "til":
        return range_count(d[1], d[2], d[3])
    if k == "to":
        return range_count(d[1], d[2] - 1 if d[3] < 0 else d[2] + 1, d[3])
    if k in ("iota", "repeat", "cycle", "iterate"):
        return math.inf
    if k == "wvec":
        return d[1]
    if k == "perm":
        return math.factorial(d[1])
    if k == "comb":
        return math.comb(d[1], d[2])
    if k == "subs":
        return 2 ** d[1]
    if k == "cart":
        return d[1] ** d[2]
    if k == "map":
        return count(d[1])
    if k == "filter":
        c = count(d[1])
        if c == math.inf or c > 100000:
            return c  # (only used to classify; every filtered inner here has endlessly many even elements)
        return sum(1 for _ in py_iter(d))
    if k in ("zip", "zipf"):
        return min(count(x) for x in d[1])
    raise ValueError(d)


def has_len_override(d):
    return d[0] in ("til", "to", "iota", "wvec", "perm", "subs", "cart", "repeat", "cycle", "iterate")


# ----------------------------------------------------------------------------- observations
class Obs:
    def __init__(self, kind, args, src, model, expect):
        self.kind, self.args, self.src, self.model, self.expect = kind, args, src, model, expect

    def key(self):
        return (self.kind, json.dumps(self.args, default=str))


def py_idx(L, i):
    if not isinstance(i, int) or not (-I63 <= i < I63):
        return "err"
    try:
        return "ok " + canon(L[i])
    except IndexError:
        return "err"


def idx_lit(i):
    return {"f": "1.0", "x": '"a"'}.get(i) or lit(i)


def finite_observations(ctx, L, uid, full=False):
    """observations applicable to a finite stream whose remaining elements are L (a Python list)"""
    rng = ctx.rng
    n = len(L)
    out = []
    out.append(Obs("len", [], "len(s)", "len", "ok " + canon(n)))
    out.append(Obs("list", [], "list(s)", "list", "ok " + canon(L)))
    out.append(Obs("truthy", [], "if (s) 1 else 0", "truthy", "ok " + canon(n != 0)))
    out.append(Obs("reverse", [], "reverse(s)", "reverse", "ok " + canon(L[::-1])))
    out.append(Obs("last", [], "last(s)", "last", py_idx(L, -1)))
    out.append(Obs("first", [], "first(s)", "idx 0", py_idx(L, 0)))
    out.append(Obs("iter", [], "for (x <- s) yield x", "list", "ok " + canon(L)))
    out.append(Obs("forcount", [], f"c{uid} := 0; for (x <- s) c{uid} += 1; c{uid}", None, "ok " + canon(n)))
    small = list(range(-n - 2, n + 2))
    extreme = [I63 - 1, -I63, I63, -I63 - 1, U64, "f", "x"]
    idxs = small if full else rng.sample(small, min(len(small), 3)) + rng.sample(extreme, 1)
    for i in idxs:
        out.append(Obs("idx", [i], f"s[{idx_lit(i)}]", f"idx {i}", py_idx(L, i)))
    bounds = [None] + list(range(-n - 1, n + 2))
    pairs = list(itertools.product(bounds, bounds)) if full else \
        [(rng.choice(bounds), rng.choice(bounds)) for _ in range(3)] + [(rng.choice([I63 - 1, -I63]), rng.choice(bounds))]
    for a, b in pairs:
        A = "" if a is None else lit(a)
        B = "" if b is None else lit(b)
        out.append(Obs("slice", [a, b], f"s[{A}:{B}]", f"slice {'_' if a is None else a} {'_' if b is None else b}",
                       ("elems", L[a:b])))
    present = rng.sample(L, min(len(L), 2)) if L else []
    absent = [L[0] + [99] if L and isinstance(L[0], list) else 99]
    if L and isinstance(L[0], list) and len(L[0]) > 1:
        absent.append(L[0][::-1] if L[0][::-1] not in L else L[0] + [7])
    for x in present + absent:
        out.append(Obs("in", [x], f"{canon_src(x)} in s", f"in {canon(x)}", "ok " + canon(x in L)))
    ks = sorted({k for k in (n - 1, n, n + 1) if 1 <= k <= 7})
    for k in (ks if full else rng.sample(ks, min(len(ks), 2))):
        names = [f"u{k}x{j}" for j in range(k)]
        lhs = "(" + names[0] + ",)" if k == 1 else ", ".join(names)
        out.append(Obs("unpack", [k], f"{lhs} := s; [{', '.join(names)}]", f"unpack {k}",
                       "ok " + canon(L) if k == n else "err"))
    out.append(Obs("splat", [], f"h{uid}, ...t{uid} := s; [h{uid}, t{uid}]", None,
                   "ok " + canon([L[0], L[1:]]) if L else "err"))
    t = rng.randrange(0, n + 2)
    out.append(Obs("take", [t], f"s take {t}", f"slice _ {t}", ("elems", L[:t])))
    out.append(Obs("drop", [t], f"s drop {t}", f"slice {t} _", ("elems", L[t:])))
    return out


def canon_src(x):
    return str(x) if isinstance(x, int) and x >= 0 else lit(x) if isinstance(x, int) else "[" + ", ".join(canon_src(y) for y in x) + "]"


def prefix_observations(ctx, d, k, cnt, uid):
    """observations of an endless (or too long to list) stream through finite prefixes.
    P = the first 80 elements after dropping k."""
    rng = ctx.rng
    P = list(itertools.islice(py_iter(d), k, k + 80))
    endless = cnt == math.inf
    out = []
    # (len/truthiness of an endless lazy_map/filter/zip would count forever: not asked)
    if endless and has_len_override(d):
        out.append(Obs("len", [], "len(s)", "len", "ok " + INF))
        out.append(Obs("truthy", [], "if (s) 1 else 0", "truthy", "ok I1"))
    elif not endless:
        out.append(Obs("len", [], "len(s)", "len", "ok " + canon(cnt - k)))
        out.append(Obs("truthy", [], "if (s) 1 else 0", "truthy", "ok I1"))
    out.append(Obs("first", [], "first(s)", "idx 0", "ok " + canon(P[0])))
    for i in rng.sample(range(0, 70), 3):
        out.append(Obs("idx", [i], f"s[{i}]", f"idx {i}", "ok " + canon(P[i])))
    for _ in range(2):
        a, b = rng.randrange(0, 12), rng.randrange(0, 30)
        out.append(Obs("slice", [a, b], f"s[{a}:{b}]", f"slice {a} {b}", ("elems", P[a:b])))
    t = rng.randrange(0, 40)
    out.append(Obs("take", [t], f"s take {t}", f"slice _ {t}", ("elems", P[:t])))
    a = rng.randrange(0, 10)
    out.append(Obs("drop", [a], f"s drop {a}", f"slice {a} _", "ok T[" + ",".join(canon(x) for x in P[a:a + 64]) + ",...]"))
    if has_len_override(d) and endless:
        out.append(Obs("unpack", [2], f"u{uid}a, u{uid}b := s; 1", "unpack 2", "err"))
    x = P[rng.randrange(0, 20)]
    out.append(Obs("in", [x], f"{canon_src(x)} in s", f"in {canon(x)}", "ok I1"))
    if d[0] in ("cycle", "repeat"):
        # the index overrides: every integer index that fits a machine word, either sign
        n = d[1] if d[0] == "cycle" else 1
        xs = base(n) if d[0] == "cycle" else [d[1]]
        pos = k % n
        for i in rng.sample(range(-12, 0), 3) + [I63 - 1, -I63, I63 - 2, -I63 + 1]:
            out.append(Obs("idx", [i], f"s[{lit(i)}]", f"idx {i}", "ok " + canon(xs[(pos + i) % n])))
        for i in (I63, -I63 - 1, "f", "x"):
            out.append(Obs("idx", [i], f"s[{idx_lit(i)}]", f"idx {i}", "err"))
        if d[0] == "repeat":
            # Repeat's slice override: a negative bound counts back from the infinitely far end
            bs = [None] + list(range(-6, 7))
            prs = [(rng.choice(bs), rng.choice(bs)) for _ in range(6)] + \
                  [(rng.choice([-I63, -I63 + 1, I63 - 1]), rng.choice(bs)), (rng.choice(bs), rng.choice([-I63, I63 - 1, 2 ** 62])),
                   (None, 2 ** 62), (-I63, None), (-I63, -I63 + 3), (I63 - 4, I63 - 1)]
            for a, b in prs:
                A = "" if a is None else lit(a)
                B = "" if b is None else lit(b)
                out.append(Obs("rslice", [a, b], f"s[{A}:{B}]", f"slice {'_' if a is None else a} {'_' if b is None else b}",
                               repeat_slice_oracle(d[1], a, b)))
        m = rng.randrange(1, 12)
        out.append(Obs("revtake", [m], f"reverse(s) take {m}", f"revtake {m}",
                       "ok " + canon([xs[(pos - 1 - j) % n] for j in range(m)])))
    return out, P


def repeat_slice_oracle(x, a, b):
    """x, x, x, ... without end: a bound >= 0 is a position, a bound < 0 is that far before the (infinitely
    far) end, a missing upper bound is the end itself. Widths beyond any allocation are an error."""
    a_end = a is not None and a < 0
    b_end = b is None or b < 0
    if a_end and not b_end:
        return "ok L[]"                      # starts beyond every finite position
    if not a_end and b_end:
        return "ok T[" + ",".join([canon(x)] * 64) + ",...]"   # never ends: the stream itself
    w = max((0 if b is None else b) - (0 if a is None else a), 0)
    if w > 2 ** 40:
        return "err"
    return "ok " + canon([x] * w)


def erroring_items(d):
    """items of a lazy_map / lazy_filter whose callback raises on the element d[1]: values, then "ERR" last"""
    out = []
    for x in py_iter(d[2]):
        if x == d[1]:
            out.append("ERR")
            break
        if d[0] == "emap":
            out.append(x * 2 + 1)
        elif x % 2 == 0:
            out.append(x)
    return out


def erroring_case(ctx, d, k):
    """a stream whose callback raises: the error is the last item; consumers that reach it raise it"""
    rng = ctx.rng
    I = erroring_items(d)[k:]
    n = len(I)
    bad = "ERR" in I
    vals = [x for x in I if x != "ERR"]

    def val(L):
        return "err" if "ERR" in L else "ok " + canon(L)
    obs = [Obs("len", [], "len(s)", "len", "ok " + canon(n)),
           Obs("truthy", [], "if (s) 1 else 0", "truthy", "ok " + canon(n != 0)),
           Obs("list", [], "list(s)", "list", val(I)),
           Obs("iter", [], "for (x <- s) yield x", "list", val(I)),
           Obs("reverse", [], "reverse(s)", "reverse", val(I[::-1])),
           Obs("first", [], "first(s)", "idx 0", ("err" if not I or I[0] == "ERR" else "ok " + canon(I[0])))]
    for i in rng.sample(range(0, n + 2), min(3, n + 2)):
        obs.append(Obs("idx", [i], f"s[{i}]", f"idx {i}", "err" if i >= n or I[i] == "ERR" else "ok " + canon(I[i])))
    for _ in range(3):
        a, b = rng.randrange(0, n + 2), rng.randrange(0, n + 2)
        obs.append(Obs("slice", [a, b], f"s[{a}:{b}]", f"slice {a} {b}", val(I[a:b])))
    t = rng.randrange(0, n + 2)
    obs.append(Obs("take", [t], f"s take {t}", f"slice _ {t}", val(I[:t])))
    for x in (vals[:1] + vals[-1:] + [99]):
        exp = "ok I1" if x in vals else ("err" if bad else "ok I0")
        obs.append(Obs("in", [x], f"{canon_src(x)} in s", f"in {canon(x)}", exp))
    rng.shuffle(obs)
    j = len(vals)
    obs.append(Obs("unchanged", [], f"s take {j}", f"slice _ {j}", "ok " + canon(vals)))
    setup = f"s := {render(d)}" + (f" drop {k}" if k else "")
    return dict(desc=d, k=k, setup=setup, obs=obs, kind="erroring", n=n)


# ----------------------------------------------------------------------------- states
def all_states(ctx):
    """(descriptor, drop k) pairs; the deterministic small grids first, then sampled extremes"""
    rng = ctx.rng
    quick = ctx.quick()
    S = []
    small = range(-4, 5)

    def with_drops(d, every=True, sample=3):
        """every drop position 0..count+1, or `sample` of them (always including 0 and the end)"""
        c = count(d)
        if c == math.inf or c > LONG:
            ks = [0, 1, 2, 5] if every else [rng.choice([0, 1, 3])]
        else:
            ks = list(range(0, c + 2))
            if not every and len(ks) > sample:
                ks = sorted(set(rng.sample(ks, sample - 2) + [0, c]))
        for k in ks:
            S.append((d, k))

    # ranges: bounds and steps in [-4, 4], both constructors
    for a in small:
        for b in small:
            for c in small:
                with_drops(("til", a, b, c, True), (not quick) or rng.random() < 0.6)
                if c == 1:
                    with_drops(("til", a, b, 1, False), not quick)
                    with_drops(("to", a, b, 1, False), not quick)
                with_drops(("to", a, b, c, True), (not quick) or rng.random() < 0.3)
    # extremes: bounds and steps at +-2^63+-1
    ext = [s * (I63 + e) for s in (1, -1) for e in (-1, 0, 1)]
    pool = ext + [0, 1, -1, 3]
    steps = ext + [1, -1, 2, -3]
    for _ in range(ctx.n(500, 3000)):
        a, b, c = rng.choice(pool), rng.choice(pool), rng.choice(steps)
        with_drops((rng.choice(["til", "to"]), a, b, c, True), False)
    S.append((("til", 0, U64, 1, False), 0))
    S.append((("til", 0, U64 - 1, 1, False), 0))
    S.append((("til", U64, 0, -1, True), 1))
    S.append((("til", 10, 0, -3, True), 0))           # F3
    # stream(seq), combinatorial streams: base lists of length 0..5, selection sizes 0..len+1
    for n in range(0, 6):
        with_drops(("wvec", n))
        with_drops(("perm", n), n <= 4 or not quick, 14)
        with_drops(("subs", n), n <= 4 or not quick, 12)
        for k in range(0, n + 2):
            with_drops(("comb", n, k))
        for k in range(0, 5):
            if n ** k <= 1100:
                with_drops(("cart", n, k), n ** k <= 130 or not quick, 8)
    # endless streams
    for a in list(small) + ext:
        with_drops(("iota", a), a in (0, 3))
        with_drops(("repeat", a), False)
        with_drops(("iterate", a), False)
    for n in range(1, 6):
        for k in range(0, n + 2):
            S.append((("cycle", n), k))
    # lazy adaptors over finite and endless inner streams
    inner = [("til", a, b, c, True) for a in (-3, 0, 2) for b in (-4, 0, 5) for c in (-2, -1, 1, 3)] + \
            [("wvec", n) for n in (0, 1, 4)] + [("iota", 1), ("cycle", 3), ("iterate", 2)]
    for d in inner:
        with_drops(("map", d), False)
        with_drops(("filter", d), False) if d[0] not in ("iterate",) else None
        with_drops(("map", ("filter", d)), False) if d[0] not in ("iterate",) else None
        with_drops(("filter", ("map", d)), False) if d[0] in ("wvec",) else None
    for _ in range(ctx.n(150, 800)):
        m = rng.choice([2, 2, 3])
        parts = [rng.choice(inner + [("perm", 3), ("subs", 2), ("repeat", 7)]) for _ in range(m)]
        with_drops(("zip", parts), False)
    ints = [x for x in inner if x[0] != "iterate"] + [("repeat", 7)]
    for _ in range(ctx.n(120, 600)):
        m = rng.choice([2, 2, 3, 4])
        with_drops(("zipf", [rng.choice(ints) for _ in range(m)]), False)
    for d in [x for x in inner if x[0] in ("til", "wvec")] + [("iota", 1)]:
        first = list(itertools.islice(py_iter(d), 0, 8))
        for kk in sorted(set(first[:1] + first[2:3] + first[-1:] + [77])):
            for kind in ("emap", "efilter"):
                for k in (0, 1, 3):
                    if (kind, d[0], kk) == ("efilter", "iota", 77) or (d[0] == "iota" and kk == 77):
                        continue  # (an endless stream whose callback never raises: not an erroring case)
                    S.append(((kind, kk, d), k))
    return S


def is_ctor_error(d):
    return d[0] == "cycle" and d[1] == 0


def build_case(ctx, d, k, uid):
    if d[0] in ("emap", "efilter"):
        return erroring_case(ctx, d, k)
    cnt = count(d)
    setup = f"s := {render(d)}" + (f" drop {k}" if k else "")
    if cnt == math.inf or cnt - k > LONG:
        obs, P = prefix_observations(ctx, d, k, cnt, uid)
        final = Obs("unchanged", [], "s take 6", "slice _ 6", ("elems", P[:6]))
        kind = "endless" if cnt == math.inf else "long"
        L = None
    else:
        L = list(itertools.islice(py_iter(d), k, None))
        # thorough: all short streams get the full index and slice-bound grids
        full = (not ctx.quick()) and len(L) <= 4
        obs = finite_observations(ctx, L, uid, full)
        final = Obs("unchanged", [], "list(s)", "list", "ok " + canon(L))
        kind = "finite"
    ctx.rng.shuffle(obs)
    if kind == "finite" and not (L is not None and not ctx.quick() and len(obs) > 40):
        obs = obs[:ctx.n(10, 16)]
    obs.append(final)
    return dict(desc=d, k=k, setup=setup, obs=obs, kind=kind, n=(len(L) if L is not None else None))


HUGE_CASES = [  # (descriptor, drop): combinatorial streams whose count is near or beyond 2^64
    (("perm", 21), 0), (("perm", 20), 0), (("subs", 64), 0), (("subs", 64), 1), (("subs", 63), 0),
    (("cart", 2, 64), 0), (("cart", 2, 64), 1), (("cart", 3, 41), 0), (("cart", 3, 40), 0),
]


def render_big(d):
    if d[0] == "perm":
        return f"permutations(0 til {d[1]})"
    if d[0] == "subs":
        return f"subsequences(0 til {d[1]})"
    return f"((0 til {d[1]}) ^^ {d[2]})"


def observed(r):
    if r is None:
        return "missing"
    st = r.get("status")
    if st == "ok":
        return "ok " + r["val"]
    if st == "err":
        return "err"
    return st


def agrees(obs, exp):
    if isinstance(exp, tuple):  # elements only: a list or a stream value
        want = ",".join(canon(x) for x in exp[1])
        # (the harness forces at most 64 elements of a stream value and marks a longer one)
        cut = ",".join(canon(x) for x in exp[1][:64]) + ",..." if len(exp[1]) > 64 else want
        return obs in (f"ok L[{want}]", f"ok T[{cut}]")
    return obs == exp


KNOWN_KEY = "len-count-ge-2^64"


def known_class(case, o, impl):
    """structural matcher for the committed known finding: the observation is `len`, the stream is
    a range / permutations / subsequences / cartesian power whose exact remaining count is finite
    and >= 2^64, and the implementation answered infinity"""
    d = case["desc"]
    if d[0] in ("til", "to", "perm", "subs", "cart") and o.kind == "len" and impl == "ok " + INF:
        c = count(d)
        if c != math.inf and c - case["k"] >= U64:
            return KNOWN_KEY
    return None


def evaluate(ctx, cases, runner):
    progs = [[c["setup"]] + [o.src for o in c["obs"]] for c in cases]
    import time
    t0 = time.time()
    res = common.run_prog(progs, timeout=20.0)
    common.log(f"[C11] implementation: {len(progs)} programs in {time.time() - t0:.1f}s")
    mlines, mref = [], []
    for ci, c in enumerate(cases):
        for oi, o in enumerate(c["obs"]):
            if o.model:
                mlines.append(f"{model_tokens(c['desc'])} ; {c['k']} ; {o.model}")
                mref.append((ci, oi))
    t0 = time.time()
    mres = common.run_model(runner, mlines) if runner else []
    common.log(f"[C11] model: {len(mlines)} lines in {time.time() - t0:.1f}s")
    msays = {ref: m for ref, m in zip(mref, mres)}
    bad, evals = [], 0
    for ci, (c, r) in enumerate(zip(cases, res)):
        rs = (r or {}).get("results") or []
        if r and r.get("status") in ("hang", "abort"):
            rs = []
            c["whole"] = r.get("status")
        setup = observed(rs[0]) if rs else c.get("whole", "missing")
        c["impl"] = [setup]
        if not setup.startswith("ok"):
            bad.append(("property", c, None, f"binding the stream failed: {setup}"))
            continue
        for oi, o in enumerate(c["obs"]):
            evals += 1
            impl = observed(rs[oi + 1]) if oi + 1 < len(rs) else c.get("whole", "missing")
            c["impl"].append(impl)
            mod = msays.get((ci, oi))
            if agrees(impl, o.expect):
                if mod is not None and not model_agrees(impl, mod):
                    bad.append(("correspondence", c, oi, f"model says {mod}"))
                continue
            kc = known_class(c, o, impl)
            if kc:
                ctx.known_hit(kc, c["setup"])
                continue
            bad.append(("property", c, oi, f"model says {mod}"))
            if impl in ("panic", "missing", "hang", "abort"):
                break
    return bad, evals


def model_agrees(impl, mod):
    return impl == mod


def expect_text(e):
    return {"elements": e[1]} if isinstance(e, tuple) else e


def report(ctx, bad):
    seen = set()
    for kind, c, oi, extra in bad:
        o = c["obs"][oi] if oi is not None else None
        key = (kind, c["desc"][0], o.kind if o else "setup")
        if key in seen:
            continue
        seen.add(key)
        upto = (oi + 1) if oi is not None else 0
        replay = {"case": {"desc": c["desc"], "k": c["k"], "obs": [[x.kind, x.args] for x in c["obs"][:upto]]},
                  "program": [c["setup"]] + [x.src for x in c["obs"][:upto]],
                  "failing_statement": o.src if o else c["setup"],
                  "implementation": c["impl"][upto] if upto < len(c["impl"]) else c["impl"][-1:],
                  "python_oracle": expect_text(o.expect) if o else "the stream can be bound",
                  "coq_model": extra}
        if kind == "property":
            replay["what"] = ("the implementation's answer for this observation of the stream variable differs from what iteration of the same "
                              "stream yields (Python range/itertools reference)")
            ctx.violation("property", replay, found=True)
        else:
            replay["what"] = ("correspondence Seq/Streams.v <-> implementation no longer checks on this input; the Python oracle accepts the "
                              "implementation's answer, so no input violating the property statement was found")
            ctx.violation("correspondence", replay, found=False)


def special_cases(ctx, runner):
    """constructor errors and the usize-overflow known finding: single-observation programs"""
    evals = 0
    # cycle([]) must be a catchable error when constructed (F12)
    r = common.run_prog([["s := cycle([])", "first(s)"]], timeout=20.0)[0]
    rs = (r or {}).get("results") or []
    got = [observed(x) for x in rs]
    evals += 1
    m = common.run_model(runner, ["cycle 0 ; 0 ; len"])[0] if runner else "ctor-err"
    if not got or got[0] != "err":
        ctx.violation("property", {"what": "cycle([]) must raise a catchable error (a cycle has to be non-empty); instead it builds a stream whose first use panics",
                                   "program": ["s := cycle([])", "first(s)"], "implementation": got, "coq_model": m}, found=True)
    elif m != "ctor-err":
        ctx.violation("correspondence", {"what": "model of cycle([])", "coq_model": m, "implementation": got}, found=False)
    # len of combinatorial streams whose count is near or beyond 2^64: the exact count when it fits
    # usize, infinity (the known finding) when it does not; never a panic
    progs = [[f"s := {render_big(d)}" + (f" drop {k}" if k else ""), "len(s)"] for d, k in HUGE_CASES]
    res = common.run_prog(progs, timeout=20.0)
    ml = common.run_model(runner, [f"{model_tokens(d)} ; {k} ; len" for d, k in HUGE_CASES]) if runner else [None] * len(progs)
    len_obs = Obs("len", [], "len(s)", "len", None)
    for (d, k), p, r, m in zip(HUGE_CASES, progs, res, ml):
        evals += 1
        cnt = count(d) - k
        rs = (r or {}).get("results") or []
        got = observed(rs[1]) if len(rs) > 1 else "missing"
        rep = {"what": "len of a combinatorial stream whose count is near or beyond 2^64", "program": p, "implementation": got,
               "python_oracle": "ok " + canon(cnt), "coq_model": m}
        if got == "ok " + canon(cnt):
            if m is not None and m != got:
                ctx.violation("correspondence", rep, found=False)
        elif known_class({"desc": d, "k": k}, len_obs, got) and KNOWN_KEY in ctx.known:
            ctx.known_hit(KNOWN_KEY, p[0])
            if m is not None and m != got:
                ctx.violation("correspondence", rep, found=False)
        else:
            ctx.violation("property", rep, found=True)
    return evals


def run(ctx):
    import time
    t0 = time.time()
    runner = common.standard_prelude(ctx)
    common.log(f"[C11] prelude (proof stage, harness and runner builds) {time.time() - t0:.1f}s")
    states = all_states(ctx)
    cases = []
    for uid, (d, k) in enumerate(states):
        if is_ctor_error(d):
            continue
        cases.append(build_case(ctx, d, k, uid))
    t1 = time.time()
    bad, evals = evaluate(ctx, cases, runner)
    common.log(f"[C11] {len(cases)} stream states, {evals} observations evaluated in {time.time() - t1:.1f}s")
    report(ctx, bad)
    evals += special_cases(ctx, runner)
    distinct = {(json.dumps(c["desc"]), c["k"], o.key()) for c in cases for o in c["obs"]}
    by_ctor, by_obs = {}, {}
    for c in cases:
        by_ctor[c["desc"][0]] = by_ctor.get(c["desc"][0], 0) + 1
        for o in c["obs"]:
            by_obs[o.kind] = by_obs.get(o.kind, 0) + 1
    step = max(1, len(cases) // 10)
    ctx.coverage.update({
        "evaluations": evals, "distinct_nontrivial": len(distinct),
        "stream_states": len(cases),
        "rule": "one evaluation = one observation statement executed on a stream variable; distinct by (constructor+parameters, drop position, observation, "
                "arguments); every one is non-trivial in that its expected value is computed from the stream's element list by the Python reference "
                "(range/itertools), and the last statement of every program re-lists the variable to check that nothing advanced it",
        "by_constructor_states": by_ctor, "by_observation": by_obs,
        "state_kinds": {k: sum(1 for c in cases if c["kind"] == k) for k in ("finite", "endless", "long", "erroring")},
        "model_compared": sum(1 for c in cases for o in c["obs"] if o.model),
        "samples": [{"program": [c["setup"]] + [o.src for o in c["obs"]], "implementation": c.get("impl")} for c in cases[::step]][:10],
    })
    ctx.assumptions += ["element functions passed to lazy_map/lazy_filter/iterate are total and pure (x*2+1, x%2==0)",
                        "base lists hold distinct integers 10,11,...; the theorems are over an abstract element type",
                        "Permutations theorems are bounded by base length <= 6"]
    return common.conclude(ctx)


def replay(ctx, rep):
    runner = common.standard_prelude(ctx)
    prog = rep.get("program")
    res = common.run_prog([prog], timeout=20.0)[0]
    got = [observed(x) for x in ((res or {}).get("results") or [])]
    print(json.dumps({"program": prog, "implementation": got, "expected_last": rep.get("python_oracle"), "model": rep.get("coq_model")}))
    exp = rep.get("python_oracle")
    last = got[-1] if got else "missing"
    if isinstance(exp, dict):
        ok = agrees(last, ("elems", exp["elements"]))
    elif exp == "the stream can be bound":
        ok = last.startswith("ok")
    else:
        ok = (last == exp) if isinstance(exp, str) and (exp.startswith("ok") or exp == "err") else last not in ("panic", "hang", "abort", "missing")
    return 0 if ok and len(got) == len(prog) else 1
