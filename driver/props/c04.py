"""C04 - operators are ordinary functions: all application forms agree.

Correspondence, two parts:
 (b) the modelling assumption of Dispatch/Apply.v ("a builtin is a function of its argument vector
     whichever entry point is used") is checked against EVERY global function of the live env:
     harness/src/bin/c04.rs calls Func::run(vec) / run1 / run2 directly (for Func::Builtin that is
     Builtin::run/run1/run2) on every 1- and 2-tuple of a pool of values of all kinds and compares the
     outcomes, and wherever f(y) is a function compares f(y)(x) with f(x, y).
 (a) dispatch: (f, a, b) triples x all surface forms are rendered to Noulith (bin/prog) and to the
     extracted Coq model (ocaml/c04.ml), whose answer is the normal form of the expression - the
     plain vector call it reduces to - which is rendered back to Noulith as the reference value.
     All forms must give the reference value (or all fail).
"""
import json, re, time
import common

ID = "C04"
MANIFEST = dict(
    technique="Coq proof (every application form of the transcribed dispatch layer reduces to one vector call, for all "
              "functions/values/builtin meanings) + exhaustive entry-point sweep over every live builtin + form-by-form correspondence",
    text="Machine-checked theorems (Coq 8.16, no axioms) about a Gallina transcription of Func::run/run1/run2, call_or_part_apply, "
         "apply_section, splat_section_eval and the Call/Chain/List/OpAssign arms of evaluate: for every function value f (opaque "
         "builtin, closure, partial application, flip, composition, on-composition, parallel, fanout, lifted call, call/chain/list section "
         "(hole callee included), and the transcribed builtins then . apply of const id flip >>> <<< on *** &&& lift), all values a b c and EVERY meaning of the opaque builtins, the forms a f b, f(a,b), f! a,b, a `f` b, "
         "f(_,b)(a), f(a,_)(b), (_ f b)(a), (a f _)(b), [a,b] apply f, f of [a,b], f(_,_)(a,b), f(..._)([a,b]) and (a f)(b) for non-function a "
         "evaluate to run f [a;b]; x f= b leaves run f [x;b], and for a right-hand side EXPRESSION that reads the assigned place (x f= g(x), a[i] f= a[j]; op_assign_store with the interpreter's step order explicit) the place ends up holding f(old value, rhs evaluated in the old store); one-argument calls that return PartialApp2/PartialAppLast are right sections; "
         "the 1-, 3- and n-argument analogues with bang/splat/./then/section forms (any hole layout); PartialApp1/2/Last, Flip, Composition unfold "
         "to the call they abbreviate; fuel only ever turns OutOfFuel into the answer. The model is tied to /repo on every run by (b) an exhaustive "
         "sweep of Builtin::run vs run1/run2 (and f(y)(x) vs f(x,y)) over all ~290 non-I/O global functions x all 1- and 2-tuples of a 29-value pool, "
         "(a) ~1500 (f,a,b) cases x 11-18 surface forms through implementation and extracted model, and (c) ~750 op-assign statements whose right-hand side reads the target (plain variables and index targets) against the plain-call program. Known finding `variadic-combinator` (***, &&&, equals: the one-argument call is the unary combinator, not a right section): C04_right_section carries the premise, C04_right_section_refuted is the witness, and C04_variadic_combinators_not_sections / C04_equals_curried prove it of the transcribed *** &&& and of OnFanoutConst(==, args); lift and on ARE sections (C04_lift_is_section, C04_known_right_section).",
    note="Trusted: Coq kernel; the hand-written model Dispatch/Apply.v (tie to code = the correspondence run, i.e. differential testing); "
         "extraction + OCaml runner; Rust harness; Python renderer. An opaque builtin's one- and two-argument entry points are DEFINED from its "
         "vector entry point in the model: per-builtin agreement of the ~45 hand-written run1/run2 overrides is established by sweep (b) only, "
         "on the pool, not by proof. Parser-only distinctions (bang, backtick, juxtaposition) are the same AST in the model and are compared by "
         "correspondence only. Not modelled: chain sections with more than one operator (C03), index/slice/update sections, Memoized/Type/StructField. I/O, clock, random, process builtins are excluded from the sweep by name.",
    design="6-C04")

POOL = ["null", "0", "1", "2", "0-3", "1000", "7//2", "2^70", "1/2", "0-7/3", "2.5", "0.0-1.5", "1.0+2i",
        '""', '"a"', '"hello world"', "[]", "[1, 2, 3]", '[3, "a", [1], null]', "[[1, 2], [3, 4]]",
        "{}", '{"a": 3}', "V(1, 2, 3)", "B[1, 2, 255]", "1 to 3",
        "\\x -> x + 1", "\\x, y -> x + y * 2", "+", "int"]
POOL_KIND = ["null", "int", "int", "int", "int", "int", "bigrepr-int", "big-int", "rational", "rational", "float", "float", "complex",
             "string", "string", "string", "list", "list", "list", "list", "dict", "dict", "vector", "bytes", "stream",
             "closure", "closure", "builtin", "type"]
POOL_EXTRA = ["0-1", "255", "2^64", "10^30", "1e300", "0.0/0.0", "[null]", '"\\n"', '{1: "x"}', "V(0.5)", "B[]", "1 til 1", "(1 to 2) lazy_map (+1)",
              "\\...xs -> xs", "flip(-)"]
BIG = {POOL.index("2^70")}
TRI_POOL = ["0", "2", '"a"', "[1, 2, 3]", "[[1, 2], [3, 4]]", '{"a": 3}', "\\x -> x + 1", "\\x, y -> x + y * 2"]   # 3-tuples: f(x, y, z) vs f(z)(x, y)
TRI_POOL_EXTRA = ["null", "1/2", "2.5", '"hello world"', "V(1, 2, 3)", "1 to 3"]
FUNC_SRCS = {POOL[i] for i, k in enumerate(POOL_KIND) if k in ("closure", "builtin", "type")} | {"\\...xs -> xs", "flip(-)"}
IS_FUNC = {i for i, x in enumerate(POOL + POOL_EXTRA) if x in FUNC_SRCS}
PROBES = [[3], [17], [14], [3, 17], [17, 3], [2, 3]]
# builtins that do I/O, touch files/processes/network/clock/sleep/random/input, or evaluate source text
EXCLUDE = set("append_file eval input interact interact_lines list_files now random random_bytes random_range read read_bytes "
              "read_compressed read_file read_file? read_file_bytes read_file_bytes? run_process shuffle choose sleep time write_file".split())
# a count/exponent argument of 2^70 makes these allocate or loop without end (C14's finding F23, not this property)
BIG_UNSAFE = {"^", "**", "×", "<<", ">>", "*.", ".*", "$*", "^^", "repeat", "combinations", "window", "!", "factorial", "til", "to",
              "iota", "subsequences", "permutations", "take", "drop", "str_radix", "int_radix", "is_prime", "factorize", "cycle",
              "group", "group'", "round", "floor", "ceil", "%", "//", "%%", "/!", "gcd", "lcm", "**"}
# arithmetic / comparison / bitwise builtins: a huge argument is just a number for them (no allocation), so they get the
# i64 boundary in both representations (machine word literal, and the same or neighbouring value as a big integer)
ARITH = ["+", "-", "*", "/", "//", "%", "%%", "/!", "&", "|", "~", "⊕", "xor", "max", "min", "<", "<=", ">", ">=", "==", "!=",
         "<=>", ">=<", "≤", "≥", "gcd", "lcm", "abs", "signum", "even", "odd", "not", "numerator", "denominator", "floor", "ceil",
         "round", "subtract", "const", "id", "int", "float", "str", "repr", "in", "=>"]
ARITH_POOL = ["0", "1", "0-1", "2", "0-2", "9223372036854775807", "0-9223372036854775807-1", "0-9223372036854775807",
              "9223372036854775806", "4611686018427387904", "0-4611686018427387904", "3037000500", "0-3037000500", "4294967296",
              "2^63", "0-2^63", "2^62", "2^63-1", "2^64", "7//2"]
ARITH_BOUNDARY = list(range(5, 19))      # indices of the values near the edge of i64
# the result lists these builtins build are in HashMap iteration order
UNORDERED = {"group_all"}
# one-argument results that are the unary case of a variadic function combinator, not a section
COMBINATOR_VARIANTS = {"Parallel", "Fanout", "OnFanoutConst"}
KNOWN_KEY = "variadic-combinator"
# results depend on the scope the call is made in / print whole environments: not used as f in part (a)
ENV_DEPENDENT = {"vars", "__internal_debug"}


def split_top(s):
    """split canonical text on top-level commas"""
    out, depth, cur, instr, esc = [], 0, "", False, False
    for ch in s:
        if instr:
            cur += ch
            if esc:
                esc = False
            elif ch == "\\":
                esc = True
            elif ch == '"':
                instr = False
            continue
        if ch == '"':
            instr = True
        if ch in "[{(":
            depth += 1
        elif ch in "]})":
            depth -= 1
        if ch == "," and depth == 0:
            out.append(cur)
            cur = ""
        else:
            cur += ch
    if cur:
        out.append(cur)
    return out


def unorder(obs):
    """'ok L[...]' with the top-level elements sorted (results in HashMap iteration order)"""
    m = re.match(r"ok L\[(.*)\]$", obs, flags=re.S)
    if not m:
        return obs
    return "ok L~[" + ",".join(sorted(split_top(m.group(1)))) + "]"


# ----------------------------------------------------------------------------- part (b): entry points
def list_globals():
    r = common.run_harness(common.harness_bin("c04"), [{"mode": "list"}], timeout=60.0)[0]
    if r.get("status") != "ok":
        raise RuntimeError("c04 list failed: %r" % (r,))
    return r["names"]


def sweep_tuples(name, pool_n, big, tri):
    ts = []
    unsafe = name in BIG_UNSAFE
    for i in range(pool_n):
        if unsafe and i in big:
            continue
        ts.append([i])
    for i in range(pool_n):
        for j in range(pool_n):
            if unsafe and (i in big or j in big):
                continue
            ts.append([i, j])
    for i in tri:
        for j in tri:
            for k in tri:
                ts.append([i, j, k])
    return ts


def run_sweep(ctx, names, pool, big, tri, chunk=320, limit_ms=1500):
    """returns merged per-name results"""
    binary = common.harness_bin("c04")
    pending = []
    for n in names:
        ts = sweep_tuples(n, len(pool), big, tri)
        for k in range(0, len(ts), chunk):
            pending.append({"fn": n, "tuples": ts[k:k + chunk]})
    merged = {n: {"calls": 0, "compared": 0, "sections": 0, "diffs": [], "panics": [], "hangs": [], "aborts": [],
                  "oks": [], "one_kinds": {}, "counts": {}, "tuples": 0} for n in names}
    rounds = 0
    while pending and rounds < 40:
        rounds += 1
        cases = [{"mode": "sweep", "fn": c["fn"], "pool": pool, "setup": [], "tuples": c["tuples"], "probes": PROBES,
                  "fuel": 20000, "limit_ms": limit_ms, "unordered": c["fn"] in UNORDERED, "id": i} for i, c in enumerate(pending)]
        res = common.run_harness(binary, cases, timeout=60.0, workers=common.NPROC)
        nxt = []
        for c, r in zip(pending, res):
            m = merged[c["fn"]]
            st = r.get("status")
            if st == "batch":
                done = r["done"]
                for k in ("calls", "compared", "sections"):
                    m[k] += r[k]
                m["diffs"] += r["diffs"]
                m["panics"] += r["panics"]
                m["oks"] += r["oks"]
                m["one_kinds"].update(r["one_kinds"])
                for k, v in r["counts"].items():
                    m["counts"][k] = m["counts"].get(k, 0) + v
                if "hang_at" in r:
                    m["hangs"].append(c["tuples"][done])
                    m["tuples"] += done + 1
                    rest = c["tuples"][done + 1:]
                    if rest:
                        nxt.append({"fn": c["fn"], "tuples": rest})
                else:
                    m["tuples"] += done
            elif st in ("abort", "hang", "badjson"):
                # the worker died (allocation failure, or the race with a watchdog exit): bisect
                ts = c["tuples"]
                c["retries"] = c.get("retries", 0) + 1
                if len(ts) == 1 and c["retries"] > 2:
                    m["aborts"].append(ts[0])
                    m["tuples"] += 1
                elif len(ts) == 1 or c["retries"] <= 1:
                    nxt.append(c)
                else:
                    h = len(ts) // 2
                    nxt.append({"fn": c["fn"], "tuples": ts[:h]})
                    nxt.append({"fn": c["fn"], "tuples": ts[h:]})
            else:
                raise RuntimeError("c04 sweep: %r -> %r" % (c["fn"], r))
        pending = nxt
    return merged


def confirm_diff(d, pool):
    """re-run one differing tuple alone, in a fresh process/env"""
    case = {"mode": "sweep", "fn": d["fn"], "pool": pool, "setup": [], "tuples": [d["t"]], "probes": PROBES, "fuel": 20000,
            "limit_ms": 5000, "unordered": d["fn"] in UNORDERED, "fresh": True}
    r = common.run_harness(common.harness_bin("c04"), [case], timeout=30.0, workers=1)[0]
    return [x for x in r.get("diffs", []) if x["kind"] == d["kind"] and x["what"] == d["what"]]


def is_known_combinator(d):
    return d["kind"] == "section" and d.get("one_arg_result") in COMBINATOR_VARIANTS


# ----------------------------------------------------------------------------- part (a): dispatch
class Case:
    """bindings: list of (var, noulith source, model s-expression or None for an opaque data atom)"""

    def __init__(self, label, bindings, fkind, a_is_func, curried=None, arity=2):
        self.label, self.bindings, self.fkind, self.a_is_func, self.curried, self.arity = label, bindings, fkind, a_is_func, curried, arity


def forms_for(c):
    """name -> (prefix statements, expression, model line tail)"""
    if c.arity == 2:
        F = {
            "infix": ([], "a f b", "(eval (chain a f b))"),
            "call": ([], "f(a, b)", "(eval (call f a b))"),
            "bang": ([], "f! a, b", "(eval (call f a b))"),
            "backtick": ([], "a `f` b", "(eval (chain a f b))"),
            "sect_l": ([], "f(_, b)(a)", "(eval (call (call f _ b) a))"),
            "sect_r": ([], "f(a, _)(b)", "(eval (call (call f a _) b))"),
            "chain_sect_l": ([], "(_ f b)(a)", "(eval (call (chain _ f b) a))"),
            "chain_sect_r": ([], "(a f _)(b)", "(eval (call (chain a f _) b))"),
            "chain_sect_both": ([], "(_ f _)(a, b)", "(eval (call (chain _ f _) a b))"),
            "apply": ([], "[a, b] apply f", "(eval (chain (list a b) (K apply) f))"),
            "of": ([], "f of [a, b]", "(eval (chain f (K of) (list a b)))"),
            "sect_both": ([], "f(_, _)(a, b)", "(eval (call (call f _ _) a b))"),
            "splat_hole": ([], "f(..._)([a, b])", "(eval (call (call f (splat _)) (list a b)))"),
            "splat": ([], "f(...[a, b])", "(eval (call f (splat (list a b))))"),
            "part_splat": ([], "f(a, ...[b])", "(eval (call f a (splat (list b))))"),
            "opassign": (["x := a", "x f= b"], "x", "(let x a) (opassign x f b)"),
        }
        F["hole_callee"] = ([], "_(a, b)(f)", "(eval (call (callhole a b) f))")
        F["hole_callee_mask"] = ([], "_(_, b)(f, a)", "(eval (call (callhole _ b) f a))")
        if not c.a_is_func:
            F["juxt"] = ([], "(a f)(b)", "(eval (call (call a f) b))")
        if c.curried:
            F["curried"] = ([], "f(b)(a)", "(eval (call (call f b) a))")
        return F
    if c.arity == 1:
        return {
            "call": ([], "f(a)", "(eval (call f a))"),
            "bang": ([], "f! a", "(eval (call f a))"),
            "splat": ([], "f(...[a])", "(eval (call f (splat (list a))))"),
            "dot": ([], "a.f", "(eval (chain a (K then) f))"),
            "then": ([], "a then f", "(eval (chain a (K then) f))"),
            "dotgt": ([], "a .> f", "(eval (chain a (K then) f))"),
            "calll": ([], "f <. a", "(eval (chain f (K calll) a))"),
            "sect": ([], "f(_)(a)", "(eval (call (call f _) a))"),
            "splat_hole": ([], "f(..._)([a])", "(eval (call (call f (splat _)) (list a)))"),
            "apply": ([], "[a] apply f", "(eval (chain (list a) (K apply) f))"),
            "of": ([], "f of [a]", "(eval (chain f (K of) (list a)))"),
            "hole_callee": ([], "_(a)(f)", "(eval (call (callhole a) f))"),
        }
    F = {
        "call": ([], "f(a, b, c)", "(eval (call f a b c))"),
        "bang": ([], "f! a, b, c", "(eval (call f a b c))"),
        "splat": ([], "f(...[a, b, c])", "(eval (call f (splat (list a b c))))"),
        "part_splat": ([], "f(a, ...[b, c])", "(eval (call f a (splat (list b c))))"),
        "splat_hole": ([], "f(..._)([a, b, c])", "(eval (call (call f (splat _)) (list a b c)))"),
        "part_splat_hole": ([], "f(a, ..._)([b, c])", "(eval (call (call f a (splat _)) (list b c)))"),
        "apply": ([], "[a, b, c] apply f", "(eval (chain (list a b c) (K apply) f))"),
        "of": ([], "f of [a, b, c]", "(eval (chain f (K of) (list a b c)))"),
    }
    F["hole_callee"] = ([], "_(a, b, c)(f)", "(eval (call (callhole a b c) f))")
    F["hole_callee_mask"] = ([], "_(a, _, c)(f, b)", "(eval (call (callhole a _ c) f b))")
    for mask in range(1, 8):
        hs = [bool(mask & 4), bool(mask & 2), bool(mask & 1)]
        ins = ", ".join("_" if h else v for h, v in zip(hs, "abc"))
        outs = ", ".join(v for h, v in zip(hs, "abc") if h)
        mins = " ".join("_" if h else v for h, v in zip(hs, "abc"))
        mouts = " ".join(v for h, v in zip(hs, "abc") if h)
        F["mask%d" % mask] = ([], f"f({ins})({outs})", f"(eval (call (call f {mins}) {mouts}))")
    if c.curried:
        F["curried_last"] = ([], "f(c)(a, b)", "(eval (call (call f c) a b))")
    return F


def parse_sx(s):
    toks = re.findall(r"[()]|[^\s()]+", s)
    pos = [0]

    def one():
        t = toks[pos[0]]
        pos[0] += 1
        if t == "(":
            out = []
            while toks[pos[0]] != ")":
                out.append(one())
            pos[0] += 1
            return out
        return t
    return one()


KNOWN_NAMES = {"then": "then", "calll": "<.", "apply": "apply", "of": "of", "const": "const", "compr": ">>>", "compl": "<<<",
               "id": "id", "flip": "flip"}


class Unrenderable(Exception):
    pass


def render_fn(t, closures):
    """a callable Noulith expression for a model function term"""
    head = t[0]
    if head == "B":
        return t[1]
    if head == "K":
        return "(" + KNOWN_NAMES[t[1]] + ")" if not KNOWN_NAMES[t[1]].isalpha() else KNOWN_NAMES[t[1]]
    if head == "C":
        return closures[int(t[1])]
    if head == "P1":
        return "(\\q_ -> %s(%s, q_))" % (render_fn(t[1], closures), render_val(t[2], closures))
    if head == "P2":
        return "(\\q_ -> %s(q_, %s))" % (render_fn(t[1], closures), render_val(t[2], closures))
    if head == "PL":
        return "(\\...q_ -> %s(...q_, %s))" % (render_fn(t[1], closures), render_val(t[2], closures))
    if head == "comp":
        return "(\\...q_ -> %s(%s(...q_)))" % (render_fn(t[1], closures), render_fn(t[2], closures))
    raise Unrenderable(head)


def render_val(t, closures):
    if isinstance(t, str):
        return t
    head = t[0]
    if head == "B":
        return "%s(%s)" % (t[1], ", ".join(render_val(x, closures) for x in t[2:]))
    if head == "C":
        return "%s(%s)" % (closures[int(t[1])], ", ".join(render_val(x, closures) for x in t[2:]))
    if head == "list":
        return "[" + ", ".join(render_val(x, closures) for x in t[1:]) + "]"
    if head == "fn":
        return render_fn(t[1], closures)
    raise Unrenderable(head)


def gen_dispatch_cases(ctx, sweep, names, pool, big):
    """(f, a, b) triples. Builtins: pairs the sweep saw succeed (non-trivial) plus failing ones."""
    rng = ctx.rng
    cases = []
    per_ok = ctx.n(3, 10)
    per_fail = ctx.n(1, 3)
    N = len(pool)

    def data_bindings(idx):
        return [(v, pool[i], None) for v, i in zip("abc", idx)]

    def flags(name, idxs):
        """model flags of the opaque builtin bound to `name`: which of the case's argument atoms make a one-argument call a section"""
        ok = sweep.get(name, {}).get("one_kinds", {})
        p2 = [v for v, i in zip("abc", idxs) if ok.get(str(i)) == "P2"]
        pl = [v for v, i in zip("abc", idxs) if ok.get(str(i)) == "PL"]
        return p2, pl

    for n in names:
        m = sweep.get(n)
        if not m or n in ENV_DEPENDENT:
            continue
        oks2 = [t for t in m["oks"] if len(t) == 2]
        okset = {tuple(t) for t in oks2}
        unsafe = n in BIG_UNSAFE
        fails = []
        for _ in range(40):
            t = [rng.randrange(N), rng.randrange(N)]
            if tuple(t) not in okset and not (unsafe and (t[0] in big or t[1] in big)) and len(fails) < per_fail:
                fails.append(t)
        picks = rng.sample(oks2, min(per_ok, len(oks2))) + fails
        for t in picks:
            p2, pl = flags(n, t)
            kind = m["one_kinds"].get(str(t[1]))
            bnd = [("f", n, "(B f (%s) (%s))" % (" ".join(p2), " ".join(pl)))] + data_bindings(t)
            cases.append(Case("builtin:" + n, bnd, "builtin", t[0] in IS_FUNC, curried=kind in ("P2", "PL")))
        # three arguments (tuples the sweep saw succeed)
        oks3 = [t for t in m["oks"] if len(t) == 3]
        for t in rng.sample(oks3, min(ctx.n(1, 4), len(oks3))):
            p2, pl = flags(n, t)
            kind = m["one_kinds"].get(str(t[2]))
            bnd = [("f", n, "(B f (%s) (%s))" % (" ".join(p2), " ".join(pl)))] + data_bindings(t)
            cases.append(Case("builtin3:" + n, bnd, "builtin", t[0] in IS_FUNC, curried=(kind == "PL"), arity=3))
        # one argument
        oks1 = [t for t in m["oks"] if len(t) == 1]
        for t in rng.sample(oks1, min(ctx.n(1, 3), len(oks1))):
            p2, pl = flags(n, t)
            bnd = [("f", n, "(B f (%s) (%s))" % (" ".join(p2), " ".join(pl)))] + data_bindings(t)
            cases.append(Case("builtin1:" + n, bnd, "builtin", t[0] in IS_FUNC, arity=1))

    data_idx = [i for i in range(len(POOL)) if i not in BIG]
    closures = [("\\x, y -> [x, y]", 2), ("\\x, y -> x", 2), ("\\x, y -> y", 2), ("(\\k -> \\x, y -> [k, x, y])(7)", 2),
                ("\\...xs -> xs", None), ("\\x -> [x]", 1), ("\\x, y, z -> [z, y, x]", 3), ("\\x, y: int -> [y, x]", 2),
                ("\\x, ...ys -> [x, ys]", None), ("\\-> 5", 0)]
    reps = ctx.n(10, 40)
    for src, ar in closures:
        for _ in range(reps):
            t = [rng.choice(data_idx) for _ in range(3)]
            for arity in (1, 2, 3):
                if arity != 2 and rng.random() < 0.6:
                    continue
                bnd = [("f", src, "(C 0)")] + data_bindings(t[:arity])
                c = Case("closure:" + src, bnd, "closure", t[0] in IS_FUNC, arity=arity)
                c.closures = ["f"]
                cases.append(c)

    # wrappers: flip, composition, partial applications, the transcribed builtins as function values
    two = ["-", "++", "zip", "<", "append", "til", "const", "max", "=="]
    one = ["str", "len", "id", "repr"]
    for _ in range(ctx.n(250, 1500)):
        g = rng.choice(two)
        t = [rng.choice(data_idx) for _ in range(3)]
        which = rng.choice(["flip", "flipc", "compr", "compl", "pl", "p2", "p1", "known_then", "known_apply", "known_of", "known_const",
                            "flip_known", "flip1", "id1", "comp1", "fanout", "parallel", "on", "lift"])
        gm = sweep.get(g, {}).get("one_kinds", {})

        def gb(args):
            p2 = [v for v, i in args if gm.get(str(i)) == "P2"]
            pl = [v for v, i in args if gm.get(str(i)) == "PL"]
            return ("g", g, "(B g (%s) (%s))" % (" ".join(p2), " ".join(pl)))
        ab = list(zip("ab", t[:2]))
        c = None
        if which == "flip":
            c = Case("flip(%s)" % g, [gb(ab), ("f", "flip(g)", "(call (K flip) g)")] + data_bindings(t[:2]), "flip", t[0] in IS_FUNC,
                     curried=True)   # flip(g)(b) is PartialApp1(g, b): flip(g)(b)(a) = g(b, a) = flip(g)(a, b)
        elif which == "flipc":
            c = Case("flip(closure)", [("g", "\\x, y -> [x, y]", "(C 0)"), ("f", "flip(g)", "(call (K flip) g)")] + data_bindings(t[:2]),
                     "flip", t[0] in IS_FUNC, curried=True)
            c.closures = ["g"]
        elif which == "compr":
            h = rng.choice(one)
            c = Case("%s >>> %s" % (g, h), [gb(ab), ("h", h, "(B h () ())"), ("f", "g >>> h", "(chain g (K compr) h)")] + data_bindings(t[:2]),
                     "composition", t[0] in IS_FUNC)
        elif which == "compl":
            h = rng.choice(one)
            c = Case("%s <<< %s" % (h, g), [gb(ab), ("h", h, "(B h () ())"), ("f", "h <<< g", "(chain h (K compl) g)")] + data_bindings(t[:2]),
                     "composition", t[0] in IS_FUNC)
        elif which in ("pl", "p2"):
            # f := g(k) with k := 1 : a section (PartialApp2 / PartialAppLast) when the one-argument call of g on 1 says so
            if gm.get("2") not in ("P2", "PL"):
                continue
            arity = 1 if gm.get("2") == "P2" else rng.choice([1, 2])
            p2 = "k" if gm.get("2") == "P2" else ""
            pl = "k" if gm.get("2") == "PL" else ""
            c = Case("%s(k)" % g, [("g", g, "(B g (%s) (%s))" % (p2, pl)), ("k", "1", None), ("f", "g(k)", "(call g k)")]
                     + data_bindings(t[:arity]), "partial", t[0] in IS_FUNC, arity=arity)
        elif which == "p1":
            c = Case("(k %s)" % g, [gb(ab), ("k", POOL[t[2]], None), ("f", "(k g)", "(call k g)")] + data_bindings(t[:1]),
                     "partial", t[0] in IS_FUNC, arity=1) if t[2] not in IS_FUNC else None
        elif which == "known_then":
            nm = rng.choice(["then", ".", ".>"])
            c = Case("f=" + nm, [gb([("a", t[0])]), ("f", nm, "(K then)"), ("a", POOL[t[0]], None), ("b", "g", "g")], "known",
                     t[0] in IS_FUNC, curried=True)
        elif which == "known_apply":
            c = Case("f=apply", [gb([("p", t[0]), ("q", t[1])]), ("p", POOL[t[0]], None), ("q", POOL[t[1]], None), ("f", "apply", "(K apply)"),
                                 ("a", "[p, q]", "(list p q)"), ("b", "g", "g")], "known", False, curried=True)
        elif which == "known_of":
            c = Case("f=of", [gb([("p", t[0]), ("q", t[1])]), ("p", POOL[t[0]], None), ("q", POOL[t[1]], None), ("f", "of", "(K of)"),
                              ("a", "g", "g"), ("b", "[p, q]", "(list p q)")], "known", True, curried=True)
        elif which == "known_const":
            c = Case("f=const", [("f", "const", "(K const)")] + data_bindings(t[:2]), "known", t[0] in IS_FUNC, curried=True)
        elif which == "flip_known":
            c = Case("flip(const)", [("f", "flip(const)", "(call (K flip) (K const))")] + data_bindings(t[:2]), "flip", t[0] in IS_FUNC,
                     curried=True)
        elif which == "flip1":
            c = Case("f=flip", [gb([]), ("f", "flip", "(K flip)"), ("a", "g", "g")], "known", True, arity=1)
        elif which == "id1":
            c = Case("f=id", [("f", "id", "(K id)")] + data_bindings(t[:1]), "known", t[0] in IS_FUNC, arity=1)
        elif which == "fanout":      # g &&& h : \\...args -> [g(...args), h(...args)]
            h = rng.choice(two)
            c = Case("%s &&& %s" % (g, h), [gb(ab), ("h", h, "(B h () ())"), ("f", "g &&& h", "(chain g (Q fanout) h)")] + data_bindings(t[:2]),
                     "combinator", t[0] in IS_FUNC)
        elif which == "parallel":    # g *** h : \\a, b -> [g(a), h(b)]
            g1, h = rng.choice(one), rng.choice(one)
            c = Case("%s *** %s" % (g1, h), [("g", g1, "(B g () ())"), ("h", h, "(B h () ())"), ("f", "g *** h", "(chain g (Q parallel) h)")]
                     + data_bindings(t[:2]), "combinator", t[0] in IS_FUNC)
        elif which == "on":          # g on h : \\a, b -> g(h(a), h(b))
            h = rng.choice(one)
            c = Case("%s on %s" % (g, h), [gb([]), ("h", h, "(B h () ())"), ("f", "g on h", "(chain g (K on) h)")] + data_bindings(t[:2]),
                     "combinator", t[0] in IS_FUNC)
        elif which == "lift":        # lift(h, k, g) : \\...args -> g(h(...args), k)
            h = rng.choice(two)
            if t[2] in IS_FUNC:
                continue
            c = Case("lift(%s, k, %s)" % (h, g), [gb([]), ("h", h, "(B h () ())"), ("k", POOL[t[2]], None), ("f", "lift(h, k, g)", "(call (Q lift) h k g)")]
                     + data_bindings(t[:2]), "combinator", t[0] in IS_FUNC)
        elif which == "comp1":
            h = rng.choice(one)
            h2 = rng.choice(one)
            c = Case("%s >>> %s" % (h, h2), [("g", h, "(B g () ())"), ("h", h2, "(B h () ())"), ("f", "g >>> h", "(chain g (K compr) h)")]
                     + data_bindings(t[:1]), "composition", t[0] in IS_FUNC, arity=1)
        if c is not None:
            cases.append(c)
    # three arguments with builtins that take them; PartialAppLast builtins curried on the last argument
    three = [("zip", [17, 14, 19]), ("til", [1, 5, 3]), ("to", [1, 5, 3]), ("fold", None), ("replace", None), ("zip", [17, 17, 17]),
             ("max", [1, 3, 2]), ("ziplongest", [17, 16, 15])]
    for g, t in three:
        if t is None:
            continue
        kind = sweep.get(g, {}).get("one_kinds", {}).get(str(t[2]))
        p2 = "c" if kind == "P2" else ""
        pl = "c" if kind == "PL" else ""
        cases.append(Case("builtin3:" + g, [("f", g, "(B f (%s) (%s))" % (p2, pl))] + data_bindings(t), "builtin", t[0] in IS_FUNC,
                          curried=(kind == "PL"), arity=3))
    return cases


def gen_arith_cases(ctx, sweep_ar, arith):
    """arithmetic/comparison/bitwise builtins x pairs from the i64-boundary pool, all surface forms"""
    rng = ctx.rng
    cases = []
    N = len(ARITH_POOL)
    per = ctx.n(16, 80)
    for n in arith:
        m = sweep_ar.get(n, {})
        ok = m.get("one_kinds", {})
        pairs = [(i, j) for i in range(N) for j in range(N) if i in ARITH_BOUNDARY or j in ARITH_BOUNDARY]
        for i, j in rng.sample(pairs, min(per, len(pairs))):
            p2 = [v for v, k in (("a", i), ("b", j)) if ok.get(str(k)) == "P2"]
            pl = [v for v, k in (("a", i), ("b", j)) if ok.get(str(k)) == "PL"]
            bnd = [("f", n, "(B f (%s) (%s))" % (" ".join(p2), " ".join(pl))), ("a", ARITH_POOL[i], None), ("b", ARITH_POOL[j], None)]
            cases.append(Case("arith:" + n, bnd, "arith", False, curried=ok.get(str(j)) in ("P2", "PL")))
        for i in rng.sample(ARITH_BOUNDARY, ctx.n(3, 10)):
            p2 = ["a"] if ok.get(str(i)) == "P2" else []
            bnd = [("f", n, "(B f (%s) ())" % " ".join(p2)), ("a", ARITH_POOL[i], None)]
            cases.append(Case("arith1:" + n, bnd, "arith", False, arity=1))
    return cases


def gen_opassign_by_name(ctx, sweep, names, pool, allnames):
    """`x NAME= b` and `x NAME = b` written with the operator's OWN name (not through a variable), for every global function the
    sweep saw succeed on some pair, compared with the plain call. The unspaced spelling is skipped only where NAME= is itself the
    name of a global (`<` `>`: `x <= b` is a comparison)."""
    rng = ctx.rng
    cases = []
    per = ctx.n(2, 6)
    for n in names:
        m = sweep.get(n)
        if not m or n in ENV_DEPENDENT:
            continue
        oks2 = [t for t in m["oks"] if len(t) == 2]
        picks = rng.sample(oks2, min(per, len(oks2))) or [[rng.randrange(len(POOL)), rng.randrange(len(POOL))]]
        for t in picks:
            if n in BIG_UNSAFE and (t[0] in BIG or t[1] in BIG):
                continue
            setup = [f"a := {pool[t[0]]}", f"b := {pool[t[1]]}", "x := a"]
            spellings = [f"x {n} = b"] + ([f"x {n}= b"] if (n + "=") not in allnames else [])
            for stmt in spellings:
                cases.append(dict(label="oa-name:" + n, setup=setup, stmt=stmt, target="x",
                                  oracle_setup=setup + [f"f_ := {n}"], oracle="f_(a, b)", model=None, closures=[], rhs="b"))
    return cases


def gen_opassign_arith(ctx, arith):
    """x f= (expression reading x) with x at the edge of i64"""
    rng = ctx.rng
    cases = []
    G = "\\t -> [t]"
    for n in arith:
        for i in rng.sample(ARITH_BOUNDARY, ctx.n(4, 12)):
            rs, rx = rng.choice([OA_RHS[0], OA_RHS[2], ("x - 1", None), ("0 - x", None), ("x + 1", None)])
            setup = [f"f := {n}", f"g := {G}", "one := 1", f"a := {ARITH_POOL[i]}", "x := a"]
            model = f"(let f (B f () ())) (let g (C 1)) (let x a) (opassign x f {rx})" if rx else None
            cases.append(dict(label="oa-arith:" + n, setup=setup, stmt=f"x f= {rs}", target="x", oracle_setup=setup,
                              oracle=f"f(x, {rs})", model=model, closures=["", "g"], rhs=rs))
    return cases


def observable(r):
    st = r.get("status")
    if st == "ok":
        return "ok " + r["val"] + ((" printed " + json.dumps(r["out"])) if r.get("out") else "")
    return "fail"       # err / panic / fuel / control-flow signal: "the form failed"


def run_dispatch(ctx, cases, runner, fresh=False):
    """runs every form of every case; fills c.impl {form: observable}, c.model {form: text}, c.ref"""
    progs = []
    for c in cases:
        c.forms = forms_for(c)
        stmts = [f"{v} := {src}" for v, src, _ in c.bindings]
        c.slots = {}
        c.pre = {}
        for name, (pre, ex, _) in c.forms.items():
            c.pre[name] = list(range(len(stmts), len(stmts) + len(pre)))
            stmts += pre
            c.slots[name] = len(stmts)
            stmts.append(ex)
        progs.append(stmts)
    res = common.run_prog(progs, timeout=20.0, fuel=200_000, fresh=fresh)
    mlines = []
    for c in cases:
        head = " ".join(f"(let {v} {m})" for v, _, m in c.bindings if m is not None)
        for name, (_, _, tail) in c.forms.items():
            mlines.append(head + " " + tail)
    mres = iter(common.run_model(runner, mlines)) if runner else None
    refs = []
    for c, r in zip(cases, res):
        rs = r.get("results")
        c.raw = r
        c.impl, c.isfn, c.crashed = {}, {}, []
        for name, k in c.slots.items():
            if rs is None or k >= len(rs):
                c.impl[name] = "fail"
                if rs is None:
                    c.crashed.append((name, r.get("status")))
                continue
            if c.pre[name]:
                merged = dict(rs[k])
                merged["out"] = "".join(rs[j].get("out") or "" for j in c.pre[name]) + (rs[k].get("out") or "")
                c.impl[name] = observable(merged)
            else:
                c.impl[name] = observable(rs[k])
            if any(rs[j].get("status") != "ok" for j in c.pre[name]):
                c.impl[name] = "fail"      # x f= b itself raised (x is then left null by the interpreter: not this property's business)
            if c.label.split(":", 1)[-1] in UNORDERED:
                c.impl[name] = unorder(c.impl[name])
            c.isfn[name] = rs[k].get("val") == "Fn"
            if rs[k].get("status") in ("panic", "hang", "abort"):
                c.crashed.append((name, rs[k].get("status")))
        c.hung = rs is None and r.get("status") in ("hang", "abort", "badjson")   # too slow as a whole program: skipped, counted
        c.setup_ok = c.hung or rs is not None and all(x.get("status") == "ok" for x in rs[:len(c.bindings)])
        c.model = {name: (next(mres) if mres else None) for name in c.forms}
        # reference program from the model's normal form of the plain call form
        c.ref_src, c.ref = None, None
        nf = c.model.get("call")
        if nf and nf.startswith("ok "):
            try:
                c.ref_src = render_val(parse_sx(nf[3:]), getattr(c, "closures", []))
            except Unrenderable:
                c.ref_src = None
        elif nf == "err":
            c.ref = "fail"
        if c.ref_src is not None:
            refs.append(c)
    rres = common.run_prog([[f"{v} := {src}" for v, src, _ in c.bindings] + [c.ref_src] for c in refs], timeout=20.0, fuel=200_000, fresh=fresh)
    for c, r in zip(refs, rres):
        rs = r.get("results")
        c.ref = observable(rs[-1]) if rs and len(rs) == len(c.bindings) + 1 else "fail"
        if c.label.split(":", 1)[-1] in UNORDERED:
            c.ref = unorder(c.ref)
        c.ref_isfn = bool(rs) and rs[-1].get("val") == "Fn"
    # function-valued results: compare by application to probe arguments
    fcases = [c for c in cases if any(c.isfn.values())]
    probes = ["(2)", "([1, 2, 3])", '("a")', "(2, [1, 2, 3])", "([1, 2, 3], 2)", "(1, 2)"]
    progs = []
    for c in fcases:
        stmts = [f"{v} := {src}" for v, src, _ in c.bindings]
        c.pslots = {}
        items = list(c.forms.items()) + ([("__ref", ([], c.ref_src, None))] if c.ref_src is not None else [])
        for name, (pre, ex, _) in items:
            stmts += pre
            c.pslots[name] = len(stmts)
            stmts += [f"({ex}){p}" for p in probes]
        progs.append(stmts)
    pres = common.run_prog(progs, timeout=20.0, fuel=200_000, fresh=fresh)
    for c, r in zip(fcases, pres):
        rs = r.get("results") or []
        for name, k in c.pslots.items():
            obs = " | ".join(observable(x) for x in rs[k:k + len(probes)]) if len(rs) >= k + len(probes) else "?"
            if name == "__ref":
                if c.ref is not None and c.ref.startswith("ok Fn"):
                    c.ref += " probes: " + obs
            elif c.impl[name].startswith("ok Fn"):
                c.impl[name] += " probes: " + obs
    return cases


def judge(c):
    """-> list of (kind, detail). kind: 'property' (forms disagree), 'correspondence' (forms agree, model's reference differs), 'model'"""
    out = []
    if c.hung:
        return []
    if not c.setup_ok:
        return [("setup", "a binding failed to evaluate: %r" % (c.raw,))]
    base = c.impl["call"]
    dis = {n: o for n, o in c.impl.items() if o != base}
    if dis:
        out.append(("property", {"reference_form": "call", "call": base, "disagreeing": dis}))
    elif c.ref is not None and c.ref != base:
        out.append(("correspondence", {"all_forms": base, "model_normal_form": c.model.get("call"), "reference_program": c.ref_src,
                                       "reference_value": c.ref}))
    ms = {n: m for n, m in c.model.items() if m is not None}
    if ms and len(set(ms.values())) != 1:
        out.append(("model", {"model_forms": ms}))
    return out


def replay_of(c, kind, detail):
    return {"case": {"label": c.label, "bindings": c.bindings, "fkind": c.fkind, "a_is_func": c.a_is_func, "curried": c.curried,
                     "arity": c.arity, "closures": getattr(c, "closures", [])},
            "program": [f"{v} := {src}" for v, src, _ in c.bindings] + [ex for (_, ex, _) in c.forms.values()],
            "implementation": c.impl, "coq_model": c.model, "detail": detail, "part": "dispatch"}


def case_from_replay(d):
    c = Case(d["label"], [tuple(b) for b in d["bindings"]], d["fkind"], d["a_is_func"], d["curried"], d["arity"])
    if d.get("closures"):
        c.closures = d["closures"]
    return c


def report_dispatch(ctx, cases, runner):
    bad = [(c, j) for c in cases for j in judge(c)]
    if not bad:
        return 0
    # re-run the suspicious cases alone in fresh environments before believing them
    again = []
    for c, _ in bad:
        if c not in again:
            again.append(c)
    run_dispatch(ctx, again, runner, fresh=True)
    seen = set()
    n = 0
    for c in again:
        for kind, detail in judge(c):
            key = (kind, c.label)
            if key in seen:
                continue
            seen.add(key)
            n += 1
            rep = replay_of(c, kind, detail)
            if kind == "property":
                rep["what"] = "application forms of the same function on the same arguments give different results (re-run in a fresh environment)"
                ctx.violation("property", rep, found=True)
            elif kind == "setup":
                rep["what"] = "generator problem: a binding of the case does not evaluate"
                ctx.violation("correspondence", rep, found=False)
            else:
                rep["what"] = ("all implementation forms agree with each other but not with the vector call the Coq model reduces them to "
                               "(or the model's forms disagree among themselves): Dispatch/Apply.v no longer describes the code on this input")
                ctx.violation("correspondence", rep, found=False)
    return n


# ----------------------------------------------------------------------------- op-assign whose right-hand side reads the target
OA_RHS = [("x", "x"), ("[x, x]", "(list x x)"), ("id(x)", "(call (K id) x)"), ("g(x)", "(call g x)"), ("[x]", "(list x)"),
          ("x then g", "(chain x (K then) g)"), ("[x, 1, x]", "(list x one x)")]
OA_CLOSURES = ["\\p, q -> [p, q]", "\\p, q -> q", "\\p, q -> p", "\\...ps -> ps"]
OA_BUILTINS = ["++", "append", "prepend", "const", "==", "max", "min", "in", "zip", "+", "*", "-", "<", "!!", "then", "apply", "join", "$"]
OA_INDEXED = [("[1, 2, 3]", ["0", "1", "2", "0-1"]), ("[[1], [2, 3], []]", ["0", "1", "2"]), ('["a", "bc"]', ["0", "1"]),
              ('{"k": 5, "j": 7}', ['"k"', '"j"']), ("V(1, 2, 3)", ["0", "2"]), ("[[1, 2], [3, 4]]", ["0", "1"])]
OA_INDEXED_F = ["+", "*", "-", "++", "max", "const", "append", "\\p, q -> [p, q]", "\\p, q -> q"]


def gen_opassign_cases(ctx, sweep, names, pool):
    """each case: dict(label, setup stmts, stmt (the op-assign), target (expression read afterwards), oracle stmts + expr, model line or None)"""
    rng = ctx.rng
    cases = []
    G = "\\t -> [t]"

    def var_case(label, fsrc, fmodel, closures, xsrc, rhs_src, rhs_sx):
        setup = [f"f := {fsrc}", f"g := {G}", "one := 1", f"a := {xsrc}", "x := a"]
        model = f"(let f {fmodel}) (let g (C 1)) (let x a) (opassign x f {rhs_sx})"
        return dict(label=label, setup=setup, stmt=f"x f= {rhs_src}", target="x",
                    oracle_setup=setup, oracle=f"f(x, {rhs_src})",      # plain call: x keeps its old value
                    model=model, closures=closures, rhs=rhs_src)
    diag = ctx.n(2, 6)
    for n in names:
        m = sweep.get(n)
        if not m or n in ENV_DEPENDENT:
            continue
        d = [t for t in m["oks"] if len(t) == 2 and t[0] == t[1]]
        for t in rng.sample(d, min(diag, len(d))):
            for rs, rx in (OA_RHS[0], OA_RHS[2]):
                cases.append(var_case("oa:" + n, n, "(B f () ())", ["", "g"], pool[t[0]], rs, rx))
    data_idx = [i for i in range(len(POOL)) if i not in BIG]
    for fsrc in OA_CLOSURES:
        for _ in range(ctx.n(8, 40)):
            i = rng.choice(data_idx)
            rs, rx = rng.choice(OA_RHS)
            cases.append(var_case("oa:closure", fsrc, "(C 0)", ["f", "g"], POOL[i], rs, rx))
    for n in OA_BUILTINS:
        for _ in range(ctx.n(10, 50)):
            i = rng.choice(data_idx)
            rs, rx = rng.choice(OA_RHS)
            cases.append(var_case("oa:" + n, n, "(B f () ())", ["", "g"], POOL[i], rs, rx))
    # index targets: a[i] f= (expression reading a[i], a[j], a): no model, the oracle is the plain-call program
    for asrc, idxs in OA_INDEXED:
        for fsrc in OA_INDEXED_F:
            for _ in range(ctx.n(2, 8)):
                i, j = rng.choice(idxs), rng.choice(idxs)
                rhs = rng.choice([f"a[{i}]", f"a[{j}]", f"[a[{i}], a[{j}]]", "len(a)", f"id(a[{i}])", "a"])
                setup = [f"f := {fsrc}", f"a := {asrc}"]
                cases.append(dict(label="oa-index:" + fsrc, setup=setup, stmt=f"a[{i}] f= {rhs}", target="a",
                                  oracle_setup=setup + [f"t_ := f(a[{i}], {rhs})", f"a[{i}] = t_"], oracle="a",
                                  model=None, closures=[], rhs=rhs))
    return cases


def run_opassign(ctx, cases, runner, fresh=False):
    progs = [c["setup"] + [c["stmt"], c["target"]] for c in cases]
    oprogs = [c["oracle_setup"] + [c["oracle"]] for c in cases]
    res = common.run_prog(progs, timeout=20.0, fuel=200_000, fresh=fresh)
    ores = common.run_prog(oprogs, timeout=20.0, fuel=200_000, fresh=fresh)
    mlines = [c["model"] for c in cases if c["model"]]
    mres = iter(common.run_model(runner, mlines)) if runner and mlines else iter([])

    def obs(r, nsetup, k_stmts):
        rs = r.get("results")
        if rs is None:
            return None                                   # whole program too slow / died: skipped
        if len(rs) < nsetup + k_stmts or any(x.get("status") != "ok" for x in rs[:nsetup]):
            return "setup-fail" if any(x.get("status") != "ok" for x in rs[:nsetup]) else "fail"
        tail = rs[nsetup:nsetup + k_stmts]
        if any(x.get("status") != "ok" for x in tail[:-1]):
            return "fail"
        merged = dict(tail[-1])
        merged["out"] = "".join(x.get("out") or "" for x in tail)
        return observable(merged)
    for c, r, o in zip(cases, res, ores):
        c["impl"] = obs(r, len(c["setup"]), 2)
        ns = len(c["setup"])
        # oracle: setup statements must succeed; the extra oracle statements (t_ := f(..); a[i] = t_) may fail = "fail"
        c["oracle_val"] = obs(o, ns, len(c["oracle_setup"]) - ns + 1)
        if c["label"].split(":", 1)[-1] in UNORDERED:      # result in HashMap iteration order: compare as a multiset
            c["impl"] = unorder(c["impl"]) if c["impl"] else c["impl"]
            c["oracle_val"] = unorder(c["oracle_val"]) if c["oracle_val"] else c["oracle_val"]
        c["model_nf"] = next(mres) if (c["model"] and runner) else None
        c["ref_src"] = None
        if c["model_nf"] and c["model_nf"].startswith("ok "):
            try:
                cl = {k: v for k, v in enumerate(c["closures"])}
                c["ref_src"] = render_val(parse_sx(c["model_nf"][3:]), cl)
            except Unrenderable:
                pass
    refs = [c for c in cases if c["ref_src"]]
    rres = common.run_prog([c["setup"] + [c["ref_src"]] for c in refs], timeout=20.0, fuel=200_000, fresh=fresh)
    for c in cases:
        c["ref_val"] = None
    for c, r in zip(refs, rres):
        c["ref_val"] = obs(r, len(c["setup"]), 1)
        if c["label"].split(":", 1)[-1] in UNORDERED and c["ref_val"]:
            c["ref_val"] = unorder(c["ref_val"])
    return cases


def judge_opassign(c):
    if c["impl"] is None or c["oracle_val"] is None or "setup-fail" in (c["impl"], c["oracle_val"]):
        return None
    strip = lambda o: o                      # values and printed output are both named by the property
    if c["impl"] != c["oracle_val"]:
        return "property"
    if c["model"] and c.get("ref_val") not in (None, "setup-fail") and c["ref_val"] != c["impl"]:
        return "correspondence"
    return None


def report_opassign(ctx, cases, runner):
    bad = [c for c in cases if judge_opassign(c)]
    if not bad:
        return 0
    run_opassign(ctx, bad, runner, fresh=True)
    n, seen = 0, set()
    for c in bad:
        k = judge_opassign(c)
        if not k or (k, c["label"]) in seen:
            continue
        seen.add((k, c["label"]))
        n += 1
        rep = {"part": "opassign", "case": {k2: c[k2] for k2 in ("label", "setup", "stmt", "target", "oracle_setup", "oracle", "model", "closures", "rhs")},
               "program": c["setup"] + [c["stmt"], c["target"]], "implementation": c["impl"],
               "plain_call_program": c["oracle_setup"] + [c["oracle"]], "plain_call_value": c["oracle_val"],
               "coq_model": c["model_nf"], "model_reference_program": c["ref_src"], "model_reference_value": c["ref_val"]}
        if k == "property":
            rep["what"] = ("after `target f= rhs` (rhs reads the target) the target does not hold f(old value, value of rhs before the statement) "
                           "as computed by plain calls (re-run in a fresh environment)")
            ctx.violation("property", rep, found=True)
        else:
            rep["what"] = "op-assign agrees with the plain-call program but not with the normal form Dispatch/Apply.v (op_assign_store) gives"
            ctx.violation("correspondence", rep, found=False)
    return n


# ----------------------------------------------------------------------------- run
def run(ctx):
    runner = common.standard_prelude(ctx)
    if any(k == "harness-build-failed" for k, _, _ in ctx.violations):
        return common.conclude(ctx)
    t0 = time.time()
    globs = list_globals()
    names = [x["name"] for x in globs if x["kind"] in ("builtin", "type", "func") and x["name"] not in EXCLUDE]
    excluded = [x["name"] for x in globs if x["kind"] in ("builtin", "type", "func") and x["name"] in EXCLUDE]
    pool = POOL + (POOL_EXTRA if not ctx.quick() else [])
    big = set(BIG) | ({pool.index(x) for x in ("2^64", "10^30", "1e300")} if not ctx.quick() else set())
    tri = [POOL.index(x) for x in TRI_POOL] + ([POOL.index(x) for x in TRI_POOL_EXTRA] if not ctx.quick() else [])
    sweep = run_sweep(ctx, names, pool, big, tri)
    t_sweep = time.time() - t0
    # the same for the arithmetic builtins over the i64-boundary pool (exhaustive 1- and 2-tuples)
    arith = [n for n in ARITH if n in names]
    sweep_ar = run_sweep(ctx, arith, ARITH_POOL, set(), [])
    t_sweep = time.time() - t0
    # ---- (b) verdicts
    diffs, known = [], []
    for sw, nms, pl in ((sweep, names, pool), (sweep_ar, arith, ARITH_POOL)):
        real = []
        seen = set()
        these = [d for n in nms for d in sw[n]["diffs"]]
        diffs += these
        for d in these:
            key = (d["fn"], d["kind"], d["what"].split(" vs ")[-1][:12])
            if is_known_combinator(d):
                known.append(d)
                continue
            if key in seen or len(real) >= 12:
                continue
            seen.add(key)
            conf = confirm_diff(d, pl)
            if conf:
                real.append(conf[0])
        if pl is pool and known and KNOWN_KEY not in ctx.known:
            real += known[:3]
        for d in real[:20]:
            args = [pl[i] for i in d["t"]]
            ctx.violation("property", {
                "part": "entry-points", "fn": d["fn"], "args": args, "tuple": d["t"], "pool": "arith" if pl is ARITH_POOL else "main",
                "compared": d["what"], "left": d["left"], "right": d["right"],
                "why": d["why"], "one_arg_result": d.get("one_arg_result"),
                "program": ("f := %s; f(%s)   # Func::run(vec) vs the fused entry point reached by `a f b` / `a.f`" % (d["fn"], ", ".join(args)))
                           if d["kind"] == "entry" else
                           ("f := %s; [f(%s), f(%s)(%s)]" % (d["fn"], ", ".join(args), args[-1], ", ".join(args[:-1]))),
                "what": ("Builtin::run(vec) and the specialised entry point (run1/run2) of the same builtin disagree on these arguments"
                         if d["kind"] == "entry" else
                         "f(x.., y) succeeds and f(y) is a function, but f(y)(x..) differs from f(x.., y) (one-argument call is not a right section)")},
                found=True)
    if known and KNOWN_KEY in ctx.known:
        for d in known:
            ctx.known_hit(KNOWN_KEY, d)
    # ---- (a) dispatch
    t1 = time.time()
    cases = gen_dispatch_cases(ctx, sweep, names, pool, big) + gen_arith_cases(ctx, sweep_ar, arith)
    if runner is not None:
        run_dispatch(ctx, cases, runner)
        nbad = report_dispatch(ctx, cases, runner)
    else:
        nbad = 0
    oa_cases = (gen_opassign_cases(ctx, sweep, names, pool) + gen_opassign_arith(ctx, arith)
                + gen_opassign_by_name(ctx, sweep, names, pool, {x["name"] for x in globs}))
    run_opassign(ctx, oa_cases, runner)
    oa_bad = report_opassign(ctx, oa_cases, runner)
    t_disp = time.time() - t1
    # ---- coverage
    tot = lambda k: sum(sweep[n][k] for n in names)
    n_tuples = tot("tuples")
    ok_tuples = sum(len(sweep[n]["oks"]) for n in names)
    forms_run = sum(len(c.forms) for c in cases) if runner is not None else 0
    nontrivial = {(c.label, tuple(src for _, src, _ in c.bindings)) for c in cases if runner is not None and c.impl.get("call", "fail") != "fail"}
    by_kind = {}
    for c in cases:
        by_kind[c.fkind + str(c.arity)] = by_kind.get(c.fkind + str(c.arity), 0) + 1
    samples = []
    for c in cases[::max(1, len(cases) // 10)][:10]:
        if runner is not None:
            samples.append({"label": c.label, "program": "; ".join(f"{v} := {s}" for v, s, _ in c.bindings) + "; " + c.forms["call"][1],
                            "forms": len(c.forms), "implementation_all_forms": c.impl.get("call"), "coq_model_normal_form": c.model.get("call"),
                            "reference_program": c.ref_src})
    ctx.coverage.update({
        "evaluations": tot("calls") + sum(sweep_ar[n]["calls"] for n in arith) + forms_run + len(oa_cases),
        "distinct_nontrivial": ok_tuples + len(nontrivial) + len({(c["label"], tuple(c["setup"]), c["stmt"]) for c in oa_cases
                                                                      if (c["impl"] or "fail") != "fail" and c["impl"] != "setup-fail"}),
        "exhaustive": True,
        "rule": "(b) exhaustive: every global function of the live env that is not excluded by name x every 1- and 2-tuple of the value pool "
                "(the big integers are withheld from count/exponent builtins); evaluations counts direct entry-point calls (run, run1/run2, section "
                "applications, probe applications). non-trivial (b) = tuples on which the vector call returns a value (not a raised error), distinct by "
                "(function, tuple). (a) (f, a, b) cases x every surface form; non-trivial (a) = cases whose plain call returns a value, distinct by "
                "(function expression, argument sources).",
        "samples": samples,
        "sweep": {"functions": len(names), "excluded_by_name": excluded, "pool": pool, "pool_size": len(pool), "tuples": n_tuples,
                  "direct_calls": tot("calls"), "outcome_comparisons": tot("compared"), "one_arg_results_that_are_functions_checked": tot("sections"),
                  "tuples_returning_a_value": ok_tuples,
                  "panics_recorded_not_judged": sum(len(sweep[n]["panics"]) for n in names),
                  "hangs_recorded_not_judged": [(n, t) for n in names for t in sweep[n]["hangs"]][:20],
                  "aborts_recorded_not_judged": [(n, t) for n in names for t in sweep[n]["aborts"]][:20],
                  "differences": len(diffs), "known_finding_differences": len(known), "wall_s": round(t_sweep, 1),
                  "i64_boundary_sweep": {"functions": arith, "pool": ARITH_POOL, "tuples": sum(sweep_ar[n]["tuples"] for n in arith),
                                         "direct_calls": sum(sweep_ar[n]["calls"] for n in arith),
                                         "outcome_comparisons": sum(sweep_ar[n]["compared"] for n in arith),
                                         "tuples_returning_a_value": sum(len(sweep_ar[n]["oks"]) for n in arith),
                                         "panics_recorded": [(p["fn"], [ARITH_POOL[i] for i in p["t"]], p["entry"]) for n in arith for p in sweep_ar[n]["panics"]][:40]}},
        "dispatch": {"cases": len(cases), "form_evaluations": forms_run, "by_function_kind_and_arity": by_kind,
                     "cases_with_value": len(nontrivial), "cases_all_fail": sum(1 for c in cases if runner is not None and c.impl.get("call") == "fail"),
                     "cases_with_model_reference": sum(1 for c in cases if getattr(c, "ref", None) is not None),
                     "function_valued_results_probed": sum(1 for c in cases if runner is not None and any(c.isfn.values())),
                     "cases_skipped_too_slow": sum(1 for c in cases if getattr(c, "hung", False)),
                     "suspicious": nbad, "wall_s": round(t_disp, 1)},
        "opassign_reading_target": {
            "cases": len(oa_cases), "index_target_cases": sum(1 for c in oa_cases if c["label"].startswith("oa-index")),
            "with_value": sum(1 for c in oa_cases if (c["impl"] or "fail") not in ("fail", "setup-fail")),
            "all_fail": sum(1 for c in oa_cases if c["impl"] == "fail"),
            "compared_with_model_normal_form": sum(1 for c in oa_cases if c.get("ref_val") not in (None, "setup-fail")),
            "skipped": sum(1 for c in oa_cases if c["impl"] is None or c["impl"] == "setup-fail"),
            "written_with_the_operator_name": {"cases": sum(1 for c in oa_cases if c["label"].startswith("oa-name:")),
                                               "names": len({c["label"] for c in oa_cases if c["label"].startswith("oa-name:")}),
                                               "unspaced": sum(1 for c in oa_cases if c["label"].startswith("oa-name:") and "= b" in c["stmt"] and " = b" not in c["stmt"]),
                                               "with_value": sum(1 for c in oa_cases if c["label"].startswith("oa-name:") and (c["impl"] or "fail") not in ("fail", "setup-fail"))},
            "by_rhs": {r: sum(1 for c in oa_cases if c["rhs"] == r) for r, _ in OA_RHS},
            "samples": [{"program": "; ".join(c["setup"] + [c["stmt"], c["target"]]), "implementation": c["impl"],
                         "plain_calls": "; ".join(c["oracle_setup"][len(c["setup"]):] + [c["oracle"]]), "plain_call_value": c["oracle_val"],
                         "coq_model": c["model_nf"]} for c in oa_cases[::max(1, len(oa_cases) // 8)][:8]],
            "suspicious": oa_bad},
    })
    ctx.assumptions += [
        "an opaque builtin's run1/run2 are defined from run in the model (checked by the sweep on the pool, not proved per builtin)",
        "closures are opaque functions of their argument vector (true by construction: Closure has only the vector entry point)",
        "the function applied by x f= b does not read x while it runs (the interpreter clears x during the call)",
        "hash-map iteration order is not compared (multi-key dicts are not in the pool; group_all results are compared as multisets)",
    ]
    return common.conclude(ctx)


def replay(ctx, rep):
    runner = common.standard_prelude(ctx)
    if rep.get("part") == "entry-points":
        d = {"fn": rep["fn"], "t": rep["tuple"], "kind": "entry" if "entry point" in rep["what"] else "section", "what": rep["compared"]}
        pool = ARITH_POOL if rep.get("pool") == "arith" else (POOL + POOL_EXTRA if max(rep["tuple"]) >= len(POOL) else POOL)
        conf = confirm_diff(d, pool)
        print(json.dumps({"fn": rep["fn"], "args": rep["args"], "still_differs": bool(conf), "now": conf[:1]}))
        return 1 if conf else 0
    if rep.get("part") == "opassign":
        c = dict(rep["case"])
        run_opassign(ctx, [c], runner, fresh=True)
        k = judge_opassign(c)
        print(json.dumps({"program": c["setup"] + [c["stmt"], c["target"]], "implementation": c["impl"], "plain_call_value": c["oracle_val"],
                          "model": c["model_nf"], "verdict": k}))
        return 1 if k else 0
    c = case_from_replay(rep["case"])
    run_dispatch(ctx, [c], runner, fresh=True)
    j = judge(c)
    print(json.dumps({"label": c.label, "implementation": c.impl, "model": c.model, "reference": c.ref, "verdict": j}, default=str))
    return 1 if j else 0
