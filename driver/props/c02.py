"""C02 - mutating an unshared collection is in place; a shared one is copied at most once per extra holder.

Two independent correspondence checks:
 (1) Rc-graph isomorphism.  Histories (the C01 generator) are run statement by statement in the
     implementation; after every statement harness/src/bin/c02.rs walks Env.vars (borrowing only) and
     dumps the real Rc graph: address, strong count, kind, length and children of every payload.  The
     Coq machine Rc/Cow.v (extracted, ocaml/c02.ml) runs the same history and dumps its heap.  The two
     graphs must be isomorphic (same partition of handles into cells, same strong counts, same
     contents), and a cell the model keeps at the same location across a statement ("in place" or
     untouched) must keep its address in the implementation.
 (2) Allocation scaling.  A counting #[global_allocator] measures the bytes requested while
     `evaluate` runs k in-place-eligible mutations on a fresh collection of n elements, at n, 2n, 4n and
     k, 2k, 4k; the bytes must stay below a*(n+k)+b (a, b fitted at the smallest size): O(n+k), not
     O(n*k).  In the once-aliased variant exactly one copy happens.  This measurement decides found=True.
"""
import json
import common
from props import c01

ID = "C02"
MANIFEST = dict(
    technique="Coq proof (make_mut cost; set_index and pop/remove/consume in place through unshared paths at any depth; flat: unaliased stays unique, copy once, "
              "drop_lhs restores uniqueness) on the Rc heap machine + Rc-graph isomorphism model/implementation + counting-allocator "
              "scaling measurement",
    text="Machine-checked theorems (Coq 8.16, no axioms) about the Gallina Rc heap machine Rc/Heap.v+Cow.v (explicit strong counts, "
         "make_mut with a `copied` cost counter, locations never reused): make_mut is the identity at count 1 and one payload copy "
         "otherwise; set_index through a path of count-1 cells copies nothing, creates no location and keeps the handle (any depth, "
         "all payload kinds), and so do pop / remove by index or key / consume through modify_existing_index when the addressed collection "
         "is unshared too (any depth; remove by slice and default insertion excluded); on flat lists: a sequence of index-assign/append=/+=/pop/remove on an unaliased list copies 0 elements "
         "and keeps it unaliased (the O(n+k) clause), a shared list is copied exactly once and is unaliased afterwards, drop_lhs makes "
         "the operator's argument unique. The machine is tied to /repo on every run by comparing its heap with the implementation's "
         "real Rc graph (addresses, strong counts) after every statement of generated histories; the O(n+k) clause is measured "
         "directly with a counting global allocator on 100 workloads (mutation inside a user-defined function used as op-assign operator / called with consume x, mutations guarded by a test of the collection itself - if / and / or / for-guard, defect condition-value-kept-alive fixed in /repo e624b10 -, dictionary-merging op-assigns with growing values, loops whose condition is the mutated collection, every payload kind under op-assign at top level and through list slot / dict key / struct field, nested pop/remove/consume, op-assign with a shared right operand) at 6 size points, unaliased and once-aliased.",
    note="The unaliased/copy-once/drop_lhs theorems are proved for the FLAT fragment only (list of scalars, paths of depth <= 1); nested "
         "rows, dicts, struct fields and the operators' own make_mut at depth are covered by the graph comparison and the allocation "
         "measurement, not by theorems (notes/C02.md). Trusted: Coq kernel; hand-written machine; extraction + OCaml runner; Rust "
         "harness c02.rs (graph walk borrows only; counting allocator); Python comparator. Real allocation volume and Vec growth are "
         "measured, not proved.",
    design="6-C02")


# ----------------------------------------------------------------------------- graph isomorphism
class Mismatch(Exception):
    pass


def iso(model, real):
    """model/real: {"roots": [...], "cells": {...}}.  Returns the bijection loc -> addr or raises Mismatch."""
    fwd, bwd = {}, {}
    mc, rc = model["cells"], real["cells"]

    def hv(a, b, where):
        if isinstance(a, str) or isinstance(b, str):
            if a != b:
                raise Mismatch(f"{where}: model {a!r} vs implementation {b!r}")
            return
        if "x" in a or "x" in b:
            if a.get("x") != b.get("x") or len(a.get("f", [])) != len(b.get("f", [])):
                raise Mismatch(f"{where}: instance {a.get('x')} vs {b.get('x')}")
            for i, (p, q) in enumerate(zip(a["f"], b["f"])):
                hv(p, q, f"{where}.f{i}")
            return
        l, ad = a["r"], b["r"]
        if (a["d"] is None) != (b["d"] is None):
            raise Mismatch(f"{where}: dict default present in one only")
        if a["d"] is not None:
            hv(a["d"], b["d"], where + ".default")
        if l in fwd or ad in bwd:
            if fwd.get(l) != ad or bwd.get(ad) != l:
                raise Mismatch(f"{where}: sharing differs: model cell {l} <-> {fwd.get(l)}, implementation {ad} <-> {bwd.get(ad)}")
            return
        fwd[l], bwd[ad] = ad, l
        cm, cr = mc.get(l), rc.get(ad)
        if cm is None or cr is None:
            raise Mismatch(f"{where}: missing cell")
        if cm["k"] != cr["k"]:
            raise Mismatch(f"{where}: kind {cm['k']} vs {cr['k']}")
        if cm["c"] != cr["c"]:
            raise Mismatch(f"{where}: strong count: model {cm['c']} vs implementation {cr['c']} (kind {cm['k']}, len {cr['len']})")
        if cm["len"] != cr["len"]:
            raise Mismatch(f"{where}: length {cm['len']} vs {cr['len']}")
        if cm["k"] in ("S", "V", "B"):
            if cm["s"] != cr["s"]:
                raise Mismatch(f"{where}: content {cm['s']} vs {cr['s']}")
            return
        if cm["k"] == "D":
            for (k1, e1), (k2, e2) in zip(cm["items"], cr["items"]):
                if k1 != k2:
                    raise Mismatch(f"{where}: dict keys {k1} vs {k2}")
                hv(e1, e2, f"{where}[{k1}]")
            return
        for i, (e1, e2) in enumerate(zip(cm["items"], cr["items"])):
            hv(e1, e2, f"{where}[{i}]")

    if len(model["roots"]) != len(real["roots"]):
        raise Mismatch("number of variables")
    for i, (a, b) in enumerate(zip(model["roots"], real["roots"])):
        hv(a, b, c01.nm(i))
    return fwd


def render_for_graph(nvars, stmts, wraps):
    """statements for bin/c02 (no dump statements: the harness walks the variables itself)"""
    pre = c01.prelude(nvars)
    out, dump = list(pre), [False] * len(pre)
    for s, w in zip(stmts, wraps):
        src = c01.r_stmt(s)
        if w == "lambda":
            src = f"(\\-> ({src}))()"
        out.append(src)
        dump.append(True)
    return out, dump


def run_graph_impl(hists):
    cases = []
    for i, (n, s, w) in enumerate(hists):
        stmts, dump = render_for_graph(n, s, w)
        cases.append({"id": i, "vars": [c01.nm(x) for x in range(n)], "stmts": stmts, "dump": dump})
    return common.run_harness(common.harness_bin("c02"), cases, timeout=30.0)


def compare_history(h, mtrace, res):
    """returns None or a dict describing the first divergence"""
    n, stmts, wraps = h
    if "results" not in res:
        return {"at": -1, "what": f"harness: {res.get('status')} {res.get('msg', '')}"}
    body = res["results"][len(c01.prelude(n)):]
    prev_fwd = None
    for i, (m, r) in enumerate(zip(mtrace, body)):
        st = r.get("status")
        if st in ("panic", "hang", "abort", "parse", "badjson"):
            return {"at": i, "what": f"implementation {st}: {r.get('msg', '')}", "crash": True}
        if (st == "ok") != m["ok"]:
            return {"at": i, "what": f"raised/not-raised: model ok={m['ok']} implementation {st} {r.get('msg', '')[:120]}"}
        try:
            fwd = iso(m, r["graph"])
        except Mismatch as e:
            return {"at": i, "what": "Rc graph: " + str(e)}
        if prev_fwd is not None:
            for l, ad in fwd.items():
                if l in prev_fwd and prev_fwd[l] != ad:
                    return {"at": i, "what": f"cell {l} stays in place in the model but its address changed in the implementation "
                                             f"({prev_fwd[l]} -> {ad})"}
        prev_fwd = fwd
    if len(body) != len(mtrace):
        return {"at": min(len(body), len(mtrace)), "what": "trace lengths differ"}
    return None


# ----------------------------------------------------------------------------- history generation (C01's, restricted)
def has_str(v):
    if isinstance(v, (list, tuple)):
        if len(v) >= 1 and v[0] in ("S", "B"):
            return True
        return any(has_str(x) for x in v)
    return False


def graph_safe(h):
    """A string/bytes literal is an Rc owned by the AST (Expr::StringLit/BytesLit): evaluating the same literal several times in
    one statement - only a for-loop body does that - yields handles to ONE payload.  The machine allocates per evaluation,
    so histories with a string literal inside a loop body are not used for the graph comparison (C01 still runs them)."""
    return not any(s[0] == "for" and has_str(s[3]) for s in h[1])


def gen_histories(ctx, spec, count):
    out = []
    while len(out) < count:
        h = c01.gen_history(ctx.rng, spec, p_bad=0.2 if len(out) % 4 else 0.6)
        if graph_safe(h):
            out.append(h)
    return out


def shrink(h, model_run):
    n, s, w = h

    def bad(s2, w2):
        if not s2:
            return None
        mt = json.loads(model_run([c01.sx_hist(n, s2)])[0])
        r = run_graph_impl([(n, s2, w2)])[0]
        return compare_history((n, s2, w2), mt, r)

    d = bad(s, w)
    if d is None:
        return h, None
    if d["at"] >= 0:
        s, w = s[: d["at"] + 1], w[: d["at"] + 1]
    changed = True
    while changed and len(s) > 1:
        changed = False
        for i in range(len(s) - 1, -1, -1):
            s2, w2 = s[:i] + s[i + 1:], w[:i] + w[i + 1:]
            d2 = bad(s2, w2)
            if d2 is not None and not d2.get("crash"):
                s, w = (s2[: d2["at"] + 1], w2[: d2["at"] + 1]) if d2["at"] >= 0 else (s2, w2)
                changed = True
                break
    return (n, s, w), bad(s, w)


# ----------------------------------------------------------------------------- allocation scaling
def lit_list(n):
    return f"([0] ** {n})"


WORKLOADS = [
    # name, declared type of x, setup(n) -> [stmts] (the first one declares x), work(n, k) -> one statement performing k mutations
    ("index-assign", "list", lambda n: [f"x := {lit_list(n)}"], lambda n, k: f"for (i <- 0 til {k}) (x[i % {n}] = i)"),
    ("append=", "list", lambda n: [f"x := {lit_list(n)}"], lambda n, k: f"for (i <- 0 til {k}) (x append= i)"),
    ("++=", "list", lambda n: [f"x := {lit_list(n)}"], lambda n, k: f"for (i <- 0 til {k}) (x ++= [i])"),
    ("index +=", "list", lambda n: [f"x := {lit_list(n)}"], lambda n, k: f"for (i <- 0 til {k}) (x[i % {n}] += 1)"),
    ("pop", "list", lambda n: [f"x := {lit_list(n)}"], lambda n, k: f"for (i <- 0 til {k}) (x append= i; pop x)"),
    ("remove-at-end", "list", lambda n: [f"x := {lit_list(n)}"], lambda n, k: f"for (i <- 0 til {k}) (x append= i; remove x[-1])"),
    ("dict |.=", "dict", lambda n: [f"x := {{}}", f"for (i <- 0 til {n}) (x |.= i)"], lambda n, k: f"for (i <- 0 til {k}) (x |.= ({n} + i))"),
    ("dict index-assign", "dict", lambda n: [f"x := {{}}", f"for (i <- 0 til {n}) (x[i] = i)"], lambda n, k: f"for (i <- 0 til {k}) (x[i % {n}] = i)"),
    ("dict |..=", "dict", lambda n: [f"x := {{}}", f"for (i <- 0 til {n}) (x[i] = i)"], lambda n, k: f"for (i <- 0 til {k}) (x |..= [i % {n}, i])"),
    ("dict index +=", "dict", lambda n: [f"x := {{:0}}", f"for (i <- 0 til {n}) (x[i] = i)"], lambda n, k: f"for (i <- 0 til {k}) (x[i % {n}] += 1)"),
    ("nested row", "list", lambda n: [f"x := [{lit_list(n)}, {lit_list(n)} ++ []]"], lambda n, k: f"for (i <- 0 til {k}) (x[i % 2][i % {n}] = i)"),
    ("nested row append=", "list", lambda n: [f"x := [{lit_list(n)}, {lit_list(n)} ++ []]"], lambda n, k: f"for (i <- 0 til {k}) (x[i % 2] append= i)"),
    ("nested row ++=", "list", lambda n: [f"x := [{lit_list(n)}, {lit_list(n)} ++ []]"], lambda n, k: f"for (i <- 0 til {k}) (x[i % 2] ++= [i])"),
    ("dict bucket append=", "dict", lambda n: [f"x := {{0: {lit_list(n)}, 1: {lit_list(n)} ++ []}}"], lambda n, k: f"for (i <- 0 til {k}) (x[i % 2] append= i)"),
    ("dict bucket ++=", "dict", lambda n: [f"x := {{0: {lit_list(n)}, 1: {lit_list(n)} ++ []}}"], lambda n, k: f"for (i <- 0 til {k}) (x[i % 2] ++= [i])"),
    ("dict bucket |.=", "dict", lambda n: [f"x := {{0: {{}}}}", f"for (i <- 0 til {n}) (x[0] |.= i)"], lambda n, k: f"for (i <- 0 til {k}) (x[0] |.= ({n} + i))"),
    ("dict bucket index-assign", "dict", lambda n: [f"x := {{0: {lit_list(n)}}}"], lambda n, k: f"for (i <- 0 til {k}) (x[0][i % {n}] = i)"),
    ("dict bucket vector +=", "dict", lambda n: [f"x := {{0: vector({lit_list(n)})}}"], lambda n, k: f"for (i <- 0 til {k}) (x[0][i % {n}] += 1)"),
    ("struct field", "P", lambda n: ["struct P (pa, pb)", f"x := P({lit_list(n)}, 0)"], lambda n, k: f"for (i <- 0 til {k}) (x[pa][i % {n}] = i; x[pb] += 1)"),
    ("struct field append=", "P", lambda n: ["struct P (pa, pb)", f"x := P({lit_list(n)}, 0)"], lambda n, k: f"for (i <- 0 til {k}) (x[pa] append= i)"),
    ("vector index-assign", "vector", lambda n: [f"x := vector({lit_list(n)})"], lambda n, k: f"for (i <- 0 til {k}) (x[i % {n}] = i)"),
    ("vector index +=", "vector", lambda n: [f"x := vector({lit_list(n)})"], lambda n, k: f"for (i <- 0 til {k}) (x[i % {n}] += 1)"),
    ("bytes index-assign", "bytes", lambda n: [f"x := bytes({lit_list(n)})"], lambda n, k: f"for (i <- 0 til {k}) (x[i % {n}] = i % 200)"),
    # nested consuming builtins: modify_existing_index must hand try_pop/try_remove the row itself, not a second holder of it
    ("nested row pop", "list", lambda n: [f"x := [{lit_list(n)}, {lit_list(n)} ++ []]"], lambda n, k: f"for (i <- 0 til {k}) (x[i % 2] append= i; pop x[i % 2])"),
    ("nested row remove-at-end", "list", lambda n: [f"x := [{lit_list(n)}, {lit_list(n)} ++ []]"], lambda n, k: f"for (i <- 0 til {k}) (x[i % 2] append= i; remove x[i % 2][-1])"),
    ("nested row consume", "list", lambda n: [f"x := [{lit_list(n)}, {lit_list(n)} ++ []]"], lambda n, k: f"for (i <- 0 til {k}) (x[i % 2][i % {n}] = i; consume x[i % 2][i % {n}])"),
    ("two-level row pop", "list", lambda n: [f"x := [[{lit_list(n)}, {lit_list(n)} ++ []], [[0]]]"], lambda n, k: f"for (i <- 0 til {k}) (x[0][i % 2] append= i; pop x[0][i % 2])"),
    ("two-level row remove-at-end", "list", lambda n: [f"x := [[{lit_list(n)}, {lit_list(n)} ++ []], [[0]]]"], lambda n, k: f"for (i <- 0 til {k}) (x[0][i % 2] append= i; remove x[0][i % 2][-1])"),
    ("dict bucket pop", "dict", lambda n: [f"x := {{0: {lit_list(n)}, 1: {lit_list(n)} ++ []}}"], lambda n, k: f"for (i <- 0 til {k}) (x[i % 2] append= i; pop x[i % 2])"),
    ("dict bucket remove-at-end", "dict", lambda n: [f"x := {{\"a\": {lit_list(n)}}}"], lambda n, k: f"for (i <- 0 til {k}) (x[\"a\"] append= i; remove x[\"a\"][-1])"),
    ("struct field pop", "P", lambda n: ["struct P (pa, pb)", f"x := P({lit_list(n)}, 0)"], lambda n, k: f"for (i <- 0 til {k}) (x[pa] append= i; pop x[pa])"),
    ("list-of-struct field pop", "list", lambda n: ["struct P (pa, pb)", f"x := [P({lit_list(n)}, 0), P({lit_list(n)} ++ [], 1)]"], lambda n, k: f"for (i <- 0 til {k}) (x[i % 2][pa] append= i; pop x[i % 2][pa])"),
    # op-assign whose right operand has a second holder (a variable, an element of another collection): the unaliased LEFT operand
    # must still be extended in place
    ("++= variable", "list", lambda n: [f"x := {lit_list(n)}", "extra := [1, 2] ++ []"], lambda n, k: f"for (i <- 0 til {k}) (x ++= extra)"),
    ("++= element of another list", "list", lambda n: [f"x := {lit_list(n)}", "rows := [[1, 2], [3] ++ []]"], lambda n, k: f"for (i <- 0 til {k}) (x ++= rows[i % 2])"),
    ("nested row ++= variable", "list", lambda n: [f"x := [{lit_list(n)}, {lit_list(n)} ++ []]", "extra := [1, 2] ++ []"], lambda n, k: f"for (i <- 0 til {k}) (x[i % 2] ++= extra)"),
    ("dict bucket ++= variable", "dict", lambda n: [f"x := {{\"a\": {lit_list(n)}}}", "extra := [1, 2] ++ []"], lambda n, k: f"for (i <- 0 til {k}) (x[\"a\"] ++= extra)"),
    ("struct field ++= variable", "P", lambda n: ["struct P (pa, pb)", f"x := P({lit_list(n)}, 0)", "extra := [1, 2] ++ []"], lambda n, k: f"for (i <- 0 til {k}) (x[pa] ++= extra)"),
    ("append= variable", "list", lambda n: [f"x := {lit_list(n)}", "extra := [1, 2] ++ []"], lambda n, k: f"for (i <- 0 til {k}) (x append= extra)"),
    ("dict ||= variable", "dict", lambda n: [f"x := {{}}", f"for (i <- 0 til {n}) (x[i] = i)", "other := {-1: 0, -2: 0}"], lambda n, k: f"for (i <- 0 til {k}) (x ||= other)"),
    ("dict |.= variable", "dict", lambda n: [f"x := {{}}", f"for (i <- 0 til {n}) (x[i] = i)", "kk := \"key\""], lambda n, k: f"for (i <- 0 til {k}) (x |.= kk)"),
    ("dict |..= variable", "dict", lambda n: [f"x := {{}}", f"for (i <- 0 til {n}) (x[i] = i)", "pr := [1, [2, 3]] ++ []"], lambda n, k: f"for (i <- 0 til {k}) (x |..= pr)"),
    # every payload kind under op-assign (drop_lhs must release the variable's / slot's reference for vectors and bytes too),
    # top level and through a list slot / dict key / struct field
    ("vector append=", "vector", lambda n: [f"x := vector({lit_list(n)})"], lambda n, k: f"for (i <- 0 til {k}) (x append= i)"),
    ("vector ++=", "vector", lambda n: [f"x := vector({lit_list(n)})"], lambda n, k: f"for (i <- 0 til {k}) (x ++= vector([i]))"),
    ("bytes append=", "bytes", lambda n: [f"x := bytes({lit_list(n)})"], lambda n, k: f"for (i <- 0 til {k}) (x append= i % 200)"),
    ("bytes ++=", "bytes", lambda n: [f"x := bytes({lit_list(n)})"], lambda n, k: f"for (i <- 0 til {k}) (x ++= bytes([i % 200]))"),
    ("list slot vector append=", "list", lambda n: [f"x := [vector([1, 2]), vector({lit_list(n)})]"], lambda n, k: f"for (i <- 0 til {k}) (x[1] append= i)"),
    ("list slot vector ++=", "list", lambda n: [f"x := [vector([1, 2]), vector({lit_list(n)})]"], lambda n, k: f"for (i <- 0 til {k}) (x[-1] ++= vector([i]))"),
    ("list slot bytes append=", "list", lambda n: [f"x := [bytes([1, 2]), bytes({lit_list(n)})]"], lambda n, k: f"for (i <- 0 til {k}) (x[1] append= i % 200)"),
    ("list slot bytes ++=", "list", lambda n: [f"x := [bytes([1, 2]), bytes({lit_list(n)})]"], lambda n, k: f"for (i <- 0 til {k}) (x[1] ++= bytes([i % 200]))"),
    ("dict bucket vector append=", "dict", lambda n: [f"x := {{\"a\": vector({lit_list(n)})}}"], lambda n, k: f"for (i <- 0 til {k}) (x[\"a\"] append= i)"),
    ("dict bucket vector ++=", "dict", lambda n: [f"x := {{\"a\": vector({lit_list(n)})}}"], lambda n, k: f"for (i <- 0 til {k}) (x[\"a\"] ++= vector([i]))"),
    ("dict bucket bytes append=", "dict", lambda n: [f"x := {{0: bytes({lit_list(n)})}}"], lambda n, k: f"for (i <- 0 til {k}) (x[0] append= i % 200)"),
    ("dict bucket bytes ++=", "dict", lambda n: [f"x := {{0: bytes({lit_list(n)})}}"], lambda n, k: f"for (i <- 0 til {k}) (x[0] ++= bytes([i % 200]))"),
    ("struct field vector append=", "P", lambda n: ["struct P (pa, pb)", f"x := P(vector({lit_list(n)}), 0)"], lambda n, k: f"for (i <- 0 til {k}) (x[pa] append= i)"),
    ("struct field vector ++=", "P", lambda n: ["struct P (pa, pb)", f"x := P(vector({lit_list(n)}), 0)"], lambda n, k: f"for (i <- 0 til {k}) (x[pa] ++= vector([i]))"),
    ("struct field bytes append=", "P", lambda n: ["struct P (pa, pb)", f"x := P(bytes({lit_list(n)}), 0)"], lambda n, k: f"for (i <- 0 til {k}) (x[pa] append= i % 200)"),
    ("struct field dict |.=", "P", lambda n: ["struct P (pa, pb)", "x := P({}, 0)", f"for (i <- 0 til {n}) (x[pa] |.= i)"], lambda n, k: f"for (i <- 0 til {k}) (x[pa] |.= ({n} + i))"),
    ("list slot dict |.=", "list", lambda n: ["x := [{}, 0]", f"for (i <- 0 til {n}) (x[0] |.= i)"], lambda n, k: f"for (i <- 0 til {k}) (x[0] |.= ({n} + i))"),
    ("list slot dict |..=", "list", lambda n: ["x := [{}, 0]", f"for (i <- 0 til {n}) (x[0] |.= i)"], lambda n, k: f"for (i <- 0 til {k}) (x[0] |..= [i % {n}, i])"),
    ("vector + scalar", "vector", lambda n: [f"x := vector({lit_list(n)})"], lambda n, k: f"for (i <- 0 til {k}) (x[i % {n}] += 1; x[-1] -= 1)"),
    # dictionary-merging op-assigns with growing / large values (the grouping idiom `groups ||++= {key: [item]}`): the slot of a
    # common key must be moved out while the values are combined
    ("dict ||++= growing list", "dict", lambda n: [f"x := {{0: {lit_list(n)}, 1: {lit_list(n)} ++ []}}"], lambda n, k: f"for (i <- 0 til {k}) (x ||++= {{(i % 2): [i]}})"),
    ("dict ||++= growing list, string key", "dict", lambda n: [f"x := {{\"a\": {lit_list(n)}}}"], lambda n, k: f"for (i <- 0 til {k}) (x ||++= {{\"a\": [i]}})"),
    ("dict ||++= growing vector", "dict", lambda n: [f"x := {{0: vector({lit_list(n)})}}"], lambda n, k: f"for (i <- 0 til {k}) (x ||++= {{0: vector([i])}})"),
    ("dict ||++= new keys", "dict", lambda n: [f"x := {{}}", f"for (i <- 0 til {n}) (x[i] = [i])"], lambda n, k: f"for (i <- 0 til {k}) (x ||++= {{({n} + i): [i]}})"),
    ("dict ||+= counters", "dict", lambda n: [f"x := {{}}", f"for (i <- 0 til {n}) (x[i] = i)"], lambda n, k: f"for (i <- 0 til {k}) (x ||+= {{(i % {n}): 1}})"),
    ("dict ||-= counters", "dict", lambda n: [f"x := {{}}", f"for (i <- 0 til {n}) (x[i] = i)"], lambda n, k: f"for (i <- 0 til {k}) (x ||-= {{(i % {n}): 1}})"),
    ("dict ||= fresh keys", "dict", lambda n: [f"x := {{}}", f"for (i <- 0 til {n}) (x[i] = i)"], lambda n, k: f"for (i <- 0 til {k}) (x ||= {{({n} + i): i}})"),
    ("list slot dict ||++=", "list", lambda n: [f"x := [{{0: {lit_list(n)}}}, 0]"], lambda n, k: f"for (i <- 0 til {k}) (x[0] ||++= {{0: [i]}})"),
    ("dict bucket dict ||++=", "dict", lambda n: [f"x := {{\"g\": {{0: {lit_list(n)}}}}}"], lambda n, k: f"for (i <- 0 til {k}) (x[\"g\"] ||++= {{0: [i]}})"),
    ("struct field dict ||++=", "P", lambda n: ["struct P (pa, pb)", f"x := P({{0: {lit_list(n)}}}, 0)"], lambda n, k: f"for (i <- 0 til {k}) (x[pa] ||++= {{0: [i]}})"),
    # a loop whose CONDITION evaluates to the collection the body mutates (drain / worklist idiom): the condition's value must
    # not stay alive while the body runs
    ("while (x) append/pop", "list", lambda n: [f"x := {lit_list(n)}", "j := 0"], lambda n, k: f"while (x) (x append= j; pop x; j += 1; if (j >= {k}) break)"),
    ("while (x) remove-at-end", "list", lambda n: [f"x := {lit_list(n)}", "j := 0"], lambda n, k: f"while (x) (x append= j; remove x[-1]; j += 1; if (j >= {k}) break)"),
    ("while (x) index-assign", "list", lambda n: [f"x := {lit_list(n)}", "j := 0"], lambda n, k: f"while (x) (x[j % {n}] = j; j += 1; if (j >= {k}) break)"),
    ("while (x) dict worklist", "dict", lambda n: [f"x := {{}}", f"for (i <- 0 til {n}) (x |.= i)", "j := 0"], lambda n, k: f"while (x) (x |.= ({n} + j); x -.= ({n} + j); j += 1; if (j >= {k}) break)"),
    ("while (x[0]) nested pop", "list", lambda n: [f"x := [{lit_list(n)}, 0]", "j := 0"], lambda n, k: f"while (x[0]) (x[0] append= j; pop x[0]; j += 1; if (j >= {k}) break)"),
    # mutation statements guarded by a test of the collection itself: the condition's value (a second handle to the collection)
    # must be released before the branch / right operand / loop body runs (defect condition-value-kept-alive, fixed in /repo)
    ("if (x) append=", "list", lambda n: [f"x := {lit_list(n)}"], lambda n, k: f"for (i <- 0 til {k}) (if (x) (x append= i))"),
    ("if (x) append/pop", "list", lambda n: [f"x := {lit_list(n)}"], lambda n, k: f"for (i <- 0 til {k}) (if (x) (x append= i; pop x))"),
    ("if (x) index-assign else", "list", lambda n: [f"x := {lit_list(n)}"], lambda n, k: f"for (i <- 0 til {k}) (if (not x) null else (x[i % {n}] = i))"),
    ("if (x) dict |.=", "dict", lambda n: [f"x := {{}}", f"for (i <- 0 til {n}) (x |.= i)"], lambda n, k: f"for (i <- 0 til {k}) (if (x) (x |.= ({n} + i)))"),
    ("x and append=", "list", lambda n: [f"x := {lit_list(n)}"], lambda n, k: f"for (i <- 0 til {k}) (x and (x append= i))"),
    ("empty or append=", "list", lambda n: [f"x := {lit_list(n)}", "e := [] ++ []"], lambda n, k: f"for (i <- 0 til {k}) (e or (x append= i))"),
    ("x[0] and nested append=", "list", lambda n: [f"x := [{lit_list(n)}, 0]"], lambda n, k: f"for (i <- 0 til {k}) (x[0] and (x[0] append= i))"),
    ("for guard append=", "list", lambda n: [f"x := {lit_list(n)}"], lambda n, k: f"for (i <- 1 to {k}; if x) (x append= i)"),
    ("for guard vector append=", "vector", lambda n: [f"x := vector({lit_list(n)})"], lambda n, k: f"for (i <- 1 to {k}; if x) (x append= i)"),
    # the mutation happens inside a USER-DEFINED function that received the unshared collection as an argument (a consuming
    # modifier used as the operator of an op-assign, or called with `consume x`): the call machinery must not keep a second
    # reference to the arguments while the body runs
    ("closure operator append=", "list", lambda n: [f"x := {lit_list(n)}", "f := \\acc, v -> (acc append= v; acc)"], lambda n, k: f"for (i <- 0 til {k}) (x f= i)"),
    ("closure operator index +=", "list", lambda n: [f"x := {lit_list(n)}", "g := \\row, d -> (row[0] += d; row)"], lambda n, k: f"for (i <- 0 til {k}) (x g= 1)"),
    ("closure operator index-assign", "list", lambda n: [f"x := {lit_list(n)}", f"g := \\row, i -> (row[i % {n}] = i; row)"], lambda n, k: f"for (i <- 0 til {k}) (x g= i)"),
    ("closure operator on list slot", "list", lambda n: [f"x := [{lit_list(n)}, {lit_list(n)} ++ []]", "f := \\acc, v -> (acc append= v; acc)"], lambda n, k: f"for (i <- 0 til {k}) (x[i % 2] f= i)"),
    ("closure operator on dict bucket", "dict", lambda n: [f"x := {{\"a\": {lit_list(n)}}}", "f := \\acc, v -> (acc append= v; acc)"], lambda n, k: f"for (i <- 0 til {k}) (x[\"a\"] f= i)"),
    ("closure operator on struct field", "P", lambda n: ["struct P (pa, pb)", f"x := P({lit_list(n)}, 0)", "f := \\acc, v -> (acc append= v; acc)"], lambda n, k: f"for (i <- 0 til {k}) (x[pa] f= i)"),
    ("closure operator dict |.=", "dict", lambda n: [f"x := {{}}", f"for (i <- 0 til {n}) (x |.= i)", "f := \\d, k -> (d |.= k; d)"], lambda n, k: f"for (i <- 0 til {k}) (x f= ({n} + i))"),
    ("closure operator dict index-assign", "dict", lambda n: [f"x := {{}}", f"for (i <- 0 til {n}) (x[i] = i)", f"f := \\d, k -> (d[k % {n}] = k; d)"], lambda n, k: f"for (i <- 0 til {k}) (x f= i)"),
    ("closure operator vector append=", "vector", lambda n: [f"x := vector({lit_list(n)})", "f := \\acc, v -> (acc append= v; acc)"], lambda n, k: f"for (i <- 0 til {k}) (x f= i)"),
    ("closure operator vector index +=", "vector", lambda n: [f"x := vector({lit_list(n)})", f"g := \\row, i -> (row[i % {n}] += 1; row)"], lambda n, k: f"for (i <- 0 til {k}) (x g= i)"),
    ("closure operator bytes append=", "bytes", lambda n: [f"x := bytes({lit_list(n)})", "f := \\acc, v -> (acc append= v; acc)"], lambda n, k: f"for (i <- 0 til {k}) (x f= i % 200)"),
    ("closure operator pop", "list", lambda n: [f"x := {lit_list(n)}", "f := \\acc, v -> (acc append= v; pop acc; acc)"], lambda n, k: f"for (i <- 0 til {k}) (x f= i)"),
    ("closure called with consume x", "list", lambda n: [f"x := {lit_list(n)}", "f := \\acc, v -> (acc append= v; acc)"], lambda n, k: f"for (i <- 0 til {k}) (x = f(consume x, i))"),
    ("closure called with consume x[i]", "list", lambda n: [f"x := [{lit_list(n)}, 0]", "f := \\acc, v -> (acc append= v; acc)"], lambda n, k: f"for (i <- 0 til {k}) (x[0] = f(consume x[0], i))"),
    ("one-parameter closure called with consume x", "dict", lambda n: [f"x := {{}}", f"for (i <- 0 til {n}) (x[i] = i)", f"f := \\d -> (d[0] += 1; d)"], lambda n, k: f"for (i <- 0 til {k}) (x = f(consume x))"),
    ("string index-assign", "str", lambda n: [f"x := \"a\" $* {n}"], lambda n, k: f"for (i <- 0 til {k}) (x[i % {n}] = \"b\")"),
]


def declare(stmts, ty, typed):
    """`x := e`  ->  `x: T = e` for the type-annotated variant (assign_respecting_type then checks the type after every
    indexed write; that must not keep a second holder of the collection alive)"""
    if not typed:
        return list(stmts)
    out, done = [], False
    for s in stmts:
        if not done and s.startswith("x := "):
            out.append(f"x: {ty} = " + s[len("x := "):])
            done = True
        else:
            out.append(s)
    return out


def alloc_cases(n0, k0):
    cases, meta = [], []
    for name, ty, setup, work in WORKLOADS:
        for (fn, fk) in GRID:
            n, k = n0 * fn, k0 * fk
            for aliased in (False, True):
                for typed in (False, True):
                    st = declare(setup(n), ty, typed) + (["y := x"] if aliased else [])
                    cases.append({"id": len(cases), "mode": "alloc", "setup": st, "work": [work(n, k)]})
                    meta.append((name, n, k, aliased, typed))
    return cases, meta


PER_ELEM = 512        # bytes per element allowed for growth in n (one Obj is 48 bytes; Vec/HashMap growth doubles)
PER_ITER = 8192       # bytes per mutation allowed for the interpreter's own bookkeeping (measured ~850)
SLACK = 65536
GRID = ((1, 1), (2, 1), (4, 1), (1, 2), (1, 4), (4, 4))


def alloc_check(ctx, n0, k0):
    """bytes requested while evaluate() runs k mutations on a collection of n elements; linear, not n*k"""
    cases, meta = alloc_cases(n0, k0)
    res = common.run_harness(common.harness_bin("c02"), cases, timeout=180.0, workers=min(8, common.NPROC))
    table = {m: r for m, r in zip(meta, res)}
    progs = {m: c["setup"] + c["work"] for m, c in zip(meta, cases)}
    rows = []
    for name, _, _, _ in WORKLOADS:
      for typed in (False, True):
        b = {}
        bad = False
        for aliased in (False, True):
            for (fn, fk) in GRID:
                r = table[(name, n0 * fn, k0 * fk, aliased, typed)]
                if r.get("status") != "ok" or r.get("setup_status") != "ok" or r.get("work_status") != "ok":
                    ctx.violation("alloc-workload-failed", {"what": "an allocation workload did not run", "workload": name, "aliased": aliased,
                                                            "typed": typed, "program": progs[(name, n0 * fn, k0 * fk, aliased, typed)], "result": r},
                                  found=r.get("work_status") == "panic")
                    bad = True
                else:
                    b[(aliased, fn, fk)] = r["bytes"]
        if bad:
            continue
        row = {"workload": name, "typed_declaration": typed, "n0": n0, "k0": k0,
               "bytes_unaliased": {f"{fn}n,{fk}k": b[(False, fn, fk)] for fn, fk in GRID},
               "bytes_once_aliased": {f"{fn}n,{fk}k": b[(True, fn, fk)] for fn, fk in GRID}}
        problems = []
        for al in (False, True):
            who = "once-aliased" if al else "unaliased"
            # (A) growth in n at fixed k: at most linear with a small constant (a copy per mutation would add 48*k bytes per element)
            if b[(al, 4, 1)] - b[(al, 1, 1)] > PER_ELEM * 3 * n0 + SLACK:
                problems.append((who, "bytes grow with n faster than one copy/growth of the collection at fixed k", (4, 1)))
            # (B) cost per mutation
            if b[(al, 1, 4)] - b[(al, 1, 1)] > PER_ITER * 3 * k0 + SLACK:
                problems.append((who, "more than a constant number of bytes per mutation", (1, 4)))
            # (C) cost per mutation does not depend on n
            if b[(al, 4, 4)] - b[(al, 4, 1)] > 1.5 * (b[(al, 1, 4)] - b[(al, 1, 1)]) + PER_ELEM * 4 * n0 + SLACK:
                problems.append((who, "bytes per mutation grow with the size of the collection (O(n*k))", (4, 4)))
        # (D) once-aliased: one copy, independent of the number of mutations
        d1 = b[(True, 1, 1)] - b[(False, 1, 1)]
        d4k = b[(True, 1, 4)] - b[(False, 1, 4)]
        row["copy_cost"] = {"n,k": d1, "n,4k": d4k, "4n,k": b[(True, 4, 1)] - b[(False, 4, 1)]}
        # (Vec/HashMap growth is counted at its full new size, so the comparison carries up to ~2x the final size of noise;
        #  a copy per mutation would cost 48*n bytes per mutation.  That the copy happens exactly once is checked by the graph
        #  comparison above: the address changes once and stays.)
        if d1 > PER_ELEM * (n0 + k0) + SLACK:
            problems.append(("once-aliased", "the shared collection costs more than one copy", (1, 1)))
        if d4k > d1 + PER_ELEM * (n0 + 4 * k0) + SLACK:
            problems.append(("once-aliased", "the shared collection is copied again by later mutations (not once per extra holder)", (1, 4)))
        rows.append(row)
        for who, what, (fn, fk) in problems[:1]:
            al = who == "once-aliased"
            ctx.violation("property", {
                "what": f"{name} ({who}{', type-annotated variable' if typed else ''}): {what}",
                "workload": name, "aliased": al, "typed": typed, "program": progs[(name, n0 * fn, k0 * fk, al, typed)],
                "bytes": b[(al, fn, fk)], "bytes_table": row,
            }, found=True)
    return rows, len(cases)


def run(ctx):
    runner = common.standard_prelude(ctx)
    stats = {"histories": 0, "statements": 0, "graphs_compared": 0, "cells_compared": 0, "divergences": 0, "shared_cells_seen": 0,
             "inplace_checks": 0}
    samples = []
    # ---- (1) allocation scaling (first: its violations carry a failing workload)
    n0, k0 = ctx.n(400, 1500), ctx.n(400, 1500)
    alloc_rows, ncases = alloc_check(ctx, n0, k0)
    # ---- (2) graph isomorphism
    ok01, spec_runner = common.build_model("C01")
    if runner and ok01:
        spec = c01.Spec(spec_runner)
        try:
            hists = c01.corpus_histories() + gen_histories(ctx, spec, ctx.n(300, 6000))
        finally:
            spec.close()
        mres = common.run_model(runner, [c01.sx_hist(n, s) for (n, s, w) in hists])
        ires = run_graph_impl(hists)
        for h, mline, r in zip(hists, mres, ires):
            stats["histories"] += 1
            stats["statements"] += len(h[1])
            try:
                mt = json.loads(mline)
            except Exception:
                ctx.violation("correspondence", {"what": "model runner failed", "line": mline[:300], "stmts": h[1]}, found=False)
                continue
            for m in mt:
                stats["graphs_compared"] += 1
                stats["cells_compared"] += len(m["cells"])
                stats["shared_cells_seen"] += sum(1 for c in m["cells"].values() if c["c"] > 1)
            d = compare_history(h, mt, r)
            if d is None:
                continue
            stats["divergences"] += 1
            if stats["divergences"] > 3:
                continue
            hs, d2 = shrink(h, lambda lines: common.run_model(runner, lines, shards=1))
            if d2 is None:
                hs, d2 = h, d
            ctx.violation("correspondence", {
                "what": "the implementation's Rc graph (or raised/not-raised) after this history differs from the Coq machine Rc/Cow.v: " + d2["what"],
                "nvars": hs[0], "stmts": hs[1], "wraps": hs[2], "program": render_for_graph(*hs)[0], "at_statement": d2["at"],
                "note": "a crash of the implementation is a failing input; a graph difference means the machine (on which the C02 theorems "
                        "are proved) no longer describes the code - the allocation measurement below decides whether C02 itself fails",
            }, found=bool(d2.get("crash")))
        if len(hists) > 3:
            samples.append({"program": render_for_graph(*hists[len(hists) // 2])[0][-8:]})
    ctx.coverage.update({
        "evaluations": stats["graphs_compared"] + ncases,
        "distinct_nontrivial": stats["shared_cells_seen"],
        "rule": "evaluations = Rc graphs compared (one per executed statement) + allocation measurements; distinct_nontrivial = cells with "
                "strong count > 1 seen in compared graphs (a shared cell is where in-place vs copy is decided)",
        "samples": samples, "graph": stats, "alloc_table": alloc_rows,
    })
    ctx.assumptions += ["Rc-sharing between dict keys and values is not modelled (string keys are literals in the histories)",
                        "Vec growth amortisation is the allocator's business: the bound is linear with a fitted constant"]
    return common.conclude(ctx)



def replay(ctx, rep):
    runner = common.standard_prelude(ctx)
    if "stmts" in rep:
        h = (rep["nvars"], [c01.tuplify(s) for s in rep["stmts"]], rep.get("wraps") or ["plain"] * len(rep["stmts"]))
        mt = json.loads(common.run_model(runner, [c01.sx_hist(h[0], h[1])], shards=1)[0])
        r = run_graph_impl([h])[0]
        d = compare_history(h, mt, r)
        print(json.dumps({"program": render_for_graph(*h)[0], "divergence": d}, indent=1))
        return 1 if d is not None else 0
    prog = rep["program"]
    r = common.run_harness(common.harness_bin("c02"), [{"id": 0, "mode": "alloc", "setup": prog[:-1], "work": prog[-1:]}], timeout=120.0)[0]
    print(json.dumps(r))
    return 1 if r.get("bytes", 0) > rep.get("bytes", 0) * 0.5 or r.get("work_status") != "ok" else 0
