"""C16 - text and byte codecs round-trip, conversions are exact, integer rendering does not depend
on the representation.

Correspondence: every generated case is run through the implementation (bin/prog, built from
/repo's working tree), through the extracted Coq model (Text/*.v, for the modelled codecs) and
through an independent Python oracle (int, Fraction/Decimal, binascii, base64, gzip/zlib, json,
str.encode/bytes.decode).  base64_*, json_*, compress/decompress are external crates: they have
no model, they are round-tripped on the implementation and compared with Python only.
"""
import base64, binascii, gzip, json, re, struct, sys
from decimal import Decimal
from fractions import Fraction
import common

ID = "C16"
if hasattr(sys, "set_int_max_str_digits"):
    sys.set_int_max_str_digits(0)
MANIFEST = dict(
    technique="Coq proof (codec models: renderers and parsers are inverse / exact, unbounded) + generated correspondence "
              "model/implementation/Python oracles",
    text="Machine-checked theorems (Coq 8.16, no axioms) about Gallina transcriptions of decimal.rs (parse_decimal_exactly, "
         "parse_rational_exactly, apply_exp10 with checked i32 exponent arithmetic), str_radix/int_radix, hex_encode/hex_decode, "
         "utf8_encode/utf8_decode (the UTF-8 encoding form on scalar values), chr/ord, num-bigint's FromStr and the Display/Binary/"
         "Octal/LowerHex/UpperHex renderings of the Small|Big integer type: int(str(n)) = n for every n, int_radix(str_radix(n,b),b) = n "
         "and str_radix is positional notation, rational(s) is the exact value the text spells (sign included) and never panics, "
         "hex and UTF-8 are inverse pairs and reject malformed input, chr/ord are inverse on scalar values, and rendering in base "
         "2/8/10/16 depends only on the value. The models are tied to /repo on every run by generated cases (integers of every size and "
         "sign x bases 2..36, decimal/scientific/fraction strings, byte strings of length 0..64, Unicode strings with astral and "
         "combining characters, nested JSON-shaped values, both integer representations) run through model, implementation and Python oracles.",
    note="Trusted: Coq kernel; hand-written models Text/{CodecChars,IntText,Radix,Decimal,Hex,Utf8,IntFmt}.v (tie to the code is the "
         "correspondence run, i.e. differential testing); extraction + OCaml runner; Rust harness; Python oracles. BigInt/Ratio arithmetic "
         "is Z/Q. NOT modelled (external crates; only round-tripped on the implementation and compared with Python's base64/gzip/json): "
         "base64_encode/decode, compress/decompress, json_encode/json_decode, and the parser that reads JSON text / repr output as a "
         "Noulith literal. f64 parsing in number(s) is a parameter of the model. Exponents of huge magnitude (|e| > 5000) are exercised "
         "only where the answer is immediate (i32 overflow paths); 10^(2^31) is never computed.",
    design="6-C16")

I63 = 2 ** 63
DIGITS = "0123456789abcdefghijklmnopqrstuvwxyz"


# ----------------------------------------------------------------------------- rendering helpers
def lit(n):
    if n == -I63:
        return "(0-9223372036854775807-1)"      # 0-2^63 would be a Big: the literal 2^63 does not fit i64
    return str(n) if n >= 0 else f"(0-{-n})"


def big_expr(n, k=0):
    """an expression whose value is n in the Big representation (probed with is_big)"""
    return f"({lit(n)}+2^64-2^64)" if k % 2 == 0 else f"({lit(n)}//1)"


SPELLINGS = ("lit", "addsub", "floordiv", "shift0", "pow2")


def spell_int(n, how):
    """an expression whose value is n; 'lit' gives the machine-word (Small) representation for i64 values, every
    other spelling the BigInt (Big) representation (what ^, //, <<, mixed arithmetic return; probed with is_big)"""
    if how == "lit":
        return lit(n)
    if how == "addsub":
        return f"({lit(n)}+2^64-2^64)"
    if how == "floordiv":
        return f"({lit(n)}//1)"
    if how == "shift0":
        return f"({lit(n)} << 0)"
    if how == "pow2":
        m = abs(n)
        if m < 2:
            return f"({lit(n)}+2^64-2^64)"
        k = m.bit_length() - 1
        e = f"(2^{k}+{m - (1 << k)})"
        return e if n > 0 else f"(0-{e})"
    raise ValueError(how)


def cps(s):
    return ",".join(str(ord(c)) for c in s) if s else "_"


def bl(bs):
    return ",".join(str(b) for b in bs) if bs else "_"


def esc(s):
    r = []
    for c in s:
        o = ord(c)
        if c == "\\":
            r.append("\\\\")
        elif c == '"':
            r.append('\\"')
        elif c == "\n":
            r.append("\\n")
        elif o < 0x20 or o == 0x7f:
            r.append("\\u{%x}" % o)
        else:
            r.append(c)
    return "".join(r)


def unesc(t):
    out, i = [], 0
    while i < len(t):
        c = t[i]
        if c != "\\":
            out.append(c)
            i += 1
            continue
        d = t[i + 1]
        if d == "n":
            out.append("\n")
            i += 2
        elif d == "u":
            j = t.index("}", i)
            out.append(chr(int(t[i + 3:j], 16)))
            i = j + 1
        else:
            out.append(d)
            i += 2
    return "".join(out)


def S(s):
    return 'S"' + esc(s) + '"'


def B(bs):
    return "B[" + ",".join(str(b) for b in bs) + "]"


def nstr(s, rng=None):
    """a Noulith string literal denoting exactly s"""
    r = ['"']
    for c in s:
        o = ord(c)
        if c == '"':
            r.append('\\"')
        elif c == "\\":
            r.append("\\\\")
        elif 0x20 <= o < 0x7f:
            r.append(c)
        elif o >= 0xa0 and (rng is None or rng.random() < 0.7):
            r.append(c)
        else:
            r.append("\\u{%x}" % o)
    r.append('"')
    return "".join(r)


def nbytes(bs):
    return "B[" + ",".join(str(b) for b in bs) + "]"


def fbits(x):
    return "F%016x" % struct.unpack(">Q", struct.pack(">d", x))[0]


def canon(v):
    if v is None:
        return "N"
    if isinstance(v, bool):
        return "I1" if v else "I0"
    if isinstance(v, int):
        return f"I{v}"
    if isinstance(v, float):
        return fbits(v)
    if isinstance(v, str):
        return S(v)
    if isinstance(v, list):
        return "L[" + ",".join(canon(x) for x in v) + "]"
    if isinstance(v, dict):
        return "D{" + ",".join(sorted(f"{S(k)}:{canon(x)}" for k, x in v.items())) + "}"
    raise ValueError(v)


def nfloat(x, rng=None):
    r = repr(x)
    # 1e+21 and 1e21 are both literals (the former since /repo 8047616): use either spelling
    return r if (rng is not None and rng.random() < 0.5) else r.replace("e+", "e")


def nlit(v, rng=None, ints=None):
    """JSON-shaped Python value as a Noulith expression; ints(n) spells the integers (default: literal text)"""
    if v is None:
        return "null"
    if isinstance(v, int):
        return str(v) if ints is None else ints(v)
    if isinstance(v, float):
        return nfloat(v, rng)
    if isinstance(v, str):
        return nstr(v, rng)
    if isinstance(v, list):
        return "[" + ", ".join(nlit(x, rng, ints) for x in v) + "]"
    if isinstance(v, dict):
        return "{" + ", ".join(f"{nstr(k, rng)}: {nlit(x, rng, ints)}" for k, x in v.items()) + "}"
    raise ValueError(v)


# ----------------------------------------------------------------------------- Python oracles
def py_str_radix(n, b):
    if n == 0:
        return "0"
    m, ds = abs(n), []
    while m:
        m, d = divmod(m, b)
        ds.append(DIGITS[d])
    s = ("-" if n < 0 else "") + "".join(reversed(ds))
    assert int(s, b) == n
    return s


def py_int_radix(s, b):
    x = 0
    for c in s:
        d = DIGITS.find(c.lower()) if len(c) == 1 and c.isascii() and c.isalnum() else -1
        if d < 0 or d >= b:
            return None
        x = x * b + d
    return x


def py_parse_bigint(s):
    """num-bigint 0.4 FromStr, radix 10"""
    neg = False
    if s.startswith("-"):
        neg = True
        if not s[1:].startswith("+"):
            s = s[1:]
    if s.startswith("+") and not s[1:].startswith("+"):
        s = s[1:]
    if not s or s[0] == "_":
        return None
    ds = []
    for ch in s:
        if ch == "_":
            continue
        if ch in "0123456789":
            ds.append(ch)
        else:
            return None
    v = int("".join(ds))
    return -v if neg else v


DEC_RE = r"[+-]?(?:[0-9]+\.?[0-9]*|\.[0-9]+)(?:[eE][+-]?[0-9]+)?"
RAT_RE = re.compile(rf"^\s*({DEC_RE})\s*(?:/\s*({DEC_RE})\s*)?$", re.ASCII)


def py_rational(s):
    """exact value of a well-formed decimal / scientific / fraction text; 'any' if the text is not of
    the plain shape (underscores, stray characters: the property does not speak about those)"""
    m = RAT_RE.match(s)
    if not m or re.search(r"[eE][+-]?[0-9]{5,}", s):
        return "any"
    p = Fraction(Decimal(m.group(1)))
    if m.group(2) is None:
        return p
    q = Fraction(Decimal(m.group(2)))
    return None if q == 0 else p / q


def py_hex_decode(raw):
    if len(raw) % 2 or any(chr(b) not in "0123456789abcdefABCDEF" for b in raw):
        return None
    return binascii.unhexlify(raw)


def py_fmt(n, f):
    return format(n, {"d": "d", "x": "x", "X": "X", "b": "b", "o": "o"}[f])


def py_pad(s, pad, width, al):
    amt = max(0, width - len(s))
    l, r = {"<": (0, amt), ">": (amt, 0), "^": (amt // 2, amt - amt // 2)}[al]
    return pad * l + s + pad * r


# ----------------------------------------------------------------------------- generators
def gen_ints(ctx, count):
    rng = ctx.rng
    base = [0, 1, -1, 2, 9, 10, 35, 36, 37, -36, 255, -255, 256, 2 ** 31 - 1, 2 ** 31, -2 ** 31, 2 ** 32, 2 ** 32 - 1,
            I63 - 1, I63, -I63, -I63 - 1, -I63 + 1, 2 ** 64 - 1, 2 ** 64, -2 ** 64, 10 ** 18, 10 ** 19, -10 ** 19, 36 ** 13,
            2 ** 127, -2 ** 200 + 1, 10 ** 60]
    out = list(base)
    while len(out) < count:
        bits = rng.choice([3, 8, 16, 31, 32, 33, 62, 63, 64, 65, 96, 128, 200, 256, 400])
        n = rng.getrandbits(bits) | (1 << (bits - 1) if rng.random() < 0.5 else 0)
        out.append(-n if rng.random() < 0.45 else n)
    return out[:max(count, len(base))]


def case(fam, src, expect=None, m=None, mfmt="{0}", obs="val", nt=True, check=None, **kw):
    d = dict(fam=fam, src=src, expect=expect, m=m or [], mfmt=mfmt, obs=obs, nt=nt, check=check)
    d.update(kw)
    return d


def gen_radix(ctx):
    rng, cases = ctx.rng, []
    ints = gen_ints(ctx, ctx.n(70, 400))
    for k, n in enumerate(ints):
        bases = range(2, 37) if k < ctx.n(34, 120) else rng.sample(range(2, 37), 6)
        for b in bases:
            s = py_str_radix(n, b)
            N = lit(n) if (k + b) % 4 else big_expr(n, k)
            if n >= 0:
                cases.append(case("radix", f"s := str_radix({N}, {b}); [s, int_radix(s, {b})]",
                                  expect=f"ok L[{S(s)},I{n}]", mfmt="L[{0},{1}]",
                                  m=[[f"str_radix {n} {b}", "S"], [f"int_radix {cps(s)} {b}", "I"]], nt=abs(n) >= b))
            else:
                cases.append(case("radix", f"str_radix({N}, {b})", expect=f"ok {S(s)}", m=[[f"str_radix {n} {b}", "S"]]))
    for b in [0, 1, 37, 100, -2, -36, 2 ** 32, 2 ** 32 + 2, 2 ** 40, 2 ** 64 + 10]:
        cases.append(case("radix-badbase", f"str_radix(77, {lit(b)})", expect="err", m=[[f"str_radix 77 {b}", "S"]]))
        cases.append(case("radix-badbase", f'int_radix("11", {lit(b)})', expect="err", m=[[f"int_radix 49,49 {b}", "I"]]))
    for src in ["str_radix(77, 2.5)", 'str_radix("77", 10)', "int_radix(77, 10)", 'int_radix("77", "10")', "str_radix(7.0, 2)"]:
        cases.append(case("radix-badarg", src, expect="err"))
    # int_radix on arbitrary digit strings (either case, junk characters) and on byte strings
    alpha = DIGITS + DIGITS.upper()[10:]
    for _ in range(ctx.n(400, 3000)):
        b = rng.randint(2, 36)
        ln = rng.choice([0, 1, 2, 3, 5, 9, 20, 40])
        pool = alpha[:b] + alpha[36:36 + max(0, b - 10)] if rng.random() < 0.7 else alpha + "-_+ .é𝄞"
        s = "".join(rng.choice(pool) for _ in range(ln))
        v = py_int_radix(s, b)
        exp = "err" if v is None else f"ok I{v}"
        if s.isascii() and rng.random() < 0.3:
            cases.append(case("int_radix", f"int_radix({nbytes(s.encode())}, {b})", expect=exp, m=[[f"int_radix {cps(s)} {b}", "I"]]))
        else:
            cases.append(case("int_radix", f"int_radix({nstr(s)}, {b})", expect=exp, m=[[f"int_radix {cps(s)} {b}", "I"]]))
    return cases


def gen_intstr(ctx):
    rng, cases = ctx.rng, []
    for k, n in enumerate(gen_ints(ctx, ctx.n(150, 1500))):
        t = str(n)
        for N in (lit(n), big_expr(n, k)):
            cases.append(case("int-str", f"x := {N}; [str(x), int(str(x)), number(str(x)), int(\"\" $ x), int(F\"{{x}}\")]",
                              expect=f"ok L[{S(t)},I{n},I{n},I{n},I{n}]", mfmt="L[{0},{1},{2},{1},{1}]",
                              m=[[f"show_int {n}", "S"], [f"int {cps(t)}", "I"], [f"number {cps(t)}", "I"]], nt=abs(n) > 9))
    # arbitrary sign/digit/underscore texts through num-bigint's FromStr
    for _ in range(ctx.n(500, 5000)):
        ln = rng.choice([0, 1, 1, 2, 3, 4, 6, 10, 25])
        pool = rng.choice(["0123456789", "0123456789_", "0123456789_+-", "0123456789_+- aZ.é"])
        s = "".join(rng.choice(pool) for _ in range(ln))
        if rng.random() < 0.4:
            s = rng.choice(["-", "+", "-+", "+-", "++", "--", "-_", "+_"]) + s
        v = py_parse_bigint(s)
        exp = "err" if v is None else f"ok I{v}"
        cases.append(case("int-parse", f"int({nstr(s)})", expect=exp, m=[[f"int {cps(s)}", "I"]]))
        cases.append(case("number-parse", f"number({nstr(s)})", expect=(None if v is None else exp), m=[[f"number {cps(s)}", "I"]]))
    return cases


def gen_decimal_parts(rng):
    sign = rng.choice(["", "", "+", "-", "-", "-"])
    ip = "".join(rng.choice("0123456789") for _ in range(rng.choice([0, 1, 1, 2, 3, 8, 20, 45])))
    if rng.random() < 0.3:
        ip = "0" * rng.randint(1, 3) + ip
    fp = None
    if rng.random() < 0.7 or ip == "":
        fp = "".join(rng.choice("0123456789") for _ in range(rng.choice([0, 1, 1, 2, 3, 8, 20, 45])))
        if ip == "" and fp == "":
            fp = rng.choice("0123456789")
        if rng.random() < 0.3:
            fp = fp + "0" * rng.randint(1, 3)
    ex = None
    if rng.random() < 0.5:
        e = rng.choice([0, 1, -1, 2, -2, 5, -7, 18, -19, 40, -40, rng.randint(-400, 400), rng.randint(-3000, 3000)])
        ex = rng.choice("eE") + ("-" if e < 0 else rng.choice(["", "+"])) + "0" * rng.choice([0, 0, 1, 3]) + str(abs(e))
    else:
        e = 0
    text = sign + ip + ("" if fp is None else "." + fp) + (ex or "")
    digits = int((ip or "0") + (fp or "")) if (ip or fp) else 0
    val = Fraction(digits) * Fraction(10) ** (e - len(fp or ""))
    if sign == "-":
        val = -val
    return text, val


WS = [" ", "  ", "\t", "\n", " ", "　", " \r"]


def gen_rational(ctx):
    rng, cases = ctx.rng, []

    def R(q):
        return f"ok R{q.numerator}/{q.denominator}"

    fixed = ["-1.5", "-0.5", "-.5", "+.5", "-0.0", "-1.", "1.", ".1", "-12.75e1", "-1.5E-3", "-0.5/2", "1/-0.5", "-3/4", "1.5/2.5e1",
             "-.5e1", "-00.250", "+3.14", "42", "-42", "+42", "2e-1", "1.23e-2"]
    for s in fixed:
        v = py_rational(s)
        cases.append(case("rational", f"rational({nstr(s)})", expect=("err" if v is None else R(v)), m=[[f"rational {cps(s)}", "R"]]))
    for _ in range(ctx.n(900, 9000)):
        t, v = gen_decimal_parts(rng)
        shape = rng.random()
        if shape < 0.6:
            s = t
        elif shape < 0.7:
            s = rng.choice(WS) + t + rng.choice(WS)
        else:
            t2, v2 = gen_decimal_parts(rng)
            if rng.random() < 0.08:
                t2, v2 = rng.choice(["0", "0.0", "-0", ".0e5", "0e-3"]), Fraction(0)
            ws = [rng.choice(WS) if rng.random() < 0.3 else "" for _ in range(4)]
            s = ws[0] + t + ws[1] + "/" + ws[2] + t2 + ws[3]
            v = None if v2 == 0 else v / v2
        chk = py_rational(s)
        assert chk == "any" or chk == v, (s, chk, v)
        cases.append(case("rational", f"rational({nstr(s)})", expect=("err" if v is None else R(v)), m=[[f"rational {cps(s)}", "R"]],
                          neg=s.lstrip().startswith("-")))
    # malformed / unusual texts: mutate well-formed ones
    for _ in range(ctx.n(500, 5000)):
        t, _v = gen_decimal_parts(rng)
        if rng.random() < 0.3:
            t = t + "/" + gen_decimal_parts(rng)[0]
        s = list(t)
        for _k in range(rng.choice([1, 1, 2, 3])):
            op = rng.random()
            pos = rng.randint(0, len(s))
            ch = rng.choice("0123456789..eE+-/_ x١")
            if op < 0.45:
                s.insert(pos, ch)
            elif op < 0.75 and s:
                del s[min(pos, len(s) - 1)]
            elif s:
                s[min(pos, len(s) - 1)] = ch
        s = "".join(s)
        if re.search(r"[eE][+-]?[0-9_]*[1-9][0-9_]{4,}", s):
            continue        # keep powers of ten small enough to compute (model runner and implementation alike)
        v = py_rational(s)
        exp = None if v == "any" else ("err" if v is None else R(v))
        cases.append(case("rational-mut", f"rational({nstr(s)})", expect=exp, m=[[f"rational {cps(s)}", "R"]]))
    # i32 exponent edge: answers that need no huge power
    for s in ["1e2147483648", "1e-2147483649", "1e99999999999999999999", "0.5e-2147483648", "0.25e-2147483647", "1.5e", "1e+", "1e-",
              "e5", ".e5", "1e5e5", "1e5.5", "5.e-0", "1/", "/1", "/", "", " ", ".", "-.", "+.", "--1.5", "-+1.5", "+-1.5", "++1.5",
              "1_0.5", "1.5_0", "1._5", "_1.5", "1/0", "1/0.0", "1/-0e9", "0/5", "-0/5", "1 / 2 / 3", "1.2.3", "0x10", "1,5", "½", "１.５"]:
        v = py_rational(s)
        exp = None if v == "any" else ("err" if v is None else R(v))
        cases.append(case("rational-edge", f"rational({nstr(s)})", expect=exp, m=[[f"rational {cps(s)}", "R"]]))
    return cases


def gen_bytes(ctx):
    rng, cases = ctx.rng, []
    blobs = [bytes(rng.getrandbits(8) for _ in range(ln)) for ln in range(0, 65)]
    blobs += [bytes([0] * 7), bytes([255] * 9), bytes(range(256)), b"hello world", bytes([0, 16, 1, 255, 15, 240])]
    for _ in range(ctx.n(30, 600)):
        blobs.append(bytes(rng.choice([0, 1, 15, 16, 127, 128, 254, 255, rng.getrandbits(8)]) for _ in range(rng.randint(0, 64))))
    for b in blobs:
        X = nbytes(b)
        hx = binascii.hexlify(b).decode()
        b64 = base64.b64encode(b).decode()
        mixed = "".join(c.upper() if rng.random() < 0.5 else c for c in hx)
        cases.append(case("hex", f"h := hex_encode({X}); [h, hex_decode(h), hex_decode({nstr(mixed)}), hex_decode({nbytes(mixed.encode())})]",
                          expect=f"ok L[{S(hx)},{B(b)},{B(b)},{B(b)}]", mfmt="L[{0},{1},{2},{2}]",
                          m=[[f"hex_encode {bl(b)}", "S"], [f"hex_decode {cps(hx)}", "B"], [f"hex_decode_str {cps(mixed)}", "B"]], nt=len(b) > 0))
        cases.append(case("base64", f"h := base64_encode({X}); [h, base64_decode(h), base64_decode({nstr(b64)}), base64_decode({nbytes(b64.encode())})]",
                          expect=f"ok L[{S(b64)},{B(b)},{B(b)},{B(b)}]", nt=len(b) > 0))
        if len(b) <= 80:
            cases.append(case("gzip", f"decompress(compress({X}))", expect=f"ok {B(b)}", nt=len(b) > 0))
            cases.append(case("gzip", f"compress({X})", check="gunzip:" + hx, nt=len(b) > 0))
            cases.append(case("gzip", f"decompress({nbytes(gzip.compress(b, mtime=0))})", expect=f"ok {B(b)}", nt=len(b) > 0))
    # malformed hex
    for _ in range(ctx.n(300, 3000)):
        ln = rng.choice([1, 2, 3, 4, 5, 8, 9, 16])
        s = "".join(rng.choice("0123456789abcdefABCDEF" if rng.random() < 0.8 else "gG xX-_:é/@`") for _ in range(ln))
        raw = s.encode()
        v = py_hex_decode(raw)
        exp = "err" if v is None else f"ok {B(v)}"
        if rng.random() < 0.5:
            cases.append(case("hex-bad", f"hex_decode({nstr(s)})", expect=exp, m=[[f"hex_decode_str {cps(s)}", "B"]]))
        else:
            cases.append(case("hex-bad", f"hex_decode({nbytes(raw)})", expect=exp, m=[[f"hex_decode {bl(raw)}", "B"]]))
    for src in ["hex_encode(\"ab\")", "hex_encode([1,2])", "hex_decode(12)", "base64_encode(\"ab\")", "utf8_encode(B[97])", "utf8_decode(\"a\")"]:
        cases.append(case("codec-badarg", src, expect="err"))
    return cases


POOLS = [
    list(range(0x20, 0x7f)),
    [0x0, 0x9, 0xa, 0xd, 0x1f, 0x7f, 0x80, 0x85, 0xa0, 0xff],
    [0xe9, 0xdf, 0x100, 0x3a9, 0x7ff, 0x800, 0x20ac, 0x4e2d, 0xd7ff, 0xe000, 0xfeff, 0xfffd, 0xffff],
    [0x300, 0x301, 0x308, 0x20d7, 0x200d, 0xfe0f, 0x1f3fb, 0xe0100],      # combining marks, ZWJ, variation selectors
    [0x10000, 0x1d11e, 0x1f600, 0x1f468, 0x2f800, 0xfffff, 0x100000, 0x10ffff],
]


def gen_ustr(rng):
    ln = rng.choice([0, 1, 1, 2, 3, 5, 8, 13, 30])
    mix = rng.random()
    out = []
    for _ in range(ln):
        if mix < 0.2:
            pool = POOLS[0]
        elif mix < 0.4:
            pool = rng.choice(POOLS[2:])
        else:
            pool = rng.choice(POOLS)
        if rng.random() < 0.15:
            c = rng.randint(0, 0x10ffff)
            if 0xd800 <= c <= 0xdfff:
                c = 0x1d11e
            out.append(c)
        else:
            out.append(rng.choice(pool))
    return "".join(chr(c) for c in out)


def gen_unicode(ctx):
    rng, cases = ctx.rng, []
    strs = ["", "a", "é", "€", "\U0001d11e", "é́", "́e", "aé\U0001d11eb", "\U0001f468‍\U0001f469‍\U0001f467",
            "\x00", "\x7f\x80", "퟿", "￿\U00010000\U0010ffff"]
    for _ in range(ctx.n(300, 3000)):
        strs.append(gen_ustr(rng))
    for s in strs:
        enc = s.encode("utf-8")
        X = nstr(s, rng)
        cases.append(case("utf8", f"b := utf8_encode({X}); [b, utf8_decode(b), bytes({X}), utf8_decode({nbytes(enc)})]",
                          expect=f"ok L[{B(enc)},{S(s)},{B(enc)},{S(s)}]", mfmt="L[{0},{1},{0},{1}]",
                          m=[[f"utf8_encode {cps(s)}", "B"], [f"utf8_decode {bl(enc)}", "S"]], nt=any(ord(c) > 127 for c in s)))
    # byte strings that may or may not be UTF-8
    special = [[0xc0, 0x80], [0xc1, 0xbf], [0xc2], [0xc2, 0x41], [0xe0, 0x80, 0x80], [0xe0, 0x9f, 0xbf], [0xe0, 0xa0, 0x80], [0xed, 0x9f, 0xbf],
               [0xed, 0xa0, 0x80], [0xed, 0xbf, 0xbf], [0xee, 0x80, 0x80], [0xef, 0xbf, 0xbf], [0xf0, 0x80, 0x80, 0x80], [0xf0, 0x8f, 0xbf, 0xbf],
               [0xf0, 0x90, 0x80, 0x80], [0xf4, 0x8f, 0xbf, 0xbf], [0xf4, 0x90, 0x80, 0x80], [0xf5, 0x80, 0x80, 0x80], [0xf8, 0x88, 0x80, 0x80, 0x80],
               [0x80], [0xbf], [0xfe], [0xff], [0xe2, 0x82], [0xf0, 0x9d, 0x84], [0xe2, 0x82, 0xac, 0x80], [0x41, 0xe2, 0x82, 0xac, 0x42]]
    for _ in range(ctx.n(400, 4000)):
        if rng.random() < 0.5:
            b = list(gen_ustr(rng).encode("utf-8"))
            for _k in range(rng.choice([1, 1, 2])):
                if not b:
                    b = [rng.getrandbits(8)]
                p = rng.randrange(len(b))
                r = rng.random()
                if r < 0.3:
                    del b[p]
                elif r < 0.6:
                    b[p] = rng.choice([0x80, 0xbf, 0xc0, 0xc2, 0xe0, 0xed, 0xf0, 0xf4, 0xf5, 0xff, rng.getrandbits(8)])
                elif r < 0.8:
                    b.insert(p, rng.choice([0x80, 0xbf, 0xa0, 0x9f, 0x90, 0x8f, rng.getrandbits(8)]))
                else:
                    b = b[:p]
        else:
            b = [rng.choice([0x41, 0x7f, 0x80, 0x8f, 0x90, 0x9f, 0xa0, 0xbf, 0xc0, 0xc1, 0xc2, 0xdf, 0xe0, 0xe1, 0xec, 0xed, 0xee, 0xef, 0xf0, 0xf1,
                             0xf3, 0xf4, 0xf5, 0xff]) for _ in range(rng.randint(1, 5))]
        special.append(b)
    for b in special:
        try:
            exp = "ok " + S(bytes(b).decode("utf-8"))
        except UnicodeDecodeError:
            exp = "err"
        cases.append(case("utf8-decode", f"utf8_decode({nbytes(b)})", expect=exp, m=[[f"utf8_decode {bl(b)}", "S"]]))
    # chr / ord
    pts = [0, 1, 0x41, 0x7f, 0x80, 0xff, 0x7ff, 0x800, 0xd7ff, 0xd800, 0xdbff, 0xdc00, 0xdfff, 0xe000, 0xfffd, 0xffff, 0x10000, 0x1d11e,
           0x10ffff, 0x110000, 0x110001, 2 ** 31, 2 ** 32 - 1, 2 ** 32, 2 ** 32 + 65, 2 ** 64 + 65, -1, -65, -2 ** 32 + 65]
    for _ in range(ctx.n(250, 2500)):
        pts.append(rng.choice([rng.randint(0, 0x7ff), rng.randint(0x800, 0xffff), rng.randint(0x10000, 0x10ffff), rng.randint(0xd700, 0xe100),
                               rng.randint(0x10ff00, 0x110100)]))
    for k, n in enumerate(pts):
        ok = 0 <= n <= 0x10ffff and not (0xd800 <= n <= 0xdfff)
        N = lit(n) if k % 3 else big_expr(n, k)
        if ok:
            cases.append(case("chr-ord", f"c := chr({N}); [c, ord(c), chr(ord(c))]", expect=f"ok L[{S(chr(n))},I{n},{S(chr(n))}]",
                              mfmt="L[{0},{1},{0}]", m=[[f"chr {n}", "S"], [f"ord {n}", "I"]], nt=n > 127))
        else:
            cases.append(case("chr-ord", f"chr({N})", expect="err", m=[[f"chr {n}", "S"]]))
    for s in ["", "ab", "é", "\U0001d11e\U0001d11e", "a\U0001d11e"]:
        cases.append(case("chr-ord", f"ord({nstr(s)})", expect="err", m=[[f"ord {cps(s)}", "I"]]))
    return cases


FLOATS = [0.0, -0.0, 1.0, -1.0, 0.1, 0.5, -2.5, 1.5e300, 1e-7, 5e-324, 2.2250738585072014e-308, 1.7976931348623157e308, 1e21, 1e16, 1e15,
          123456789.125, 3.141592653589793, 9007199254740993.0, 1e22, -1e-5, 4.35, 0.30000000000000004]


def gen_json_value(rng, depth, strings):
    r = rng.random()
    if depth <= 0 or r < 0.45:
        k = rng.random()
        if k < 0.12:
            return None
        if k < 0.45:
            return rng.choice([0, 1, -1, 7, -12, 255, 2 ** 31, -2 ** 31, 2 ** 53 + 1, -2 ** 53 - 1, 2 ** 62 + 1, -2 ** 62 - 1, I63 - 1, -I63 + 1, -I63,
                               rng.randint(-I63, I63 - 1), rng.randint(-1000, 1000)])
        if k < 0.7:
            if rng.random() < 0.5:
                return rng.choice(FLOATS)
            x = struct.unpack(">d", struct.pack(">Q", rng.getrandbits(64)))[0]
            return x if x == x and abs(x) != float("inf") else 0.25
        return strings(rng)
    if r < 0.75:
        return [gen_json_value(rng, depth - 1, strings) for _ in range(rng.choice([0, 1, 2, 3, 5]))]
    d = {}
    for _ in range(rng.choice([0, 1, 2, 3, 4])):
        d[strings(rng)] = gen_json_value(rng, depth - 1, strings)
    return d


def printable(rng):
    s = gen_ustr(rng)
    return "".join(c for c in s if ord(c) >= 0x20 and ord(c) != 0x7f and not (0x80 <= ord(c) < 0xa0))


def text_has_exp_plus(text):
    """coverage counter: outside string literals the JSON text contains a number written <digits>e+<digits>
    (what json_encode / Python print for large floats; a parse error as a literal before /repo 8047616)"""
    bare = re.sub(r'"(?:[^"\\]|\\.)*"', '""', text)
    return re.search(r"[0-9][eE]\+[0-9]", bare) is not None


JSON_INTS = sorted({0, 1, -1, 2, 3, -3, 8, 1024, 2 ** 31, -2 ** 31, 2 ** 31 - 1, 2 ** 32, 2 ** 53 - 1, 2 ** 53, 2 ** 53 + 1, -2 ** 53 - 1,
                    -2 ** 53 + 1, 2 ** 62, 2 ** 62 + 1, -2 ** 62 - 1, I63 - 1, -I63 + 1, -I63})


def has_int(v):
    if isinstance(v, int):
        return True
    if isinstance(v, list):
        return any(has_int(x) for x in v)
    if isinstance(v, dict):
        return any(has_int(x) for x in v.values())
    return False


def only_ints_lists(v):
    return v is None or isinstance(v, int) or (isinstance(v, list) and all(only_ints_lists(x) for x in v))


def json_compact(v):
    return json.dumps(v, separators=(",", ":"))


def gen_json_ints(ctx):
    """64-bit integers in BOTH representations, alone and nested: json_encode must write the integer (never a
    float), the text must be what Python writes, and json_decode(json_encode(v)) == v"""
    rng, cases = ctx.rng, []
    ints = list(JSON_INTS)
    for _ in range(ctx.n(25, 300)):
        ints.append(rng.choice([rng.randint(-I63, I63 - 1), rng.randint(-2 ** 54, 2 ** 54), rng.randint(-1000, 1000)]))
    for n in ints:
        for how in SPELLINGS:
            X = spell_int(n, how)
            rep = "S" if how == "lit" else "B"
            cases.append(case("render-probe", f"is_big({X})", nt=False, rep=rep))
            t = json_compact(n)
            tn = json_compact([n, {"k": [n]}])
            cases.append(case("json-int-repr",
                              f"x := {X}; [json_encode(x), json_decode(json_encode(x)) == x, json_decode(json_encode(x)), "
                              f"json_encode([x, {{\"k\": [x]}}]), json_decode(json_encode([x, {{\"k\": [x]}}])) == [x, {{\"k\": [x]}}], "
                              f"json_decode(json_encode({{\"a\": x}}))]",
                              expect=f"ok L[{S(t)},I1,I{n},{S(tn)},I1,D{{S\"a\":I{n}}}]", nt=True, rep=rep, neg=n < 0))
            # str / $ / repr / format of the same value nested in containers
            cases.append(case("render-nested",
                              f"x := {X}; [str([x, [x]]), \"\" $ [x], repr([x, {{\"k\": x}}]), str({{\"k\": x}}), F\"{{[x]}}\", str({{x: x}}), repr(x)]",
                              expect="ok L[" + ",".join(S(z) for z in (f"[{n}, [{n}]]", f"[{n}]", f"[{n}, {{\"k\": {n}}}]", f"{{\"k\": {n}}}", f"[{n}]",
                                                                        f"{{{n}: {n}}}", f"{n}")) + "]", nt=True, rep=rep, neg=n < 0))
    # just outside the 64-bit range json_encode goes through f64 (not part of the property): no crash, and the text is a JSON number
    for n in (I63, -I63 - 1, 2 ** 64, 10 ** 30):
        cases.append(case("json-int-repr", f"json_encode({lit(n)})", check="jsontext:" + canon(float(n)), nt=True))
    return cases


def gen_json(ctx):
    rng, cases = ctx.rng, []
    vals = [None, 0, -1, I63 - 1, -I63, 0.5, -0.0, 1e21, "", "a\"b\\c", [], {}, [[]], {"": {}}, [1, [2, [3, [4, [5]]]]],
            {"a": [1, 2.5, None, "x", {"b": []}]}, [1e16, 5e-324, 1.7976931348623157e308], "é \U0001d11e €", {"ké": "\U0001f600"}]
    for _ in range(ctx.n(250, 2500)):
        vals.append(gen_json_value(rng, rng.choice([1, 2, 3, 4]), printable if rng.random() < 0.7 else gen_ustr))
    for v in vals:
        c = canon(v)
        V = nlit(v, rng)
        pr = all_printable(v)
        nt = isinstance(v, (list, dict)) and len(v) > 0
        cases.append(case("json-roundtrip", f"json_decode(json_encode({V}))", expect=f"ok {c}", nt=nt))
        cases.append(case("json-encode", f"json_encode({V})", check="jsontext:" + c, nt=nt))
        for ea in (True, False):
            cases.append(case("json-decode", f"json_decode({nstr(json.dumps(v, ensure_ascii=ea), rng)})", expect=f"ok {c}", nt=nt))
        cases.append(case("repr-eval", f"repr({V})", check="evalrepr:" + c, nt=nt))
        cases.append(case("literal", V, expect=f"ok {c}", nt=nt))
        if has_int(v):
            # the same value with its integers in the Big representation, and in a random mix of both
            for mode in ("big", "mixed"):
                if mode == "big":
                    sp = lambda n: spell_int(n, rng.choice(SPELLINGS[1:]))
                else:
                    sp = lambda n: spell_int(n, rng.choice(SPELLINGS))
                VB = nlit(v, rng, sp)
                cases.append(case("json-roundtrip", f"v := {VB}; [json_decode(json_encode(v)), json_decode(json_encode(v)) == v]",
                                  expect=f"ok L[{c},I1]", nt=True, rep="B"))
                cases.append(case("json-encode", f"json_encode({VB})", check="jsontext:" + c, nt=True, rep="B"))
                if only_ints_lists(v):
                    cases.append(case("json-encode", f"json_encode({VB})", expect="ok " + S(json_compact(v)), nt=True, rep="B"))
                cases.append(case("repr-eval", f"repr({VB})", check="evalrepr:" + c, nt=True, rep="B"))
                if pr:
                    cases.append(case("json-as-literal", f"json_encode({VB})", check="evaltext:" + c, nt=True, lit=True, rep="B"))
        if pr:
            txt = json.dumps(v, ensure_ascii=False)
            cases.append(case("json-as-literal", txt, expect=f"ok {c}", nt=nt, lit=True))
            cases.append(case("json-as-literal", f"json_encode({V})", check="evaltext:" + c, nt=nt, lit=True))
    for src in ["json_encode(print)", "json_decode(\"[1,\")", "json_decode(\"\")", "json_decode(5)", "json_decode(\"{1:2}\")"]:
        cases.append(case("codec-badarg", src, expect="err"))
    return cases


def all_printable(v):
    if isinstance(v, str):
        return all(ord(c) >= 0x20 and ord(c) != 0x7f and not (0x80 <= ord(c) < 0xa0) for c in v)
    if isinstance(v, list):
        return all(all_printable(x) for x in v)
    if isinstance(v, dict):
        return all(all_printable(k) and all_printable(x) for k, x in v.items())
    return True


FMTS = ["d", "x", "X", "b", "o"]


def gen_render(ctx):
    rng, cases = ctx.rng, []
    ints = [0, 1, -1, 2, -2, 3, -3, 7, -8, 9, 10, -10, 15, 16, -16, 255, -255, 256, 4095, -4096, 2 ** 31, -2 ** 31, 2 ** 32, I63 - 1, -I63 + 1, -I63,
            I63, -I63 - 1, 2 ** 64 - 3, -2 ** 64 + 3, 2 ** 70, -2 ** 70, 10 ** 30, -10 ** 30]
    while len(ints) < ctx.n(120, 1200):
        bits = rng.choice([4, 8, 16, 32, 62, 63, 64, 100])
        n = rng.getrandbits(bits)
        ints.append(-n if rng.random() < 0.5 else n)
    for k, n in enumerate(ints):
        small_ok = -I63 <= n < I63
        reps = [("S", lit(n)), ("B", big_expr(n, 0)), ("B", big_expr(n, 1))] if small_ok else [("B", lit(n))]
        want = [S(py_fmt(n, "d"))] * 3 + [S(py_fmt(n, f)) for f in ("x", "X", "b", "o", "d")]
        for rep, X in reps:
            cases.append(case("render", f"x := {X}; [str(x), \"\" $ x, F\"{{x}}\", F\"{{x #x}}\", F\"{{x #X}}\", F\"{{x #b}}\", F\"{{x #o}}\", F\"{{x #d}}\"]",
                              expect="ok L[" + ",".join(want) + "]",
                              mfmt="L[{0},{0},{0},{1},{2},{3},{4},{0}]",
                              m=[[f"fmt {f} {rep} {n}", "S"] for f in FMTS], nt=n < 0 or n > 9, neg=n < 0, rep=rep))
            # which representation the spelling really produced is recorded (coverage), never judged
            cases.append(case("render-probe", f"is_big({X})", nt=False, rep=rep))
            cases.append(case("render-print", f"print({X}); write({X}); echo({X}); print([{X}], {X})", obs="out",
                              expect="ok O" + json.dumps(f"{n}\n{n}{n}[{n}] {n}\n"), m=[[f"fmt d {rep} {n}", "S"]],
                              mfmt="O{0}\\n{0}{0}[{0}] {0}\\n", nt=n < 0 or n > 9, rep=rep))
        if small_ok:
            f, al = rng.choice(FMTS), rng.choice("<>^")
            width = rng.choice([0, 1, 3, 8, 12, 20, 70])
            zero = rng.random() < 0.5
            flag = ("0" if zero else "") + (str(width) if width else "") + {"<": "<", ">": rng.choice(["", ">"]), "^": "^"}[al] + ("" if f == "d" and rng.random() < 0.5 else f)
            if not zero and width == 0:
                flag = flag or "d"
            want = S(py_pad(py_fmt(n, f), "0" if zero else " ", width, al))
            cases.append(case("render-pad", f"a := {lit(n)}; b := {big_expr(n, k)}; [F\"{{a #{flag}}}\", F\"{{b #{flag}}}\"]",
                              expect=f"ok L[{want},{want}]", mfmt="L[{0},{1}]",
                              m=[[f"fmtpad {f} S {n} {48 if zero else 32} {width} {al}", "S"], [f"fmtpad {f} B {n} {48 if zero else 32} {width} {al}", "S"]],
                              neg=n < 0))
    return cases


def gen_cases(ctx):
    cases = []
    for g in (gen_radix, gen_intstr, gen_rational, gen_bytes, gen_unicode, gen_json, gen_json_ints, gen_render):
        cases += g(ctx)
    return cases


# ----------------------------------------------------------------------------- evaluation
def from_cps(t):
    return "" if t == "_" else "".join(chr(int(x)) for x in t.split(","))


def conv_model(res, typ):
    """model answer -> canonical text; 'err' / 'panic' / None (no opinion)"""
    if res in ("err", "panic", "fuel"):
        return res
    if res == "float":
        return None
    if not res.startswith("ok "):
        return "model-broken:" + res
    body = res[3:]
    if typ == "S":
        return S(from_cps(body))
    if typ == "B":
        return "B[" + ("" if body == "_" else body) + "]"
    if typ == "I":
        return "I" + body
    if typ == "R":
        return "R" + body
    raise ValueError(typ)


def model_expected(c, results):
    parts = []
    for (line, typ), res in zip(c["m"], results):
        v = conv_model(res, typ)
        if v is None:
            return None
        if v in ("err", "panic", "fuel") or v.startswith("model-broken"):
            return v
        parts.append(v)
    fm = c["mfmt"]
    if fm.startswith("O"):
        inner = [unesc(p[2:-1]) for p in parts]
        return "ok O" + json.dumps(fm[1:].replace("\\n", "\n").format(*inner))
    return "ok " + fm.format(*parts)


def observed(c, r):
    st = r.get("status")
    if st == "ok":
        if c["obs"] == "out":
            return "ok O" + json.dumps(r.get("out", ""))
        return "ok " + r["val"]
    if st == "err":
        return "err"
    return st


def deep_json_canon(text):
    return canon(json.loads(text))


def followup_needed(c, obs):
    ck = c.get("check")
    if ck and ck.split(":", 1)[0] in ("evalrepr", "evaltext") and obs.startswith('ok S"'):
        return unesc(obs[5:-1])
    return None


def check_custom(c, obs, follow):
    """returns (ok, detail) for cases with a custom predicate"""
    kind, arg = c["check"].split(":", 1)
    if kind == "gunzip":
        if not obs.startswith("ok B["):
            return False, "compress did not return bytes"
        body = obs[5:-1]
        raw = bytes(int(x) for x in body.split(",")) if body else b""
        try:
            return gzip.decompress(raw) == binascii.unhexlify(arg), "python gzip.decompress of the output"
        except Exception as e:
            return False, f"python could not gunzip the output: {e}"
    if kind == "jsontext":
        if not obs.startswith('ok S"'):
            return False, "json_encode did not return a string"
        try:
            return deep_json_canon(unesc(obs[5:-1])) == arg, "python json.loads of the output"
        except Exception as e:
            return False, f"python could not parse the output: {e}"
    if kind in ("evalrepr", "evaltext"):
        if follow is None:
            return False, "no text to evaluate"
        return follow == "ok " + arg, f"evaluating the produced text gave {follow[:200]}"
    raise ValueError(kind)


def evaluate(ctx, cases, runner):
    res = common.run_prog([c["src"] for c in cases], timeout=20.0)
    mlines = [line for c in cases for (line, _t) in c["m"]]
    mres = common.run_model(runner, mlines) if (runner and mlines) else [None] * len(mlines)
    # second phase: texts produced by repr / json_encode, evaluated as programs
    follow_idx, follow_src = [], []
    for i, (c, r) in enumerate(zip(cases, res)):
        c["impl"] = observed(c, r)
        c["impl_msg"] = r.get("msg")
        t = followup_needed(c, c["impl"])
        if t is not None:
            follow_idx.append(i)
            follow_src.append(t)
    fres = common.run_prog(follow_src, timeout=20.0) if follow_src else []
    follow = {}
    for i, t, r in zip(follow_idx, follow_src, fres):
        follow[i] = ("ok " + r["val"]) if r.get("status") == "ok" else r.get("status")
        cases[i]["follow_src"] = t
        cases[i]["follow_status"] = r.get("status")
    bad, k = [], 0
    for i, c in enumerate(cases):
        obs = c["impl"]
        n = len(c["m"])
        mod = model_expected(c, mres[k:k + n]) if (runner and n) else None
        k += n
        c["model_says"] = mod
        crashed = obs in ("panic", "hang", "abort", "badjson") or (obs == "parse" and c["fam"] not in ("json-as-literal",) and not c["src"].startswith("rational"))
        if c["fam"] == "render-probe":
            continue
        if c.get("check"):
            ok, detail = check_custom(c, obs, follow.get(i))
            c["check_detail"] = detail
            if crashed or not ok:
                bad.append(("property", c))
            continue
        if crashed or obs == "parse" or (c["expect"] is not None and obs != c["expect"]):
            bad.append(("property", c))
        elif mod is not None and obs != mod:
            bad.append(("correspondence", c))
    return bad


KEEP = ("fam", "src", "expect", "m", "mfmt", "obs", "nt", "check", "lit")


def report(ctx, bad):
    seen = {}
    for kind, c in bad:
        key = (kind, c["fam"], c.get("neg"), c.get("rep"))
        seen[key] = seen.get(key, 0) + 1
        if seen[key] > 1:
            continue
        replay = {"case": {k: c.get(k) for k in KEEP}, "program": c["src"], "implementation": c["impl"], "implementation_msg": c.get("impl_msg"),
                  "python_oracle": c["expect"] if not c.get("check") else c["check"][:300], "coq_model": c.get("model_says"),
                  "check_detail": c.get("check_detail"), "followup_program": c.get("follow_src")}
        if kind == "property":
            replay["what"] = "the implementation's answer differs from the independently computed (Python) value for this input, or it crashed"
            ctx.violation("property", replay, found=True)
        else:
            replay["what"] = ("correspondence Text/*.v <-> implementation no longer checks on this input; the Python oracle accepts (or has no "
                              "opinion on) the implementation's answer, so no input violating the property statement was found")
            ctx.violation("correspondence", replay, found=False)
    return seen


def run(ctx):
    runner = common.standard_prelude(ctx)
    cases = gen_cases(ctx)
    bad = evaluate(ctx, cases, runner)
    seen = report(ctx, bad)
    release_checked = 0
    if not ctx.quick():
        # the baseline is a debug build (overflow panics); a release build must give the same answers
        okr, outr = common.build_harness(release=True)
        if okr:
            sub = [c for c in cases if not c.get("check") and (c["fam"].startswith("rational") or c["fam"] in ("render", "radix", "int-str"))]
            sub = sub[::max(1, len(sub) // 6000)]
            rres = common.run_prog([c["src"] for c in sub], timeout=20.0, release=True)
            rbad = []
            for c, r in zip(sub, rres):
                o = observed(c, r)
                release_checked += 1
                if o != c["impl"]:
                    c2 = dict(c)
                    c2["impl"], c2["impl_msg"], c2["fam"] = o, r.get("msg"), c["fam"] + "/release"
                    rbad.append(("property" if (c["expect"] is not None and o != c["expect"]) or o in ("panic", "hang", "abort") else "correspondence", c2))
            seen.update(report(ctx, rbad))
        else:
            common.log("[C16] release harness did not build: " + outr[-500:])
    fams = sorted({c["fam"] for c in cases})
    nt = {c["src"] for c in cases if c["nt"]}
    ctx.coverage.update({
        "evaluations": len(cases) + sum(1 for c in cases if c.get("follow_src") is not None),
        "distinct_nontrivial": len(nt),
        "rule": "one evaluation = one Noulith program run on the implementation (most programs make 3-9 observations: encode, decode, round trip, "
                "both integer representations, five bases) plus the model lines and the Python oracle for it; texts produced by repr/json_encode and "
                "evaluated again count once more. distinct = distinct program text; non-trivial = the generator's flag: multi-digit or negative "
                "integer, non-empty byte string, string with a non-ASCII character, non-empty JSON container, any generated decimal/malformed text "
                "(i.e. not one of the one-digit / empty / ASCII-only inputs the repository's tests use)",
        "samples": [{"program": c["src"][:300], "implementation": c["impl"][:300], "coq_model": (c.get("model_says") or "")[:300],
                     "oracle": (c["expect"] or c.get("check") or "")[:300]} for c in cases[::max(1, len(cases) // 16)]][:16],
        "by_family": {f: sum(1 for c in cases if c["fam"] == f) for f in fams},
        "impl_outcomes": {o: sum(1 for c in cases if c["impl"].split(" ")[0] == o) for o in ("ok", "err", "parse", "panic", "hang", "abort")},
        "model_compared": sum(1 for c in cases if c.get("model_says") is not None),
        "model_lines": sum(len(c["m"]) for c in cases),
        "oracle_compared": sum(1 for c in cases if c["expect"] is not None or c.get("check")),
        "negative_rationals": sum(1 for c in cases if c["fam"] == "rational" and c.get("neg")),
        "big_representation_renders": sum(1 for c in cases if c.get("rep") == "B" and c["fam"] in ("render", "render-nested")),
        "big_representation_json": sum(1 for c in cases if c.get("rep") == "B" and c["fam"].startswith(("json", "repr-eval"))),
        "representation_confirmed_by_is_big": {
            "spelled_big_and_is_big": sum(1 for c in cases if c["fam"] == "render-probe" and c.get("rep") == "B" and c["impl"] == "ok I1"),
            "spelled_small_and_not_big": sum(1 for c in cases if c["fam"] == "render-probe" and c.get("rep") == "S" and c["impl"] == "ok I0"),
            "probes": sum(1 for c in cases if c["fam"] == "render-probe")},
        "disagreements_by_kind": {f"{k[0]}/{k[1]}": v for k, v in seen.items()},
        "release_build_cross_checked": release_checked,
        "json_literal_texts_with_e_plus_exponent": sum(1 for c in cases if c.get("lit") and text_has_exp_plus(c.get("follow_src") or c["src"])),
        "programs_with_e_plus_float_literal": sum(1 for c in cases if c["fam"] in ("json-roundtrip", "json-encode", "repr-eval", "literal") and text_has_exp_plus(c["src"])),
    })
    ctx.assumptions += ["BigInt/Ratio<BigInt> arithmetic of num-bigint/num-rational is exact (Z, Q)",
                        "str::find/trim/strip_prefix, char::to_digit/from_digit/from_u32, String::from_utf8 mean what the model says",
                        "base64, flate2, serde_json and the Noulith parser are not modelled: implementation vs Python only",
                        "Rust strings/byte vectors are shorter than 2^63 (lengths are nat in the model)"]
    return common.conclude(ctx)


def replay(ctx, rep):
    runner = common.standard_prelude(ctx)
    c = dict(rep["case"])
    c["m"] = [tuple(x) for x in c.get("m") or []]
    bad = evaluate(ctx, [c], runner)
    report(ctx, bad)
    print(json.dumps({"program": c["src"], "implementation": c.get("impl"), "oracle": c.get("expect") or c.get("check"),
                      "model": c.get("model_says"), "followup": c.get("follow_src")}))
    return 1 if bad else 0
