"""C12 - patterns, destructuring, switch and runtime type annotations.

Correspondence: pattern x value cases (switch / catch / lambda call / declaration contexts), `v is T`
tables and statement histories on annotated variables are run through the implementation (bin/prog)
and through the extracted Coq model (Lang/Types.v, Lang/Pattern.v, Lang/Store.v).  Independent
oracle (Python, written from the property statement, not from the model): `recon` checks that a set of
printed bindings reconstructs the matched value (sequence -> list, splat spliced, `h .+ t` -> prepend,
`n + k` -> sum, ...) and that every annotation holds; `py_is_type` is the table of `v is T`; for
histories the oracle is the in-language read of `x is T` after every statement (the property itself).
"""
import json, struct
from fractions import Fraction
import common

ID = "C12"
MANIFEST = dict(
    technique="Coq proof about a Gallina model of assign/assign_all/destructure/is_type/typed store (unbounded patterns, values, histories) "
              "+ correspondence model/implementation on pattern x value grids and annotated-variable histories, Python reconstruction oracle",
    text="Machine-checked theorems (Coq 8.16, no axioms) about the Gallina transcription of eval.rs assign/assign_all/assign_all_basic, the "
         "builtins' destructure functions, is_type/type_of/to_type, switch/catch/call arm selection and the typed variable store: binding never "
         "panics (the usize subtractions of assign_all are checked operations), a successful match binds names so that reading the pattern back "
         "(sequence as list with the splat spliced in, operator/struct patterns through their constructor) gives the matched value, sequence "
         "patterns succeed exactly on the right lengths, `or`/`and`/literals behave as stated, switch takes the first matching arm and raises "
         "otherwise (comparison-chain patterns match iff every link holds; n + k and k * n invert on all exact numbers; a sequence pattern "
         "with trailing defaults denotes the value extended by the defaults that filled in; a modelled conversion T(v) that returns lands in T), "
         "is_type (type_of v) v and is_type Any v hold for every value, and after every non-raising operation of any history on a "
         "variable declared x : T the stored value satisfies T. The model is tied to /repo on every run by differential runs on generated "
         "pattern x value cases (all pattern constructors, depth <= 3, a 34-value pool incl. struct instances and satisfying types) and on "
         "statement histories, with `x is T` read in-language after each statement.",
    note="Trusted: Coq kernel; hand-written model (tie to code = differential testing); extraction + OCaml runner (float arithmetic of the "
         "operator patterns is OCaml doubles); Rust harness; Python oracle. Patterns are modelled after evaluation (annotation/default "
         "expressions are values), names are declared in one scope; indexed lvalues only through the list case of set_index. "
         "Conversions: modelled in Lang/Convert.v except string parsing/formatting and float rounding (those are checked in-language "
         "only, `T(v) is T`); float->int of non-finite values is C07's F16 and skipped. Dictionaries with more than one entry are not destructured (hash order).",
    design="6-C12")

# ----------------------------------------------------------------------------- values
STRUCTS = {0: ("Foo", 2), 1: ("Bar", 1)}
PRELUDE = "struct Foo(bar, baz); struct Bar(qux)"
NAN_BITS = 0x7ff8000000000000


def f2bits(x):
    return struct.unpack(">Q", struct.pack(">d", x))[0]


def bits2f(b):
    return struct.unpack(">d", struct.pack(">Q", b))[0]


def is_nan_bits(b):
    return (b >> 52) & 0x7ff == 0x7ff and b & ((1 << 52) - 1) != 0


def I(z): return ("int", z)
def R(n, d): return ("rat", n, d)
def F(x): return ("flt", f2bits(x))
def S(s): return ("str", s)
def L(*xs): return ("list", list(xs))
def D(*kvs): return ("dict", list(kvs))
def Vc(*xs): return ("vec", list(xs))
def B(*xs): return ("bytes", list(xs))
def T(*xs): return ("stream", list(xs))
def X(sid, *fs): return ("inst", sid, list(fs))
NULL = ("null",)
NAN = ("flt", NAN_BITS)


def int_src(z):
    return str(z) if z >= 0 else f"(0-{-z})"


def num_src(n):
    t = n[0]
    if t == "int":
        return int_src(n[1])
    if t == "rat":
        return f"({int_src(n[1])}/{n[2]})"
    if t == "flt":
        b = n[1]
        if is_nan_bits(b):
            return "(0.0/0.0)"
        f = bits2f(b)
        if f == float("inf"):
            return "(1.0/0.0)"
        if f == float("-inf"):
            return "(0.0-1.0/0.0)"
        r = repr(f)
        return r if f >= 0 else f"(0.0-{repr(-f)})"
    if t == "cpx":
        return f"({repr(bits2f(n[1]))}+{repr(bits2f(n[2]))}*1i)"
    raise ValueError(n)


def v_src(v):
    t = v[0]
    if t == "null":
        return "null"
    if t in ("int", "rat", "flt", "cpx"):
        return num_src(v)
    if t == "str":
        return json.dumps(v[1], ensure_ascii=False)
    if t == "list":
        return "[" + ", ".join(v_src(x) for x in v[1]) + "]"
    if t == "dict":
        return "{" + ", ".join(f"{v_src(k)}: {v_src(w)}" for k, w in v[1]) + "}"
    if t == "vec":
        return "V(" + ", ".join(num_src(x) for x in v[1]) + ")"
    if t == "bytes":
        return "B[" + ", ".join(str(x) for x in v[1]) + "]"
    if t == "stream":
        xs = v[1]
        assert xs and all(x == I(xs[0][1] + i) for i, x in enumerate(xs)), "streams in the pool are integer ranges"
        return f"({xs[0][1]} to {xs[-1][1]})"
    if t == "inst":
        return STRUCTS[v[1]][0] + "(" + ", ".join(v_src(x) for x in v[2]) + ")"
    if t == "func":
        return v[1]
    if t == "type":
        return ty_src(v[1])
    raise ValueError(v)


SATS = {0: "satisfying(1 < _ < 9)", 1: "satisfying(\\x -> x)", 2: "satisfying(\\x -> len(x) == 2)", 3: "satisfying(\\x -> x != 5)"}
BASIC_TYPES = ["nulltype", "int", "rational", "float", "complex", "number", "str", "list", "dict", "vector", "bytes",
               "stream", "func", "type", "anything"]


def ty_src(t):
    if isinstance(t, str):
        return "type(Foo(0, 0))" if t == "struct_instance" else t
    if t[0] == "struct":
        return STRUCTS[t[1]][0]
    if t[0] == "sat":
        return SATS[t[1]]
    raise ValueError(t)


def ty_model(t):
    if isinstance(t, str):
        return t
    return f"{t[0]} {t[1]}"


def num_model(n):
    t = n[0]
    if t == "int":
        return f"int {n[1]}"
    if t == "rat":
        return f"rat {n[1]} {n[2]}"
    if t == "flt":
        return f"flt {n[1]}"
    return f"cpx {n[1]} {n[2]}"


def v_model(v):
    t = v[0]
    if t == "null":
        return "null"
    if t in ("int", "rat", "flt", "cpx"):
        return num_model(v)
    if t == "str":
        return f"str {len(v[1])} " + " ".join(str(ord(c)) for c in v[1])
    if t in ("list", "stream"):
        return f"{t} {len(v[1])} " + " ".join(v_model(x) for x in v[1])
    if t == "dict":
        return f"dict {len(v[1])} " + " ".join(v_model(k) for k, _ in v[1]) + " " + " ".join(v_model(w) for _, w in v[1])
    if t == "vec":
        return f"vec {len(v[1])} " + " ".join(num_model(x) for x in v[1])
    if t == "bytes":
        return f"bytes {len(v[1])} " + " ".join(str(x) for x in v[1])
    if t == "inst":
        return f"inst {v[1]} {len(v[2])} " + " ".join(v_model(x) for x in v[2])
    if t == "func":
        return "func 0"
    if t == "type":
        return "type " + ty_model(v[1])
    raise ValueError(v)


def esc(s):
    out = []
    for c in s:
        o = ord(c)
        if c == "\\":
            out.append("\\\\")
        elif c == '"':
            out.append('\\"')
        elif c == "\n":
            out.append("\\n")
        elif o < 0x20 or o == 0x7f:
            out.append("\\u{%x}" % o)
        else:
            out.append(c)
    return "".join(out)


def canon_num(n):
    t = n[0]
    if t == "int":
        return f"I{n[1]}"
    if t == "rat":
        return f"R{n[1]}/{n[2]}"
    if t == "flt":
        return "Fnan" if is_nan_bits(n[1]) else "F%016x" % n[1]
    p = lambda b: "nan" if is_nan_bits(b) else "%016x" % b
    return f"C{p(n[1])},{p(n[2])}"


def canon(v):
    t = v[0]
    if t == "null":
        return "N"
    if t in ("int", "rat", "flt", "cpx"):
        return canon_num(v)
    if t == "str":
        return 'S"' + esc(v[1]) + '"'
    if t == "list":
        return "L[" + ",".join(canon(x) for x in v[1]) + "]"
    if t == "stream":
        return "T[" + ",".join(canon(x) for x in v[1]) + "]"
    if t == "dict":
        return "D{" + ",".join(sorted(f"{canon(k)}:{canon(w)}" for k, w in v[1])) + "}"
    if t == "vec":
        return "V[" + ",".join(canon_num(x) for x in v[1]) + "]"
    if t == "bytes":
        return "B[" + ",".join(str(x) for x in v[1]) + "]"
    if t == "inst":
        return "X" + STRUCTS[v[1]][0] + "(" + ",".join(canon(x) for x in v[2]) + ")"
    return "Fn"


class CanonParser:
    """canonical text (harness/src/lib.rs canon) -> python value"""

    def __init__(self, s):
        self.s, self.i = s, 0

    def peek(self):
        return self.s[self.i] if self.i < len(self.s) else ""

    def eat(self, c):
        assert self.s.startswith(c, self.i), (self.s, self.i, c)
        self.i += len(c)

    def until(self, stops):
        j = self.i
        while j < len(self.s) and self.s[j] not in stops:
            j += 1
        r = self.s[self.i:j]
        self.i = j
        return r

    def items(self, close, f):
        out = []
        if self.peek() == close:
            self.eat(close)
            return out
        while True:
            out.append(f())
            if self.peek() == ",":
                self.eat(",")
            else:
                self.eat(close)
                return out

    def num(self):
        c = self.peek()
        if c == "I":
            self.eat("I")
            return I(int(self.until(",]})/:")))
        if c == "R":
            self.eat("R")
            n = int(self.until("/"))
            self.eat("/")
            return R(n, int(self.until(",]}):")))
        if c == "F":
            self.eat("F")
            if self.s.startswith("nan", self.i):
                self.eat("nan")
                return NAN
            if self.s.startswith("n", self.i):  # "Fn" is a function
                self.eat("n")
                return ("func", "?")
            h = self.s[self.i:self.i + 16]
            self.i += 16
            return ("flt", int(h, 16))
        if c == "C":
            self.eat("C")
            def part():
                if self.s.startswith("nan", self.i):
                    self.eat("nan")
                    return NAN_BITS
                h = self.s[self.i:self.i + 16]
                self.i += 16
                return int(h, 16)
            a = part()
            self.eat(",")
            return ("cpx", a, part())
        raise ValueError((self.s, self.i))

    def val(self):
        c = self.peek()
        if c == "N":
            self.eat("N")
            return NULL
        if c in "IRFC":
            return self.num()
        if c == "S":
            self.eat('S"')
            out = []
            while self.peek() != '"':
                ch = self.peek()
                if ch == "\\":
                    self.i += 1
                    e = self.peek()
                    if e == "n":
                        out.append("\n")
                        self.i += 1
                    elif e == "u":
                        self.eat("u{")
                        out.append(chr(int(self.until("}"), 16)))
                        self.eat("}")
                    else:
                        out.append(e)
                        self.i += 1
                else:
                    out.append(ch)
                    self.i += 1
            self.eat('"')
            return S("".join(out))
        if c == "L":
            self.eat("L[")
            return ("list", self.items("]", self.val))
        if c == "T":
            self.eat("T[")
            return ("stream", self.items("]", self.val))
        if c == "V":
            self.eat("V[")
            return ("vec", self.items("]", self.num))
        if c == "B":
            self.eat("B[")
            return ("bytes", self.items("]", lambda: int(self.until(",]"))))
        if c == "D":
            self.eat("D{")
            def kv():
                k = self.val()
                self.eat(":")
                return (k, self.val())
            return ("dict", self.items("}", kv))
        if c == "X":
            self.eat("X")
            name = self.until("(")
            self.eat("(")
            sid = [k for k, (n, _) in STRUCTS.items() if n == name][0]
            return ("inst", sid, self.items(")", self.val))
        raise ValueError((self.s, self.i))


def parse_canon(s):
    p = CanonParser(s)
    v = p.val()
    assert p.i == len(s), (s, p.i)
    return v


# ----------------------------------------------------------------------------- python semantics (oracle side)
class Incomparable(Exception):
    pass


def real_of(n):
    """exact value of a real number: Fraction, or 'nan' / '+inf' / '-inf'"""
    t = n[0]
    if t == "int":
        return Fraction(n[1])
    if t == "rat":
        return Fraction(n[1], n[2])
    if t == "flt":
        if is_nan_bits(n[1]):
            return "nan"
        f = bits2f(n[1])
        if f in (float("inf"), float("-inf")):
            return "+inf" if f > 0 else "-inf"
        return Fraction(f)
    raise ValueError(n)


def reals(n):
    if n[0] == "cpx":
        return real_of(("flt", n[1])), real_of(("flt", n[2]))
    return real_of(n), Fraction(0)


def xcmp(a, b):
    if a == "nan" or b == "nan":
        return None
    rank = lambda x: (-1, 0) if x == "-inf" else (1, 0) if x == "+inf" else (0, x)
    ra, rb = rank(a), rank(b)
    return (ra > rb) - (ra < rb)


def num_eq(a, b):
    (r1, i1), (r2, i2) = reals(a), reals(b)
    return xcmp(r1, r2) == 0 and xcmp(i1, i2) == 0


def num_cmp(a, b):
    (r1, i1), (r2, i2) = reals(a), reals(b)
    c = xcmp(r1, r2)
    return xcmp(i1, i2) if c == 0 else c


NUMS = ("int", "rat", "flt", "cpx")
SEQS = ("str", "list", "dict", "vec", "bytes", "stream")


def py_eq(a, b):
    """Noulith == (impl PartialEq for Obj), written from the language's documented meaning"""
    ta, tb = a[0], b[0]
    if ta in NUMS and tb in NUMS:
        return num_eq(a, b)
    if ta != tb:
        return False
    if ta == "null":
        return True
    if ta in ("str", "bytes"):
        return a[1] == b[1]
    if ta == "list":
        return len(a[1]) == len(b[1]) and all(py_eq(x, y) for x, y in zip(a[1], b[1]))
    if ta == "vec":
        return len(a[1]) == len(b[1]) and all(num_eq(x, y) for x, y in zip(a[1], b[1]))
    if ta == "dict":
        if len(a[1]) != len(b[1]):
            return False
        for k, w in a[1]:
            m = [w2 for k2, w2 in b[1] if py_eq(k, k2)]
            if not m or not py_eq(w, m[0]):
                return False
        return True
    if ta == "inst":
        return a[1] == b[1] and len(a[2]) == len(b[2]) and all(py_eq(x, y) for x, y in zip(a[2], b[2]))
    return False  # functions, types, streams are never equal


def py_elements(v):
    t = v[0]
    if t in ("list", "stream"):
        return list(v[1])
    if t == "str":
        return [S(c) for c in v[1]]
    if t == "dict":
        return [k for k, _ in v[1]]
    if t == "vec":
        return list(v[1])
    if t == "bytes":
        return [I(b) for b in v[1]]
    return None


def py_type_name(v):
    t = v[0]
    return {"null": "nulltype", "int": "int", "rat": "rational", "flt": "float", "cpx": "complex", "str": "str",
            "list": "list", "dict": "dict", "vec": "vector", "bytes": "bytes", "stream": "stream",
            "inst": "struct_instance", "func": "func", "type": "type"}[t]


def py_vcmp(a, b):
    ta, tb = a[0], b[0]
    if ta == "null" and tb == "null":
        return 0
    if ta in NUMS and tb in NUMS:
        return num_cmp(a, b)
    if ta != tb:
        return None
    if ta == "str":
        x, y = [ord(c) for c in a[1]], [ord(c) for c in b[1]]
        return (x > y) - (x < y)
    if ta == "bytes":
        return (a[1] > b[1]) - (a[1] < b[1])
    if ta in ("list", "vec"):
        f = py_vcmp if ta == "list" else num_cmp
        for x, y in zip(a[1], b[1]):
            c = f(x, y)
            if c != 0:
                return c
        return (len(a[1]) > len(b[1])) - (len(a[1]) < len(b[1]))
    return None


def py_ncmp(a, b):
    ok = (a[0] in NUMS and b[0] in NUMS) or (a[0] in SEQS and b[0] in SEQS)
    c = py_vcmp(a, b) if ok else None
    if c is None:
        raise Incomparable()
    return c


def py_truthy(v):
    t = v[0]
    if t == "null":
        return False
    if t in NUMS:
        return not num_eq(v, I(0)) if not (t == "flt" and is_nan_bits(v[1])) else True
    if t in SEQS:
        return len(v[1]) > 0
    return True


def py_sat(pid, v):
    """the four predicates; raises Incomparable when the predicate itself raises"""
    if pid == 0:
        return py_ncmp(I(1), v) < 0 and py_ncmp(v, I(9)) < 0
    if pid == 1:
        return py_truthy(v)
    if pid == 2:
        if v[0] not in SEQS:
            raise Incomparable()
        n = len(v[1].encode()) if v[0] == "str" else len(v[1])
        return n == 2
    if pid == 3:
        return not py_eq(v, I(5))
    if pid == 4:
        return v[0] == "list" and (len(v[1]) == 0 or not py_eq(v[1][0], I(5)))
    raise ValueError(pid)


def py_is_type(t, v):
    """`v is T` as the property states it: T is what type(v) / the constructor reports, number covers
    every numeric kind, func covers types, anything covers everything"""
    if isinstance(t, tuple):
        if t[0] == "struct":
            return v[0] == "inst" and v[1] == t[1]
        return py_sat(t[1], v)
    if t == "anything":
        return True
    if t == "number":
        return v[0] in NUMS
    if t == "func":
        return v[0] in ("func", "type")
    return py_type_name(v) == t


def py_to_type(a):
    if a == NULL:
        return "nulltype"
    if a[0] == "type":
        return a[1]
    return None


def exact(n):
    return n[0] in ("int", "rat")


def mk_exact(q, force_rat):
    q = Fraction(q)
    if not force_rat and q.denominator == 1:
        return I(q.numerator)
    return R(q.numerator, q.denominator)


def as_float(n):
    if n[0] == "flt":
        return bits2f(n[1])
    return float(real_of(n))


def py_destructure(b, v, args):
    """the inverse of the operator, from the property statement; returns the list the argument patterns
    are matched against, or None when the pattern does not apply"""
    kind = b[0]
    known = [a[1] if a[0] == "lit" else None for a in args]
    if kind in ("plus", "times"):
        if len(args) != 2 or v[0] not in NUMS:
            return None
        if known[0] is not None and known[1] is None:
            k, pos = known[0], 0
        elif known[1] is not None and known[0] is None:
            k, pos = known[1], 1
        else:
            return None
        if k[0] not in NUMS or v[0] == "cpx" or k[0] == "cpx":
            return None if k[0] not in NUMS else "skip"
        if exact(v) and exact(k):
            fr = v[0] == "rat" or k[0] == "rat"
            if kind == "plus":
                d = real_of(v) - real_of(k)
                if d < 0:
                    return None
                other = mk_exact(d, fr)
            else:
                if real_of(k) == 0:
                    return None
                q = real_of(v) / real_of(k)
                if q.denominator != 1:
                    return None
                other = mk_exact(q, fr)
        else:
            x, y = as_float(v), as_float(k)
            if kind == "plus":
                d = x - y
                if not d >= 0:
                    return None
                other = F(d)
            else:
                import math
                if y == 0:
                    return None
                r = math.fmod(x, y) if not (math.isinf(x) or math.isnan(x) or math.isnan(y)) else float("nan")
                if r != 0:
                    return None
                q = x / y
                other = F(float(math.floor(q)) if not math.isinf(q) else q)
        return [k, other] if pos == 0 else [other, k]
    if kind == "minus":
        if len(args) != 1:
            return None
        def neg(n):
            if n[0] == "int":
                return I(-n[1])
            if n[0] == "rat":
                return R(-n[1], n[2])
            if n[0] == "flt":
                return ("flt", n[1] ^ (1 << 63))
            return ("cpx", n[1] ^ (1 << 63), n[2] ^ (1 << 63))
        if v[0] in NUMS:
            return [neg(v)]
        if v[0] == "vec":
            return [("vec", [neg(x) for x in v[1]])]
        return None
    if kind == "divide":
        if not exact(v):
            return None
        q = real_of(v)
        return [I(q.numerator), I(q.denominator)]
    if kind in ("append", "prepend"):
        t = v[0]
        if t not in SEQS or len(v[1]) == 0:
            return None
        if t == "dict":
            if len(v[1]) > 1:
                return "skip"
            (k, w), = v[1]
            e, rest = L(k, w), D()
            return [e, rest] if kind == "prepend" else [rest, e]
        es = py_elements(v)
        if kind == "prepend":
            rest = (t, v[1][1:])
            return [es[0], rest]
        rest = ("list" if t == "stream" else t, v[1][:-1])
        return [rest, es[-1]]
    if kind == "cmp":
        ops = b[1]
        if len(ops) + 1 != len(args):
            return None
        slots = sum(1 for k in known if k is None)
        if slots == 0:
            return None
        if slots == 1:
            rv = [v]
        else:
            rv = py_elements(v)
            if rv is None:
                return None
            if v[0] == "dict" and len(rv) > 1:
                return "skip"
        if len(rv) != slots:
            return None
        rv = list(rv)
        ret = [k if k is not None else rv.pop(0) for k in known]
        try:
            for op, x, y in zip(ops, ret, ret[1:]):
                if op == "eq":
                    ok = py_eq(x, y)
                elif op == "ne":
                    ok = not py_eq(x, y)
                else:
                    c = py_ncmp(x, y)
                    ok = {"lt": c < 0, "gt": c > 0, "le": c <= 0, "ge": c >= 0}[op]
                if not ok:
                    return None
        except Incomparable:
            return None
        return ret
    return None  # any other builtin cannot destructure


class Skip(Exception):
    """the oracle has no opinion (hash order, complex arithmetic)"""


def is_splat(p):
    return p[0] == "splat" or (p[0] == "ann" and p[1][0] == "splat")


def recon_seq(ps, es, beta, rt):
    nsplat = sum(1 for p in ps if is_splat(p))
    if nsplat > 1:
        return False
    # defaults fill missing trailing items: a default at non-splat position j is used iff j >= len(es)
    j = 0
    fill = []
    for p in ps:
        if is_splat(p):
            continue
        if p[0] == "def" and j >= len(es):
            fill.append(p[2])
        j += 1
    rhs = list(es) + fill
    nfix = len(ps) - nsplat
    if nsplat == 0:
        if len(rhs) != nfix:
            return False
        return all(recon(p, v, beta, rt) for p, v in zip(ps, rhs))
    if len(rhs) < nfix:
        return False
    si = [i for i, p in enumerate(ps) if is_splat(p)][0]
    nback = len(ps) - si - 1
    front, mid, back = rhs[:si], rhs[si:len(rhs) - nback], rhs[len(rhs) - nback:]
    sp = ps[si]
    if sp[0] == "ann":
        t = "anything" if sp[2] is None else py_to_type(sp[2])
        if t is None:
            return False
        inner, srt = sp[1][1], t
    else:
        inner, srt = sp[1], rt
    return (all(recon(p, v, beta, rt) for p, v in zip(ps[:si], front)) and recon(inner, ("list", mid), beta, srt)
            and all(recon(p, v, beta, rt) for p, v in zip(ps[si + 1:], back)))


def recon(p, v, beta, rt="anything"):
    """do the bindings `beta` reconstruct `v` through pattern `p`, with every annotation satisfied?
    rt: the declared type in force (None: plain assignment)"""
    k = p[0]
    def typed(val):
        if rt is None:
            return True
        try:
            return py_is_type(rt, val)
        except Incomparable:
            return False
    if k == "wild":
        return typed(v)
    if k == "var":
        return p[1] in beta and canon(beta[p[1]]) == canon(v) and typed(v)
    if k == "ann":
        t = "anything" if p[2] is None else py_to_type(p[2])
        return t is not None and recon(p[1], v, beta, t)
    if k == "def":
        return recon(p[1], v, beta, rt)
    if k == "splat":
        return False
    if k == "seq":
        if p[2]:
            if not typed(v):
                return False
            rt = "anything" if rt is not None else None
        es = py_elements(v)
        if es is None:
            return False
        if v[0] == "dict" and len(es) > 1:
            raise Skip()
        if v[0] == "str" and not v[1].isascii():
            pass
        return recon_seq(p[1], es, beta, rt)
    if k == "or":
        return recon(p[1], v, beta, rt) or recon(p[2], v, beta, rt)
    if k == "and":
        return recon(p[1], v, beta, rt) and recon(p[2], v, beta, rt)
    if k == "lit":
        return py_eq(p[1], v)
    if k == "destr":
        res = py_destructure(p[1], v, p[2])
        if res == "skip":
            raise Skip()
        return res is not None and len(res) == len(p[2]) and recon_seq(p[2], res, beta, rt)
    if k == "pstruct":
        return v[0] == "inst" and v[1] == p[1] and recon_seq(p[2], v[2], beta, rt)
    raise ValueError(p)


# ----------------------------------------------------------------------------- patterns
def PV(x): return ("var", x)
WILD = ("wild",)
def PA(p, a=None): return ("ann", p, a)
def PD(p, d): return ("def", p, d)
def PS(ps, delim=False): return ("seq", list(ps), delim)
def PSp(p): return ("splat", p)
def POr(a, b): return ("or", a, b)
def PAnd(a, b): return ("and", a, b)
def PL(v): return ("lit", v)
def PDe(b, args): return ("destr", b, list(args))
def PSt(sid, args): return ("pstruct", sid, list(args))
def TY(t): return ("type", t)


def lit_src(v):
    if v[0] == "int" and v[1] >= 0:
        return str(v[1])
    if v[0] == "str":
        return v_src(v)
    if v[0] == "null":
        return "null"
    return f"(literally ({v_src(v)}))"


OPSYM = {"lt": "<", "gt": ">", "le": "<=", "ge": ">=", "eq": "==", "ne": "!="}


def p_src(p):
    k = p[0]
    if k == "wild":
        return "_"
    if k == "var":
        return f"zz{p[1]}"
    if k == "ann":
        return f"({p_src(p[1])}:)" if p[2] is None else f"({p_src(p[1])}: {v_src(p[2])})"
    if k == "def":
        return f"({p_src(p[1])} = {v_src(p[2])})"
    if k == "seq":
        inner = ", ".join(p_src(q) for q in p[1])
        if p[2]:
            return f"[{inner}]"
        assert p[1], "empty undelimited sequence has no syntax"
        return f"({inner},)" if len(p[1]) == 1 else f"({inner})"
    if k == "splat":
        return f"...{p_src(p[1])}"
    if k == "or":
        return f"({p_src(p[1])} or {p_src(p[2])})"
    if k == "and":
        return f"({p_src(p[1])} and {p_src(p[2])})"
    if k == "lit":
        return lit_src(p[1])
    if k == "destr":
        b, args = p[1], p[2]
        a = [p_src(q) for q in args]
        sym = {"plus": "+", "times": "*", "divide": "/", "append": "+.", "prepend": ".+"}
        if b[0] in sym and len(a) == 2:
            return f"({a[0]} {sym[b[0]]} {a[1]})"
        if b[0] == "minus" and len(a) == 1:
            return f"(-({a[0]}))"  # call syntax: `- X` would chain with what follows
        if b[0] == "cmp" and len(a) == len(b[1]) + 1:
            out = a[0]
            for op, x in zip(b[1], a[1:]):
                out += f" {OPSYM[op]} {x}"
            return f"({out})"
        name = {"plus": "+", "minus": "-", "times": "*", "divide": "/", "append": "append", "prepend": "prepend",
                "other": "first"}.get(b[0])
        assert name and b[0] != "cmp", p
        return f"{name}({', '.join(a)})"
    if k == "pstruct":
        return STRUCTS[p[1]][0] + "(" + ", ".join(p_src(q) for q in p[2]) + ")"
    raise ValueError(p)


def p_model(p):
    k = p[0]
    if k == "wild":
        return "wild"
    if k == "var":
        return f"var {p[1]}"
    if k == "ann":
        return f"ann {p_model(p[1])} " + ("none" if p[2] is None else "some " + v_model(p[2]))
    if k == "def":
        return f"def {p_model(p[1])} {v_model(p[2])}"
    if k == "seq":
        return f"seq {1 if p[2] else 0} {len(p[1])} " + " ".join(p_model(q) for q in p[1])
    if k == "splat":
        return "splat " + p_model(p[1])
    if k in ("or", "and"):
        return f"{k} {p_model(p[1])} {p_model(p[2])}"
    if k == "lit":
        return "lit " + v_model(p[1])
    if k == "destr":
        b = p[1]
        bm = b[0] if b[0] != "cmp" else f"cmp {b[1][0]} {len(b[1]) - 1} " + " ".join(b[1][1:])
        return f"destr {bm} {len(p[2])} " + " ".join(p_model(q) for q in p[2])
    if k == "pstruct":
        return f"pstruct {p[1]} {len(p[2])} " + " ".join(p_model(q) for q in p[2])
    raise ValueError(p)


def p_vars(p, acc=None):
    acc = [] if acc is None else acc
    k = p[0]
    if k == "var":
        if p[1] not in acc:
            acc.append(p[1])
    elif k in ("ann", "def", "splat"):
        p_vars(p[1], acc)
    elif k == "seq":
        for q in p[1]:
            p_vars(q, acc)
    elif k in ("or", "and"):
        p_vars(p[1], acc)
        p_vars(p[2], acc)
    elif k in ("destr", "pstruct"):
        for q in p[2]:
            p_vars(q, acc)
    return acc


def p_kinds(p, acc):
    acc.add(p[0] if p[0] != "destr" else "destr:" + p[1][0])
    k = p[0]
    if k in ("ann", "def", "splat"):
        p_kinds(p[1], acc)
    elif k == "seq":
        for q in p[1]:
            p_kinds(q, acc)
    elif k in ("or", "and"):
        p_kinds(p[1], acc)
        p_kinds(p[2], acc)
    elif k in ("destr", "pstruct"):
        for q in p[2]:
            p_kinds(q, acc)
    return acc


def p_depth(p):
    k = p[0]
    if k in ("ann", "def", "splat"):
        return 1 + p_depth(p[1])
    if k == "seq":
        return 1 + max([p_depth(q) for q in p[1]] + [0])
    if k in ("or", "and"):
        return 1 + max(p_depth(p[1]), p_depth(p[2]))
    if k in ("destr", "pstruct"):
        return 1 + max([p_depth(q) for q in p[2]] + [0])
    return 0


# ----------------------------------------------------------------------------- pool and generators
POOL = [
    NULL, I(0), I(1), I(5), I(7), I(-3), I(2 ** 70), R(1, 2), R(7, 3), F(1.5), F(2.0), NAN, F(float("inf")),
    ("cpx", f2bits(1.0), f2bits(2.0)),
    S(""), S("a"), S("abc"), S("héé"), S("é"), S("éa"), S("aé"), S("中文"), S("𝄞x"), S("e\u0301a"), S("\u0301"),
    L(), L(I(1)), L(I(1), I(2)), L(I(1), I(2), I(3)), L(I(1), L(I(2), I(3))), L(L(I(1), I(2)), L(I(3), I(4))),
    L(S("a"), I(1)), L(I(5), I(5)), L(I(1), I(2), I(3), I(4), I(5)),
    D(), D((I(1), I(2))), Vc(I(1), I(2)), B(1, 2), T(I(1), I(2), I(3)),
    X(0, I(1), I(2)), X(1, I(3)), X(0, I(1), L(I(2), I(3))),
    ("func", "print"), TY("int"),
]
ALL_TYPES = BASIC_TYPES + ["struct_instance", ("struct", 0), ("struct", 1), ("sat", 0), ("sat", 1), ("sat", 2), ("sat", 3)]
LIT_POOL = [NULL, I(0), I(1), I(2), I(5), I(-3), R(1, 2), F(2.0), S("a"), S("abc"), L(I(1), I(2)), L(), X(1, I(3)), NAN, S("é"), S("文")]
ANN_POOL = [TY(t) for t in ALL_TYPES] + [NULL, I(7)]


class Fresh:
    def __init__(self):
        self.n = 0

    def var(self):
        self.n += 1
        return PV(self.n - 1)


def gen_pat(rng, depth, fr, in_seq=False):
    """random pattern, nesting <= depth"""
    leaf = depth <= 0 or rng.random() < 0.25
    if leaf:
        r = rng.random()
        if r < 0.5:
            return fr.var() if rng.random() < 0.9 or fr.n == 0 else PV(rng.randrange(fr.n))
        if r < 0.65:
            return WILD
        return PL(rng.choice(LIT_POOL))
    r = rng.random()
    sub = lambda: gen_pat(rng, depth - 1, fr)
    if r < 0.28:
        return gen_seq(rng, depth, fr)
    if r < 0.40:
        return PA(sub(), rng.choice([None] + ANN_POOL) if rng.random() < 0.9 else None)
    if r < 0.47:
        return POr(sub(), sub())
    if r < 0.53:
        return PAnd(sub(), sub())
    if r < 0.60:
        sid = rng.choice([0, 1])
        n = STRUCTS[sid][1] if rng.random() < 0.8 else rng.randrange(0, 4)
        return PSt(sid, gen_items(rng, depth - 1, fr, n))
    if r < 0.68:
        return PDe((rng.choice(["prepend", "append"]),), [sub(), sub()])
    if r < 0.76:
        k = PL(rng.choice([I(0), I(1), I(2), I(-3), R(1, 2), F(2.0), S("a")]))
        args = [sub(), k] if rng.random() < 0.6 else [k, sub()]
        if rng.random() < 0.08:
            args = [sub(), sub()]
        return PDe((rng.choice(["plus", "plus", "times"]),), args)
    if r < 0.82:
        return PDe(("minus",), [sub()])
    if r < 0.88:
        return PDe(("divide",), [sub(), sub()])
    if r < 0.97:
        nops = rng.choice([1, 1, 2, 2, 3])
        ops = [rng.choice(["lt", "le", "gt", "ge", "eq", "ne"]) for _ in range(nops)]
        args = []
        for i in range(nops + 1):
            args.append(PL(rng.choice([I(0), I(1), I(5), I(9), R(1, 2), S("a")])) if rng.random() < 0.55 else sub())
        return PDe(("cmp", ops), args)
    return PDe(("other",), [sub()])


def gen_items(rng, depth, fr, n):
    """n items of a sequence-like context: at most (usually) one splat, defaults mostly trailing"""
    items = [gen_pat(rng, depth, fr) for _ in range(n)]
    if n and rng.random() < 0.45:
        i = rng.randrange(n)
        inner = fr.var() if rng.random() < 0.8 else gen_pat(rng, depth - 1, fr)
        sp = PSp(inner)
        if rng.random() < 0.3:
            sp = PA(sp, rng.choice([None, TY("list"), TY("int"), TY("anything")]))
        items[i] = sp
        if rng.random() < 0.05:
            items[rng.randrange(n)] = PSp(fr.var())
    if n and rng.random() < 0.35:
        nd = rng.randrange(1, min(n, 2) + 1)
        for i in range(n - nd, n):
            if not is_splat(items[i]):
                items[i] = PD(items[i], rng.choice(LIT_POOL[:9]))
    if n and rng.random() < 0.06:
        i = rng.randrange(n)
        if not is_splat(items[i]):
            items[i] = PD(items[i], I(9))
    return items


def gen_seq(rng, depth, fr):
    delim = rng.random() < 0.4
    n = rng.choice([0, 1, 2, 2, 3, 3, 4]) if delim else rng.choice([1, 2, 2, 3, 3, 4])
    return PS(gen_items(rng, depth - 1, fr, n), delim)


def seq_grid():
    """systematic sequence shapes: number of patterns x splat position x trailing defaults"""
    out = []
    for n in range(0, 5):
        for si in [None] + list(range(n)):
            for nd in range(0, 3):
                items = []
                for i in range(n):
                    if i == si:
                        items.append(PSp(PV(i)))
                    else:
                        items.append(PV(i))
                k = 0
                for i in range(n - 1, -1, -1):
                    if k < nd and i != si:
                        items[i] = PD(items[i], I(90 + i))
                        k += 1
                if k < nd:
                    continue
                for delim in (False, True):
                    if n == 0 and not delim:
                        continue
                    out.append(PS(items, delim))
    return out


SEQ_VALUES = [L(), L(I(1)), L(I(1), I(2)), L(I(1), I(2), I(3)), L(I(1), I(2), I(3), I(4)), L(I(1), I(2), I(3), I(4), I(5)),
              S("ab"), S("héé"), S("éa"), S("中文"), S("𝄞x"), S("aé"), S(""), Vc(I(1), I(2), I(3)), B(7, 8), T(I(1), I(2), I(3)), D((I(1), I(2))), I(5), NULL]


# ----------------------------------------------------------------------------- cases
def body_for(vars_):
    return "[" + ", ".join(f'try zz{x} catch _ -> "?"' for x in vars_) + "]"


def mk_switch(arms, v):
    vs = []
    for a in arms:
        for x in p_vars(a):
            if x not in vs:
                vs.append(x)
    src = f"switch ({v_src(v)}) " + " ".join(f"case {p_src(a)} -> [{i}, {body_for(vs)}]" for i, a in enumerate(arms))
    model = f"switch {len(arms)} " + " ".join(p_model(a) for a in arms) + " " + v_model(v)
    return dict(ctx="switch", arms=arms, v=v, vars=vs, src=src, model=model)


def mk_catch(p, v):
    vs = p_vars(p)
    src = f"try (try (throw {v_src(v)}) catch {p_src(p)} -> [0, {body_for(vs)}]) catch _ -> \"rethrown\""
    return dict(ctx="catch", arms=[p], v=v, vars=vs, src=src, model=f"catch {p_model(p)} {v_model(v)}")


def mk_call(params, args):
    vs = []
    for a in params:
        for x in p_vars(a):
            if x not in vs:
                vs.append(x)
    ps = ", ".join(p_src(a) for a in params)
    src = f"(\\{ps} -> [0, {body_for(vs)}])(...{v_src(('list', args))})"
    model = f"call {len(params)} " + " ".join(p_model(a) for a in params) + f" {len(args)} " + " ".join(v_model(a) for a in args)
    return dict(ctx="call", arms=[PS(params)] if params else [PS([], True)], v=("list", args), vars=vs, src=src, model=model)


def mk_for(p, v):
    vs = p_vars(p)
    src = f"(for ({p_src(p)} <- [{v_src(v)}]) yield [0, {body_for(vs)}])[0]"
    return dict(ctx="for", arms=[p], v=v, vars=vs, src=src, model=f"catch {p_model(p)} {v_model(v)}")


def mk_decl(items, v):
    """`p1, p2 := V`: every top-level item is annotated with the empty annotation by the parser"""
    vs = []
    for a in items:
        for x in p_vars(a):
            if x not in vs:
                vs.append(x)
    pat = PS([PA(a, None) for a in items])
    lhs = ", ".join(p_src(a) for a in items) + ("," if len(items) == 1 else "")
    src = f"{lhs} := {v_src(v)}; [0, {body_for(vs)}]"
    return dict(ctx="decl", arms=[pat], v=v, vars=vs, src=src, model=f"decl {p_model(pat)} {v_model(v)}")


def has_lit(p):
    return "lit" in p_kinds(p, set())


def gen_cases(ctx):
    rng = ctx.rng
    cases = []
    # A. systematic sequence shapes x sequence values (the boundaries of assign_all)
    for p in seq_grid():
        for v in SEQ_VALUES:
            cases.append(mk_switch([p], v))
    for p in seq_grid()[::3]:
        if p[1] and not p[2]:
            for v in SEQ_VALUES[:6]:
                cases.append(mk_call(p[1], v[1]))
                cases.append(mk_decl(p[1], v))
    # B. every single-constructor pattern against the whole pool
    singles = [PV(0), WILD, PA(PV(0)), PS([PV(0), PV(1)]), PS([PV(0), PSp(PV(1))]), PS([PSp(PV(0)), PV(1)], True),
               POr(PL(I(1)), PV(0)), PAnd(PV(0), PV(1)), POr(PS([PV(0), PL(I(3))]), PS([PV(1), PL(I(2))])),
               POr(PS([PV(0), PL(I(3))]), PS([PV(0), PL(I(2))])),
               PDe(("prepend",), [PV(0), PV(1)]), PDe(("append",), [PV(0), PV(1)]),
               PDe(("plus",), [PV(0), PL(I(1))]), PDe(("plus",), [PL(I(2)), PV(0)]), PDe(("plus",), [PV(0), PL(R(1, 2))]),
               PDe(("plus",), [PV(0), PL(F(0.5))]), PDe(("times",), [PL(I(2)), PV(0)]), PDe(("times",), [PV(0), PL(R(1, 2))]),
               PDe(("times",), [PV(0), PL(I(0))]), PDe(("times",), [PL(R(0, 1)), PV(0)]), PDe(("times",), [PV(0), PL(F(0.0))]),
               PDe(("minus",), [PV(0)]), PDe(("minus",), [PL(I(3))]), PDe(("divide",), [PV(0), PV(1)]),
               PDe(("divide",), [PV(0), PL(I(2))]), PDe(("cmp", ["lt", "lt"]), [PL(I(1)), PV(0), PL(I(9))]),
               PDe(("cmp", ["lt"]), [PV(0), PV(1)]), PDe(("cmp", ["le", "ne"]), [PL(I(0)), PV(0), PL(I(5))]),
               PDe(("cmp", ["eq"]), [PV(0), PL(I(5))]), PDe(("cmp", ["gt"]), [PV(0), PL(S("a"))]),
               PDe(("other",), [PV(0)]), PSt(0, [PV(0), PV(1)]), PSt(1, [PV(0)]), PSt(0, [PV(0)]), PSt(0, [PV(0), PSp(PV(1))]),
               PSt(0, [PL(I(1)), PV(0)]), PS([], True), PS([PV(0)]), PSp(PV(0)), PD(PV(0), I(4))]
    singles += [PL(l) for l in LIT_POOL]
    singles += [PA(PV(0), a) for a in ANN_POOL] + [PA(WILD, TY(t)) for t in ALL_TYPES]
    singles += [PA(PS([PV(0), PV(1)]), TY("int")), PA(PS([PV(0), PV(1)], True), TY("list")), PA(PS([PV(0), PV(1)], True), TY("int")),
                PS([PV(0), PA(PSp(PV(1)), TY("list"))]), PS([PV(0), PA(PSp(PV(1)), TY("int"))]), PS([PV(0), PA(PSp(PV(1)), None)]),
                PS([PV(0), PA(PSp(PV(1)), I(3))]), PS([PV(0), PV(0)]), PS([PV(0), PA(PD(PV(1), I(3)), TY("int"))]),
                PS([PV(0), PD(PA(PV(1), TY("str")), I(3))]), PS([PD(PV(0), I(1)), PV(1)])]
    for p in singles:
        for v in POOL:
            cases.append(mk_switch([p], v))
    for p in singles[:40]:
        for v in POOL[::3]:
            cases.append(mk_catch(p, v))
            if not has_lit(p):
                cases.append(mk_for(p, v))
    # B2. strings unpack by CHARACTER: non-ASCII strings through every binding form
    nonascii = [S("é"), S("éa"), S("aé"), S("中文"), S("𝄞x"), S("x𝄞"), S("e\u0301a"), S("\u0301"), S("héé"), S("")]
    strpats = [PDe(("prepend",), [PV(0), PV(1)]), PDe(("append",), [PV(0), PV(1)]),
               PDe(("prepend",), [PV(0), PDe(("prepend",), [PV(1), PV(2)])]),
               PDe(("append",), [PDe(("append",), [PV(0), PV(1)]), PV(2)]),
               PS([PV(0), PSp(PV(1))]), PS([PSp(PV(0)), PV(1)]), PS([PV(0), PV(1)]), PS([PV(0)], True),
               PS([PV(0), PSp(PV(1)), PV(2)], True)]
    for v in nonascii:
        for p in strpats:
            cases.append(mk_switch([p], v))
            cases.append(mk_catch(p, v))
            cases.append(mk_for(p, v))
            cases.append(mk_call([p], [v]))
            cases.append(mk_decl([p], v))
    # C. random nested patterns (depth <= 3) against pool values, 1-3 arms
    nrand = ctx.n(2600, 30000)
    for _ in range(nrand):
        fr = Fresh()
        narms = rng.choice([1, 1, 1, 2, 3])
        arms = [gen_pat(rng, rng.choice([1, 2, 2, 3]), fr) for _ in range(narms)]
        v = rng.choice(POOL)
        r = rng.random()
        if narms == 1 and r < 0.08:
            cases.append(mk_catch(arms[0], v))
        elif narms == 1 and r < 0.16 and not has_lit(arms[0]):
            cases.append(mk_for(arms[0], v))
        elif narms == 1 and r < 0.30 and arms[0][0] == "seq" and arms[0][1] and py_elements(v) is not None and v[0] != "dict" and not has_lit(arms[0]):
            cases.append(mk_call(arms[0][1], py_elements(v)))
        elif narms == 1 and r < 0.42 and arms[0][0] == "seq" and arms[0][1] and not arms[0][2] and not has_lit(arms[0]):
            cases.append(mk_decl(arms[0][1], v))
        else:
            cases.append(mk_switch(arms, v))
    return cases


# ----------------------------------------------------------------------------- evaluation

def run_progs(progs, timeout=10.0):
    """run_prog, then re-run alone and with a long limit every case that hit the per-case wall-clock
    limit: on a loaded machine a worker can be starved; only a repeatable hang is an observation"""
    res = common.run_prog(progs, timeout=timeout)
    def hung(r):
        return r.get("status") in ("hang", "abort") or any(x.get("status") in ("hang", "abort") for x in r.get("results", []))
    idx = [i for i, r in enumerate(res) if hung(r)]
    for i in idx[:50]:
        res[i] = common.run_prog([progs[i]], timeout=120.0)[0]
    return res


def observed_match(c, r):
    """('ok', arm, {var: value}) | ('err',) | (crash status,)"""
    if "results" in r:
        rs = r["results"]
        if any(x.get("status") in ("panic", "hang", "abort", "badjson") for x in rs):
            return ("panic",)
        r = rs[-1]
    st = r.get("status")
    if st in ("panic", "hang", "abort", "parse", "badjson"):
        return (st,)
    if st != "ok":
        return ("err",)
    if r["val"] == 'S"rethrown"':
        return ("err",)
    v = parse_canon(r["val"])
    arm = v[1][0][1]
    beta = {}
    for x, b in zip(c["vars"], v[1][1][1]):
        if not (b[0] == "str" and b[1] == "?"):
            beta[x] = b
    return ("ok", arm, beta)


def model_match(c, line):
    """same shape as observed_match from the model runner's line"""
    if line is None:
        return None
    parts = line.split(" ", 1)
    if parts[0] in ("err", "panic", "fuel"):
        return (parts[0],)
    if parts[0] != "ok":
        return ("bad", line)
    rest = parts[1] if len(parts) > 1 else ""
    if c["ctx"] == "switch":
        a, _, rest = rest.partition(" ")
        arm = int(a)
    else:
        arm = 0
    beta = {}
    if rest.strip():
        for item in split_store(rest):
            x, _, val = item.partition("=")
            beta[int(x)] = parse_canon(val)
    return ("ok", arm, beta)


def split_store(s):
    """split 'x=<canon>;y=<canon>' at top-level semicolons (strings may contain ';')"""
    out, cur, instr, i = [], [], False, 0
    while i < len(s):
        ch = s[i]
        if instr:
            cur.append(ch)
            if ch == "\\":
                cur.append(s[i + 1])
                i += 1
            elif ch == '"':
                instr = False
        elif ch == '"':
            instr = True
            cur.append(ch)
        elif ch == ";":
            out.append("".join(cur))
            cur = []
        else:
            cur.append(ch)
        i += 1
    if cur:
        out.append("".join(cur))
    return out


def same_match(a, b):
    if a[0] != b[0]:
        return False
    if a[0] != "ok":
        return True
    return a[1] == b[1] and {k: canon(v) for k, v in a[2].items()} == {k: canon(v) for k, v in b[2].items()}


def top_rt(c):
    return None if c["ctx"] == "decl" else "anything"


def oracle_match(c, obs, mod):
    """'ok' | 'bad:<why>' | 'any' for the implementation's observation, by reconstruction"""
    try:
        if obs[0] == "ok":
            arm = c["arms"][obs[1]]
            if not recon(arm, c["v"], obs[2], top_rt(c)):
                return "bad:bindings do not reconstruct the value / an annotation does not hold"
            if mod is not None and mod[0] == "ok" and mod[1] < obs[1]:
                if recon(c["arms"][mod[1]], c["v"], mod[2], top_rt(c)):
                    return "bad:an earlier arm matches (first-match)"
            return "ok"
        if obs[0] == "err":
            if mod is not None and mod[0] == "ok" and recon(c["arms"][mod[1]], c["v"], mod[2], top_rt(c)):
                dup = len(set(all_var_occurrences(c["arms"][mod[1]]))) != len(all_var_occurrences(c["arms"][mod[1]]))
                if not dup:
                    return "bad:a consistent binding exists but the implementation raised"
            return "any"
    except Skip:
        return "any"
    return "bad:crash"


def all_var_occurrences(p):
    k = p[0]
    if k == "var":
        return [p[1]]
    if k in ("ann", "def", "splat"):
        return all_var_occurrences(p[1])
    if k == "seq":
        return [x for q in p[1] for x in all_var_occurrences(q)]
    if k in ("or", "and"):
        return all_var_occurrences(p[1]) + all_var_occurrences(p[2])
    if k in ("destr", "pstruct"):
        return [x for q in p[2] for x in all_var_occurrences(q)]
    return []


def skip_case(c):
    """inputs outside C12's scope (stated in MANIFEST note)"""
    kinds = set()
    for a in c["arms"]:
        p_kinds(a, kinds)
    v = c["v"]
    def has(v, pred):
        if pred(v):
            return True
        t = v[0]
        if t in ("list", "stream"):
            return any(has(x, pred) for x in v[1])
        if t == "inst":
            return any(has(x, pred) for x in v[2])
        return False
    # ordering comparisons against NaN/inf/complex: C08's subject
    if any(k.startswith("destr:cmp") for k in kinds) or ("sat", 0) in ann_types(c):
        if has(v, lambda x: x[0] == "cpx" or (x[0] == "flt" and (is_nan_bits(x[1]) or bits2f(x[1]) in (float("inf"), float("-inf"))))):
            return "ordering with nan/inf/complex (C08)"
    if ("destr:plus" in kinds or "destr:times" in kinds) and has(v, lambda x: x[0] == "cpx"):
        return "complex arithmetic (C07)"
    return None


def ann_types(c):
    out = set()
    def walk(p):
        k = p[0]
        if k == "ann":
            if p[2] is not None and p[2][0] == "type" and isinstance(p[2][1], tuple):
                out.add(p[2][1])
            walk(p[1])
        elif k in ("def", "splat"):
            walk(p[1])
        elif k == "seq":
            [walk(q) for q in p[1]]
        elif k in ("or", "and"):
            walk(p[1]); walk(p[2])
        elif k in ("destr", "pstruct"):
            [walk(q) for q in p[2]]
    for a in c["arms"]:
        walk(a)
    return out


def evaluate_matches(ctx, cases, runner):
    progs = [[PRELUDE, c["src"]] for c in cases]
    res = run_progs(progs)
    mres = common.run_model(runner, [c["model"] for c in cases]) if runner else [None] * len(cases)
    bad = []
    stats = {"ok": 0, "err": 0, "parse": 0, "skipped": 0, "crash": 0, "model_compared": 0}
    for c, r, m in zip(cases, res, mres):
        obs = observed_match(c, r)
        c["impl"] = obs
        mod = model_match(c, m)
        c["model_says"] = mod
        if obs[0] == "parse":
            stats["parse"] += 1
            c["parse_msg"] = (r.get("results") or [r])[-1].get("msg", "")[:200]
            continue
        why = skip_case(c)
        if obs[0] in ("panic", "hang", "abort", "badjson"):
            stats["crash"] += 1
            bad.append(("property", c, r, "the implementation panicked / did not return"))
            continue
        if why:
            stats["skipped"] += 1
            continue
        stats[obs[0]] += 1
        orc = oracle_match(c, obs, mod)
        c["oracle"] = orc
        if orc.startswith("bad"):
            bad.append(("property", c, r, orc[4:]))
        elif mod is not None:
            stats["model_compared"] += 1
            if mod[0] in ("bad", "panic", "fuel") or not same_match(obs, mod):
                bad.append(("correspondence", c, r, "model and implementation differ; the reconstruction oracle accepts the implementation's answer"))
    return bad, stats


def show_match(m):
    if m is None:
        return None
    if m[0] != "ok":
        return list(m)
    return ["ok", m[1], {f"zz{k}": canon(v) for k, v in m[2].items()}]


def report(ctx, bad, limit=6):
    seen = set()
    for kind, c, r, why in bad:
        key = (kind, c.get("ctx"), why[:40])
        if key in seen or len(seen) >= limit:
            continue
        seen.add(key)
        replay = {"case": {k: c[k] for k in c if k in ("ctx", "arms", "v", "vars", "src", "model", "stmts", "kind", "t", "tys", "steps")},
                  "program": c.get("src") or c.get("stmts"), "implementation": show_match(c.get("impl")) if isinstance(c.get("impl"), tuple) else c.get("impl"),
                  "coq_model": show_match(c.get("model_says")) if isinstance(c.get("model_says"), tuple) else c.get("model_says"),
                  "oracle": c.get("oracle"), "what": why}
        ctx.violation(kind, replay, found=(kind == "property"))


# ----------------------------------------------------------------------------- `is` tables
def gen_is_cases():
    cases = []
    for v in POOL:
        for t in ALL_TYPES:
            cases.append(dict(kind="is", v=v, t=t, src=f"({v_src(v)}) is {ty_src(t)}", model=f"istype {ty_model(t)} {v_model(v)}"))
        cases.append(dict(kind="is_type_of", v=v, t=None, src=f"zzv := {v_src(v)}; zzv is type(zzv)", model=None))
        cases.append(dict(kind="is_null", v=v, t="nulltype", src=f"({v_src(v)}) is null", model=f"is {v_model(v)} null"))
        cases.append(dict(kind="typeof", v=v, t=None, src=f"zzv := {v_src(v)}; [" + ", ".join(f"type(zzv) == {ty_src(t)}" for t in BASIC_TYPES) + "]", model=f"typeof {v_model(v)}"))
    return cases


def evaluate_is(ctx, cases, runner):
    res = run_progs([[PRELUDE, c["src"]] for c in cases])
    ml = [c["model"] for c in cases if c["model"]]
    mres = iter(common.run_model(runner, ml)) if runner else iter([])
    bad = []
    n = 0
    for c, r in zip(cases, res):
        rr = r["results"][-1] if "results" in r else r
        st = rr.get("status")
        obs = "ok " + rr["val"] if st == "ok" else ("err" if st == "err" else st)
        c["impl"] = obs
        mod = next(mres) if (c["model"] and runner) else None
        c["model_says"] = mod
        n += 1
        if st in ("panic", "hang", "abort", "parse", "badjson"):
            bad.append(("property", c, r, f"`is` did not return normally: {st}"))
            continue
        if c["kind"] == "is_type_of":
            c["oracle"] = "ok I1"
            if obs != "ok I1":
                bad.append(("property", c, r, "v is type(v) must be true for every value"))
            continue
        if c["kind"] == "typeof":
            # type(v) == T is never true (types are functions and functions are never ==): only the model's name is compared below
            names = BASIC_TYPES
            c["oracle"] = py_type_name(c["v"])
            if mod is not None and mod != py_type_name(c["v"]):
                bad.append(("correspondence", c, r, "model type_of differs from the oracle's table"))
            continue
        try:
            want = "ok I1" if py_is_type(c["t"], c["v"]) else "ok I0"
        except Incomparable:
            want = "err"
        v = c["v"]
        if c["t"] == ("sat", 0) and (v[0] == "cpx" or (v[0] == "flt" and (is_nan_bits(v[1]) or abs(bits2f(v[1])) == float("inf")))):
            continue
        c["oracle"] = want
        if obs != want:
            bad.append(("property", c, r, "`v is T` differs from the classification by type(v)/constructors"))
        elif mod is not None:
            m = {"ok 1": "ok I1", "ok 0": "ok I0"}.get(mod, mod)
            if m != obs:
                bad.append(("correspondence", c, r, "model is_type differs; oracle accepts the implementation"))
    return bad, n


# ----------------------------------------------------------------------------- histories on annotated variables
SATS[4] = "satisfying(\\x -> x is list and (len(x) == 0 or x[0] != 5))"
HIST_TYPES = ["int", "int", "number", "str", "list", "list", "anything", "rational", "float", "nulltype", "struct_instance",
              "stream", "stream", "vector", "bytes", "dict", "func", "type",
              ("struct", 0), ("struct", 1), ("sat", 0), ("sat", 1), ("sat", 2), ("sat", 3), ("sat", 4), ("sat", 4)]
HIST_VALUES = [NULL, I(0), I(1), I(5), I(7), I(-3), I(2 ** 70), R(1, 2), F(1.5), S("a"), S("ab"), L(), L(I(1)), L(I(1), I(2)),
               L(I(5), I(2)), L(S("a"), I(1)), X(0, I(1), I(2)), X(1, I(3)),
               T(I(1), I(2), I(3)), T(I(1), I(2), I(3), I(4), I(5)), Vc(I(1), I(2)), Vc(I(1), I(2), I(3)), B(1, 2), B(7, 8, 9),
               D(), D((I(0), I(2)))]
FUNC_VALUES = [("func", "print"), TY("int"), TY("list")]   # only in variables declared func / type
INDEXABLE = ("list", "stream", "vector", "bytes", "dict", ("sat", 4))
OPS = {0: "+", 1: "-", 2: "*", 3: "max", 4: "min", 5: "append"}


def hist_value_for(rng, t, stray=0.2):
    """mostly a value of type t"""
    if rng.random() < stray:
        return rng.choice(HIST_VALUES)
    good = []
    for v in HIST_VALUES + (FUNC_VALUES if t in ("func", "type") else []):
        try:
            if py_is_type(t, v):
                good.append(v)
        except Incomparable:
            pass
    return rng.choice(good) if good else rng.choice(HIST_VALUES)


def gen_hist(rng, nsteps):
    tys = [rng.choice(HIST_TYPES), None, rng.choice(HIST_TYPES)]
    if rng.random() < 0.5:
        tys[rng.choice([0, 2])] = rng.choice(INDEXABLE)
    names = [0, 1, 2]
    steps = []  # (source, model, writes)
    for x in names:
        t = tys[x]
        v = hist_value_for(rng, t if t is not None else "anything", stray=0.04)
        if t is None:
            steps.append((f"zz{x} := {v_src(v)}", f"declare seq 0 1 ann var {x} none list 1 {v_model(v)}", []))
            # `zz1 := v` parses as the one-element sequence? no: a single annotated item is the item itself
            steps[-1] = (f"zz{x} := {v_src(v)}", f"declare ann var {x} none {v_model(v)}", [])
        else:
            steps.append((f"zz{x}: {ty_src(t)} = {v_src(v)}", f"declare ann var {x} some type {ty_model(t)} {v_model(v)}", []))
    listy = [x for x in names if tys[x] in INDEXABLE]
    # max / min treat a function argument as a key function: not used where functions can flow
    ops = [o for o in OPS if o not in (3, 4)] if any(t in ("func", "type") for t in tys) else list(OPS)
    def ob(i):
        return "" if i is None else int_src(i)
    def om(i):
        return "_" if i is None else str(i)
    for _ in range(nsteps):
        r = rng.random()
        x = rng.choice([0, 0, 0, 1, 2, 2])
        y = rng.choice([n for n in names if n != x])
        tx = tys[x] if tys[x] is not None else "anything"
        v = hist_value_for(rng, tx) if rng.random() < 0.6 else rng.choice(HIST_VALUES)
        w = rng.choice(HIST_VALUES)
        if listy and r < 0.3:
            # indexed / sliced / every / op writes into a container-typed variable
            x = rng.choice(listy)
            i = rng.choice([0, 0, 1, -1, 2, -3, 5])
            e = rng.choice([I(5), I(5), I(1), I(0), I(300), I(-3), S("a"), L(), NULL, R(1, 2)])
            k = rng.random()
            if k < 0.4:
                ev = "every " if rng.random() < 0.3 else ""
                steps.append((f"{ev}zz{x}[{int_src(i)}] = {v_src(e)}", f"setindex {x} {i} {v_model(e)}", [x]))
            elif k < 0.7:
                lo, hi = rng.choice([None, 0, 1, -2]), rng.choice([None, 2, -1, 9, 0])
                if tys[x] == "dict":
                    lo, hi = rng.choice([(None, None), (None, None), (0, 1)])
                every = rng.random() < 0.8
                steps.append((f"{'every ' if every else ''}zz{x}[{ob(lo)}:{ob(hi)}] = {v_src(e)}",
                              f"setslice {x} {om(lo)} {om(hi)} {1 if every else 0} {v_model(e)}", [x]))
            else:
                op = rng.choice(ops)
                opnd = rng.choice([I(1), I(2), I(300), R(1, 2), S("a"), I(5), I(10)])
                kk = rng.random()
                if kk < 0.4:
                    steps.append((f"zz{x}[{int_src(i)}] {OPS[op]}= {v_src(opnd)}", f"opindex {x} {i} {op} {v_model(opnd)}", [x]))
                elif kk < 0.6:
                    steps.append((f"every zz{x}[{int_src(i)}] {OPS[op]}= {v_src(opnd)}", f"everyopindex {x} {i} {op} {v_model(opnd)}", [x]))
                else:
                    lo, hi = rng.choice([None, 0, 1, -2]), rng.choice([None, 2, -1, 9, 0])
                    steps.append((f"every zz{x}[{ob(lo)}:{ob(hi)}] {OPS[op]}= {v_src(opnd)}",
                                  f"everyopslice {x} {om(lo)} {om(hi)} {op} {v_model(opnd)}", [x]))
        elif r < 0.42:
            steps.append((f"zz{x} = {v_src(v)}", f"assign var {x} {v_model(v)}", [x]))
        elif r < 0.52:
            form = rng.randrange(4)
            if form == 0:
                steps.append((f"zz{x}, zz{y} = {v_src(v)}, {v_src(w)}", f"assign seq 0 2 var {x} var {y} list 2 {v_model(v)} {v_model(w)}", [x, y]))
            elif form == 1:
                lst = L(v, w, rng.choice(HIST_VALUES))
                steps.append((f"zz{x}, ...zz{y} = {v_src(lst)}", f"assign seq 0 2 var {x} splat var {y} {v_model(lst)}", [x, y]))
            elif form == 2:
                lst = rng.choice([L(v, w), L(v), v])
                if lst[0] == "dict" and len(lst[1]) > 1:
                    lst = L(v)
                steps.append((f"[zz{y}, zz{x}] = {v_src(lst)}", f"assign seq 1 2 var {y} var {x} {v_model(lst)}", [x, y]))
            else:
                lst = rng.choice([L(v, w), X(0, v, w), L(v), S("éa"), S("中文")])
                steps.append((f"(zz{x} .+ zz{y}) = {v_src(lst)}", f"assign destr prepend 2 var {x} var {y} {v_model(lst)}", [x, y]))
        elif r < 0.7:
            op = rng.choice(ops)
            opnd = rng.choice([I(1), I(2), I(0), I(-3), R(1, 2), F(1.5), S("a"), L(I(1)), NULL, I(2 ** 70), I(5), Vc(I(1), I(2))])
            steps.append((f"zz{x} {OPS[op]}= {v_src(opnd)}", f"opassign {x} {op} {v_model(opnd)}", [x]))
        elif r < 0.78:
            if rng.random() < 0.5:
                steps.append((f"every zz{x}, zz{y} = {v_src(v)}", f"every 2 {x} {y} {v_model(v)}", [x, y]))
            else:
                steps.append((f"every zz{x} = {v_src(v)}", f"every 1 {x} {v_model(v)}", [x]))
        elif r < 0.87:
            op = rng.choice(ops)
            opnd = rng.choice([I(1), I(2), R(1, 2), F(1.5), S("a"), L(I(1)), I(5)])
            steps.append((f"every zz{x} {OPS[op]}= {v_src(opnd)}", f"everyop {x} {op} {v_model(opnd)}", [x]))
        else:
            steps.append((f"swap zz{x}, zz{y}", f"swap {x} {y}", [x, y]))
    return mk_hist(tys, steps)


def mk_hist(tys, steps):
    read = "[" + ", ".join(f'try zz{x} catch _ -> "?", try (zz{x} is {ty_src(tys[x] if tys[x] is not None else "anything")}) catch _ -> "e"' for x in (0, 1, 2)) + "]"
    stmts = [PRELUDE]
    for src, _, _ in steps:
        stmts += [src, read]
    model = f"hist {len(steps)} " + " ".join(m for _, m, _ in steps)
    return dict(kind="hist", tys=tys, steps=[list(x) for x in steps], stmts=stmts, model=model)


def decl_step(x, t, v):
    if t is None:
        return (f"zz{x} := {v_src(v)}", f"declare ann var {x} none {v_model(v)}", [])
    return (f"zz{x}: {ty_src(t)} = {v_src(v)}", f"declare ann var {x} some type {ty_model(t)} {v_model(v)}", [])


FIXED_INIT = {"anything": L(I(1), I(2), I(3)), ("sat", 1): L(I(1), I(2), I(3)), ("sat", 2): L(I(1), I(2)),
              ("sat", 3): L(I(1), I(2), I(3)), ("sat", 4): L(I(1), I(2), I(3)), "list": L(I(1), I(2), I(3)),
              "stream": T(I(1), I(2), I(3), I(4), I(5)), "vector": Vc(I(1), I(2), I(3)), "bytes": B(7, 8, 9),
              "dict": D((I(0), I(2))), "int": I(1), "number": I(1), ("sat", 0): I(2)}
FIXED_TYPES = ["nulltype", "int", "rational", "float", "number", "str", "list", "dict", "vector", "bytes", "stream", "func",
               "type", "anything", "struct_instance", ("struct", 0), ("struct", 1),
               ("sat", 0), ("sat", 1), ("sat", 2), ("sat", 3), ("sat", 4)]


def conforms(t, v):
    try:
        return py_is_type(t, v)
    except Incomparable:
        return False


def fixed_hists():
    """deterministic block: every declared-type kind x every write form of Store.v, once with a value that
    keeps the declared type and once with one that breaks it (or makes the operator/predicate raise)"""
    out = []
    allv = HIST_VALUES + FUNC_VALUES
    def om(i):
        return "_" if i is None else str(i)
    def ob(i):
        return "" if i is None else int_src(i)
    for t in FIXED_TYPES:
        init = FIXED_INIT.get(t) or next(v for v in allv if conforms(t, v))
        keeps = [v for v in allv if conforms(t, v) and canon(v) != canon(init)][:1] or [init]
        brks = [v for v in allv if not conforms(t, v)][:2]
        vals = keeps + brks
        forms = []
        for v in vals:
            forms.append((f"zz0 = {v_src(v)}", f"assign var 0 {v_model(v)}", [0]))
            forms.append((f"every zz0 = {v_src(v)}", f"every 1 0 {v_model(v)}", [0]))
            forms.append((f"every zz1, zz0 = {v_src(v)}", f"every 2 1 0 {v_model(v)}", [1, 0]))
            forms.append((f"zz1, zz0 = 0, {v_src(v)}", f"assign seq 0 2 var 1 var 0 list 2 int 0 {v_model(v)}", [1, 0]))
            forms.append((f"[zz0, ...zz1] = {v_src(L(v, I(0)))}", f"assign seq 1 2 var 0 splat var 1 {v_model(L(v, I(0)))}", [0, 1]))
            forms.append((f"(zz0 .+ zz1) = {v_src(L(v))}", f"assign destr prepend 2 var 0 var 1 {v_model(L(v))}", [0, 1]))
            forms.append(("swap zz0, zz1", "swap 0 1", [0, 1], v))   # zz1 is declared with v
            forms.append(("swap zz1, zz0", "swap 1 0", [0, 1], v))
        for op, opnd in ((0, I(1)), (0, F(1.5)), (0, S("a")), (2, I(5)), (2, R(1, 2)), (3, I(7)), (4, S("a")), (5, I(5)), (5, S("a")), (1, I(2 ** 70))):
            if op in (3, 4) and t in ("func", "type"):
                continue
            forms.append((f"zz0 {OPS[op]}= {v_src(opnd)}", f"opassign 0 {op} {v_model(opnd)}", [0]))
            forms.append((f"every zz0 {OPS[op]}= {v_src(opnd)}", f"everyop 0 {op} {v_model(opnd)}", [0]))
        if init[0] in ("list", "stream", "vec", "bytes", "dict"):
            for i in (0, -1, 7):
                for e in (I(1), I(5), S("a"), I(300)):
                    forms.append((f"zz0[{int_src(i)}] = {v_src(e)}", f"setindex 0 {i} {v_model(e)}", [0]))
                for op, opnd in ((2, I(5)), (2, I(10)), (0, I(1)), (0, S("a")), (5, I(1))):
                    forms.append((f"zz0[{int_src(i)}] {OPS[op]}= {v_src(opnd)}", f"opindex 0 {i} {op} {v_model(opnd)}", [0]))
                    forms.append((f"every zz0[{int_src(i)}] {OPS[op]}= {v_src(opnd)}", f"everyopindex 0 {i} {op} {v_model(opnd)}", [0]))
            for lo, hi in ((0, 2), (None, None), (1, None), (2, 1)):
                if init[0] == "dict" and (lo, hi) != (None, None):
                    continue
                for e in (I(1), I(5), S("a")):
                    forms.append((f"every zz0[{ob(lo)}:{ob(hi)}] = {v_src(e)}", f"setslice 0 {om(lo)} {om(hi)} 1 {v_model(e)}", [0]))
                forms.append((f"zz0[{ob(lo)}:{ob(hi)}] = 1", f"setslice 0 {om(lo)} {om(hi)} 0 int 1", [0]))
                if init[0] != "dict":
                    for op, opnd in ((2, I(5)), (2, I(10)), (0, I(1)), (0, S("a")), (5, I(1))):
                        forms.append((f"every zz0[{ob(lo)}:{ob(hi)}] {OPS[op]}= {v_src(opnd)}", f"everyopslice 0 {om(lo)} {om(hi)} {op} {v_model(opnd)}", [0]))
        for fm in forms:
            aux = fm[3] if len(fm) > 3 else I(0)
            steps = [decl_step(0, t, init), decl_step(1, None, aux), decl_step(2, t, init), tuple(fm[:3])]
            out.append(mk_hist([t, None, t], steps))
    return out


def corpus_hists():
    """minimised past misses (seeded changes the generated tiers once failed to reach); always run"""
    out = []
    for f in sorted((common.ROOT / "corpus").glob("C12-*.json")):
        d = json.loads(f.read_text())
        if d.get("kind") == "hist":
            tys = [tuple(t) if isinstance(t, list) else t for t in d["tys"]]
            out.append(mk_hist(tys, [tuple(x) for x in d["steps"]]))
    return out


def evaluate_hists(ctx, hists, runner):
    res = run_progs([h["stmts"] for h in hists], timeout=20.0)
    mres = common.run_model(runner, [h["model"] for h in hists]) if runner else [None] * len(hists)
    bad = []
    stats = {"statements": 0, "raised": 0, "completed": 0, "is_reads": 0, "writes_checked": 0, "model_steps_compared": 0, "by_stmt": {}}
    for h, r, m in zip(hists, res, mres):
        rs = r.get("results", [])
        h["impl"], h["model_says"] = [], m
        if any(x.get("status") in ("panic", "hang", "abort", "badjson") for x in rs) or r.get("status") in ("hang", "abort"):
            bad.append(("property", h, r, "a statement on an annotated variable panicked / did not return"))
            continue
        msteps = m.split(" | ") if m else None
        if msteps is not None and len(msteps) != len(h["steps"]):
            bad.append(("correspondence", h, r, "model runner answer malformed: " + str(m)[:100]))
            msteps = None
        flagged = False
        for k, (src, _, writes) in enumerate(h["steps"]):
            st, rd = rs[1 + 2 * k], rs[2 + 2 * k]
            if st.get("status") == "parse" or rd.get("status") != "ok":
                h["impl"].append(("parse", src))
                flagged = True
                break
            status = "ok" if st["status"] == "ok" else "err"
            vals = parse_canon(rd["val"])[1]
            obs = {}
            for j, x in enumerate((0, 1, 2)):
                val, flag = vals[2 * j], vals[2 * j + 1]
                present = not (val[0] == "str" and val[1] == "?")
                obs[x] = (canon(val) if present else None,
                          "e" if flag[0] == "str" else str(flag[1]))
            h["impl"].append((status, {f"zz{x}": o for x, o in obs.items()}))
            stats["statements"] += 1
            stats["raised" if status == "err" else "completed"] += 1
            kind = "index/slice" if "[" in src.split("=")[0] and not src.startswith("[") else src.split(" ")[0] if src.startswith(("every", "swap")) else ("index" if "[" in src.split("=")[0] and src.startswith("zz") else "op" if any(f" {o}= " in src for o in OPS.values()) else "assign/declare")
            stats["by_stmt"][kind] = stats["by_stmt"].get(kind, 0) + 1
            stats["is_reads"] += 3
            # the property itself: a statement that completed leaves every variable it wrote inside its type
            if status == "ok":
                for x in writes:
                    stats["writes_checked"] += 1
                    if obs[x][0] is not None and obs[x][1] != "1" and not flagged:
                        flagged = True
                        h["oracle"] = f"after `{src}` completed, zz{x} is <declared type> read {obs[x][1]}"
                        bad.append(("property", h, r, h["oracle"]))
            if msteps is not None and not flagged:
                ms = msteps[k].split(" ", 1)
                mstore = {}
                if len(ms) > 1 and ms[1].strip():
                    for item in split_store(ms[1]):
                        x, _, rest = item.partition("=")
                        val, _, flag = rest.rpartition(":")
                        mstore[int(x)] = (val, flag)
                mobs = {x: mstore.get(x, (None, None)) for x in (0, 1, 2)}
                stats["model_steps_compared"] += 1
                same = ms[0] == status and all(mobs[x][0] == obs[x][0] and (obs[x][0] is None or mobs[x][1] == obs[x][1]) for x in (0, 1, 2))
                if not same:
                    flagged = True
                    h["oracle"] = "the in-language reads of `x is T` after completed writes are all true"
                    bad.append(("correspondence", h, r, f"step {k} `{src}`: model {msteps[k]} vs implementation {status} {obs}"))
    return bad, stats


# ----------------------------------------------------------------------------- conversions land in their type
CONV_TYPES = ["int", "rational", "float", "number", "str", "list", "bytes", "vector", "dict", "stream", "type", ("struct", 1)]


def gen_conv_cases():
    cases = []
    for t in CONV_TYPES:
        for v in POOL:
            cases.append(dict(kind="conv", v=v, t=t, model=f"conv {ty_model(t)} {v_model(v)}",
                              src=f"zzv := {v_src(v)}; zzr := {ty_src(t)}(zzv); [zzr is {ty_src(t)}, zzr]"))
    return cases


def py_convert(t, v):
    """oracle for the conversions whose meaning is plain mathematics; 'any' otherwise"""
    k = v[0]
    if t == "list":
        es = py_elements(v)
        return "any" if (k == "dict" and len(v[1]) > 1) else ("err" if es is None else "ok " + canon(("list", es)))
    if t == "stream":
        es = py_elements(v)
        return "any" if (k == "dict" and len(v[1]) > 1) else ("err" if es is None else "ok " + canon(("stream", es)))
    if t == "number":
        return "ok " + canon(v) if k in NUMS else "any" if k == "str" else "err"
    if t == "int" and k in ("int", "rat"):
        q = real_of(v)
        return "ok " + canon(I(int(q)))          # int() of a Fraction truncates toward zero
    if t == "rational" and k in ("int", "rat", "flt"):
        q = real_of(v)
        return "err" if isinstance(q, str) else "ok " + canon(R(q.numerator, q.denominator))
    return "any"


def evaluate_conv(ctx, cases, runner=None):
    """when T(v) returns, `T(v) is T` (in-language); the returned value against Lang/Convert.v where modelled"""
    res = run_progs([[PRELUDE, c["src"]] for c in cases])
    mres = common.run_model(runner, [c["model"] for c in cases]) if runner else [None] * len(cases)
    bad, stats = [], {"returned": 0, "raised": 0, "skipped_F16": 0, "model_compared": 0, "not_modelled": 0}
    for c, r, m in zip(cases, res, mres):
        rr = r["results"][-1] if "results" in r else r
        st = rr.get("status")
        c["impl"] = "ok " + rr["val"] if st == "ok" else st
        c["model_says"] = m
        v = c["v"]
        if c["t"] == "int" and v[0] == "flt" and (is_nan_bits(v[1]) or abs(bits2f(v[1])) == float("inf")):
            stats["skipped_F16"] += 1  # int(inf) returns the float: C07's finding F16, not C12's
            continue
        if st in ("panic", "hang", "abort", "badjson", "parse"):
            bad.append(("property", c, r, f"conversion did not return normally: {st}"))
            continue
        if st == "ok":
            stats["returned"] += 1
            flag, val = parse_canon(rr["val"])[1]
            obs = "ok " + canon(val)
            c["oracle"] = "ok I1"
            if canon(flag) != "I1":
                bad.append(("property", c, r, "T(v) returned a value that is not of type T"))
                continue
        else:
            stats["raised"] += 1
            obs = "err"
        orc = py_convert(c["t"], v)
        if orc != "any" and orc != obs:
            c["oracle"] = orc
            bad.append(("property", c, r, f"conversion result {obs} differs from its mathematical meaning {orc}"))
        elif m is not None:
            if m == "none":
                stats["not_modelled"] += 1
            else:
                stats["model_compared"] += 1
                if m != obs and not (v[0] == "dict" and len(v[1]) > 1):
                    bad.append(("correspondence", c, r, f"model {m} vs implementation {obs}; the oracle accepts the implementation"))
    return bad, stats


# ----------------------------------------------------------------------------- run
def run(ctx):
    runner = common.standard_prelude(ctx)
    cases = gen_cases(ctx)
    bad, stats = evaluate_matches(ctx, cases, runner)
    report(ctx, bad)
    is_cases = gen_is_cases()
    bad2, n_is = evaluate_is(ctx, is_cases, runner)
    report(ctx, bad2)
    conv_cases = gen_conv_cases()
    bad4, cstats = evaluate_conv(ctx, conv_cases, runner)
    report(ctx, bad4)
    hists = corpus_hists() + fixed_hists() + [gen_hist(ctx.rng, ctx.rng.randrange(5, 16)) for _ in range(ctx.n(320, 3000))]
    bad3, hstats = evaluate_hists(ctx, hists, runner)
    report(ctx, bad3)
    kinds = {}
    for c in cases:
        ks = set()
        for a in c["arms"]:
            p_kinds(a, ks)
        for k in ks:
            kinds[k] = kinds.get(k, 0) + 1
    distinct = {(c["ctx"], c["model"]) for c in cases if c.get("impl", ("parse",))[0] in ("ok", "err")
                and any(p_depth(a) >= 1 for a in c["arms"])}
    ok_cases = [c for c in cases if c.get("impl", ("x",))[0] == "ok"]
    samples = [{"program": c["src"], "implementation": show_match(c["impl"]), "coq_model": show_match(c["model_says"])}
               for c in (ok_cases[::max(1, len(ok_cases) // 8)][:8] + [c for c in cases if c.get("impl", ("x",))[0] == "err"][:4])]
    ctx.coverage.update({
        "evaluations": len(cases) + n_is + hstats["statements"] + len(conv_cases),
        "distinct_nontrivial": len(distinct) + sum(1 for c in is_cases if c["kind"] == "is"),
        "rule": "pattern cases: distinct by (context, pattern(s), value) and non-trivial = some arm has nesting depth >= 1 (a sequence, annotation, "
                "alternative, operator or struct pattern) and the implementation returned a match or raised; plus the full (value x type) `is` table",
        "samples": samples,
        "pattern_cases": len(cases), "is_cases": n_is, "conversion_cases": len(conv_cases), "conversion_stats": cstats, "histories": len(hists), "history_stats": hstats,
        "history_sample": [{"statements": [x for x in h["stmts"][1::2]], "implementation": h["impl"][:6]} for h in hists[:2]],
        "impl_outcomes": stats, "by_context": {k: sum(1 for c in cases if c["ctx"] == k) for k in sorted({c["ctx"] for c in cases})},
        "by_pattern_kind": dict(sorted(kinds.items())),
        "parse_rejected_examples": [c["src"] for c in cases if c.get("impl", ("x",))[0] == "parse"][:5],
        "pool_size": len(POOL), "types": len(ALL_TYPES),
    })
    ctx.assumptions += ["patterns are modelled after evaluation of their annotation/default/literally expressions (constants in the runs)",
                        "float arithmetic inside `n + k` / `k * n` patterns is an abstract parameter of the model (OCaml doubles in the runner)",
                        "names live in one scope; nested scopes only matter through 'declared in the current scope', which the fresh scope of switch/catch/call models"]
    return common.conclude(ctx)


def replay(ctx, rep):
    runner = common.standard_prelude(ctx)
    c = rep["case"]
    c = json.loads(json.dumps(c), object_hook=None)
    c = retuple(c)
    if c.get("kind") in ("is", "is_type_of", "is_null", "typeof"):
        bad, _ = evaluate_is(ctx, [c], runner)
    elif c.get("kind") == "conv":
        bad, _ = evaluate_conv(ctx, [c], runner)
    elif c.get("kind") == "hist":
        bad, _ = evaluate_hists(ctx, [c], runner)
    else:
        bad, _ = evaluate_matches(ctx, [c], runner)
    report(ctx, bad)
    print(json.dumps({"program": c.get("src"), "implementation": str(c.get("impl")), "oracle": c.get("oracle"), "model": str(c.get("model_says"))}))
    return 1 if bad else 0


def retuple(x):
    """JSON turned tuples into lists; values and patterns are tagged tuples whose payload lists stay lists"""
    if isinstance(x, dict):
        return {k: (retuple_node(v) if k in ("v",) else [retuple_node(a) for a in v] if k == "arms"
                    else tuple(v) if k == "t" and isinstance(v, list) else v) for k, v in x.items()}
    return x


def retuple_node(n):
    if not isinstance(n, list) or not n or not isinstance(n[0], str):
        return n
    tag = n[0]
    if tag in ("list", "stream", "vec"):
        return (tag, [retuple_node(x) for x in n[1]])
    if tag == "dict":
        return (tag, [(retuple_node(k), retuple_node(w)) for k, w in n[1]])
    if tag == "bytes":
        return (tag, list(n[1]))
    if tag == "inst":
        return (tag, n[1], [retuple_node(x) for x in n[2]])
    if tag == "type":
        return (tag, tuple(n[1]) if isinstance(n[1], list) else n[1])
    if tag == "seq":
        return (tag, [retuple_node(x) for x in n[1]], n[2])
    if tag in ("ann",):
        return (tag, retuple_node(n[1]), None if n[2] is None else retuple_node(n[2]))
    if tag in ("def",):
        return (tag, retuple_node(n[1]), retuple_node(n[2]))
    if tag in ("splat",):
        return (tag, retuple_node(n[1]))
    if tag in ("or", "and"):
        return (tag, retuple_node(n[1]), retuple_node(n[2]))
    if tag == "lit":
        return (tag, retuple_node(n[1]))
    if tag == "destr":
        b = n[1]
        b = (b[0], list(b[1])) if b[0] == "cmp" else (b[0],)
        return (tag, b, [retuple_node(x) for x in n[2]])
    if tag == "pstruct":
        return (tag, n[1], [retuple_node(x) for x in n[2]])
    return tuple(n)
