"""C17 - freeze preserves meaning and binds free variables eagerly.

Correspondence: grammar-generated closed lambdas L over the vocabulary of Lang/FreezeLang.v, in an
outer environment with data variables and operator variables (with precedences).  Every case is
run, statement by statement in one scope, through the implementation (bin/prog) and through the
extracted Coq model (reference evaluator + transcription of `freeze`):

    <outer declarations>; fu := L; ff := freeze L;
    fu(args_i), ff(args_i)            for three argument tuples
    <mutation>                        reassign an outer variable / swap +, * / set a precedence
    fu(args_i), ff(args_i)            again

The property itself is the oracle (it needs no model): ff must agree with fu before the mutation
(value, printed output, raised/not raised), ff must be unchanged by the mutation, and `freeze L`
must fail, at freeze time, exactly when a flat scope analysis of L (python re-statement of the Coq
predicate `Bad`) says so.  The model additionally predicts every statement's result.
"""
import json
import common

ID = "C17"
MANIFEST = dict(
    technique="Coq proof (freeze fails iff Bad; frozen code is closed; simulation original ~ frozen over a fuel-indexed reference "
              "evaluator, also with reassigned outer variables) + generated-program correspondence model/implementation with the property as oracle",
    text="Machine-checked theorems (Coq 8.16, no axioms) about a Gallina transcription of freeze (src/core.rs) and a reference "
         "evaluator for its vocabulary (sequences, := and =, if, while, for with clauses, switch, try/throw, lambdas and calls, operator "
         "chains with run-time precedences, lists, unary minus, builtins): freezing fails exactly when an independent inductive predicate "
         "over the syntax holds (unbound free identifier, assignment to a name the expression has not bound, import, bare underscore), only "
         "with a name or syntax error; the frozen expression is closed under its own binders; and, for expressions in which no name resolved "
         "inside a lambda is declared by an enclosing scope (the complement is known finding freeze-late-local-declaration, refuted in Coq), "
         "evaluating the original expression and evaluating the frozen one - in a store where outer variables it does not keep have been "
         "reassigned arbitrarily - give related values (equal data, closures with freeze-related bodies), the same output and the same "
         "outcome, for every fuel, store and argument tuple (simulation, 4.8k lines of Coq). Every run executes ~800 generated lambdas x 3 argument "
         "tuples, frozen and unfrozen, before and after reassigning an outer variable / swapping + and * / changing a precedence, on the "
         "implementation and on the extracted model, plus a corpus of 23 directed cases.",
    note="Trusted: Coq kernel; hand-written models Lang/FreezeLang.v (evaluator) and Lang/Freeze.v (freeze), tied to /repo only by the "
         "correspondence run (differential testing on generated programs); extraction with ExtrOcamlBasic + ExtrOcamlNativeString "
         "(Coq strings become OCaml strings because ocaml/conv.ml uses OCaml's string type after `open Model`); OCaml runner; Rust "
         "harness bin/c17; Python generator and flat scope analysis. The preservation theorem is stated with the run of the original under "
         "protection of the resolved variables not trapping (= they are not reassigned or shadowed in pre-existing frames); sections, "
         "break/continue/return, and/or, op-assign are outside the model (correspondence frozen-vs-unfrozen only). Two genuine deviations "
         "are known findings (late local declaration: frozen != unfrozen; name bound by freeze before it is declared at run time: late "
         "binding), one was repaired in /repo (for-clause order, de8fc56).",
    design="6-C17")

# ----------------------------------------------------------------------------- AST helpers
# nodes are tuples: ("int", n) ("neg", n) ("str", s) ("null",) ("var", x) ("und",) ("seq", [e]) ("decl", x, e) ("asg", x, e)
# ("if", c, t, f) ("while", c, b) ("for", x, e, [clause], yield, body)  clause = ("iter"|"let", x, e) | ("guard", e)
# ("switch", e, [(pat, body)])  pat = ("pw",) | ("pl", n) | ("pv", x)
# ("try", b, x, h) ("throw", e) ("lam", [x], b) ("call", f, [a]) ("chain", a, [(op, d)]) ("list", [e]) ("import", e)

OPS = {"+", "-", "*", "<", "=="}


def to_list(t):
    """json round trip turns tuples into lists; normalise back to tuples"""
    if isinstance(t, list):
        return tuple(to_list(x) for x in t)
    if isinstance(t, tuple):
        return tuple(to_list(x) for x in t)
    return t


def noul(e):
    """render to Noulith source; every compound expression is parenthesised"""
    k = e[0]
    if k == "int":
        return str(e[1])
    if k == "neg":
        return f"(-{e[1]})"
    if k == "str":
        return '"' + e[1] + '"'
    if k == "null":
        return "null"
    if k == "var":
        return e[1]
    if k == "und":
        return "_"
    if k == "seq":
        return "(" + "; ".join(noul(x) for x in e[1]) + ")"
    if k == "decl":
        return f"{e[1]} := {noul(e[2])}"
    if k == "asg":
        return f"{e[1]} = {noul(e[2])}"
    if k == "if":
        return f"(if ({noul(e[1])}) {noul_blk(e[2])} else {noul_blk(e[3])})"
    if k == "while":
        return f"(while ({noul(e[1])}) {noul_blk(e[2])})"
    if k == "for":
        cls = [f"{e[1]} <- {noul(e[2])}"]
        for c in e[3]:
            if c[0] == "iter":
                cls.append(f"{c[1]} <- {noul(c[2])}")
            elif c[0] == "let":
                cls.append(f"{c[1]} := {noul(c[2])}")
            else:
                cls.append(f"if {noul_atom(c[1])}")
        return f"(for ({'; '.join(cls)}) {'yield ' if e[4] else ''}{noul_blk(e[5])})"
    if k == "switch":
        arms = []
        for p, b in e[2]:
            ps = "_" if p[0] == "pw" else (str(p[1]) if p[0] == "pl" else p[1])
            arms.append(f"case {ps} -> {noul_blk(b)}")
        return f"(switch ({noul(e[1])}) {' '.join(arms)})"
    if k == "try":
        return f"(try {noul_blk(e[1])} catch {e[2]} -> {noul_blk(e[3])})"
    if k == "throw":
        return f"(throw {noul_atom(e[1])})"
    if k == "lam":
        return f"(\\{', '.join(e[1])} -> {noul_blk(e[2])})"
    if k == "call":
        f = e[1]
        fs = f[1] if f[0] == "var" and f[1] not in OPS else noul_atom(f)
        return f"{fs}({', '.join(noul(a) for a in e[2])})"
    if k == "chain":
        s = noul_atom(e[1])
        for op, d in e[2]:
            s += f" {noul_op(op)} {noul_atom(d)}"
        return "(" + s + ")"
    if k == "list":
        return "[" + ", ".join(noul(x) for x in e[1]) + "]"
    if k == "import":
        return f"(import {noul_atom(e[1])})"
    # ---- outside the modelled vocabulary (frozen vs unfrozen on the implementation only)
    if k == "dict":
        return "{" + ", ".join(f"{noul_atom(a)}: {noul(b)}" for a, b in e[1]) + "}"
    if k == "index":
        return f"{noul_atom(e[1])}[{noul(e[2])}]"
    if k in ("and", "or"):
        return f"({noul_atom(e[1])} {k} {noul_atom(e[2])})"
    if k == "return":
        return f"(return {noul_atom(e[1])})"
    if k in ("break", "continue"):
        return k
    if k == "opasg":
        return f"{e[1]} {e[2]}= {noul(e[3])}"
    if k == "freeze":
        return f"(freeze {noul_atom(e[1])})"
    raise ValueError(k)


EXT_NODES = ("dict", "index", "and", "or", "return", "break", "continue", "opasg", "freeze")


def has_ext(t):
    if isinstance(t, tuple):
        if t and isinstance(t[0], str) and t[0] in EXT_NODES:
            return True
        return any(has_ext(x) for x in t)
    return False


def noul_blk(e):
    """a body position: always one parenthesised expression"""
    s = noul(e)
    return s if s.startswith("(") and s.endswith(")") and e[0] in ("seq", "if", "while", "for", "switch", "try", "throw", "chain", "lam", "neg", "import") else "(" + s + ")"


def noul_atom(e):
    s = noul(e)
    if e[0] in ("int", "str", "null", "var", "und", "list", "call", "dict") or (s.startswith("(") and e[0] not in ("call", "index")):
        return s
    return "(" + s + ")"


def noul_op(op):
    assert op[0] == "var", op
    return op[1]


def sx(e):
    """render to the model runner's S-expression"""
    k = e[0]
    if k == "int":
        return f"(int {e[1]})"
    if k == "neg":
        return f"(call (var -) (int {e[1]}))"
    if k == "str":
        return f"(str {e[1]})"
    if k == "null":
        return "(null)"
    if k == "var":
        return f"(var {e[1]})"
    if k == "und":
        return "(und)"
    if k == "seq":
        return "(seq " + " ".join(sx(x) for x in e[1]) + ")"
    if k == "decl":
        return f"(decl {e[1]} {sx(e[2])})"
    if k == "asg":
        return f"(asg {e[1]} {sx(e[2])})"
    if k == "if":
        return f"(if {sx(e[1])} {sx(e[2])} {sx(e[3])})"
    if k == "while":
        return f"(while {sx(e[1])} {sx(e[2])})"
    if k == "for":
        cls = " ".join(f"({c[0]} {c[1]} {sx(c[2])})" if c[0] != "guard" else f"(guard {sx(c[1])})" for c in e[3])
        return f"(for {e[1]} {sx(e[2])} ({cls}) {'y' if e[4] else 'n'} {sx(e[5])})"
    if k == "switch":
        arms = " ".join(f"(arm ({p[0]}{'' if p[0] == 'pw' else ' ' + str(p[1])}) {sx(b)})" for p, b in e[2])
        return f"(switch {sx(e[1])} {arms})"
    if k == "try":
        return f"(try {sx(e[1])} {e[2]} {sx(e[3])})"
    if k == "throw":
        return f"(throw {sx(e[1])})"
    if k == "lam":
        return f"(lam ({' '.join(e[1])}) {sx(e[2])})"
    if k == "call":
        return "(call " + " ".join([sx(e[1])] + [sx(a) for a in e[2]]) + ")"
    if k == "chain":
        return "(chain " + sx(e[1]) + " " + " ".join(f"({sx(o)} {sx(d)})" for o, d in e[2]) + ")"
    if k == "list":
        return "(list" + "".join(" " + sx(x) for x in e[1]) + ")"
    if k == "import":
        return f"(import {sx(e[1])})"
    raise ValueError(k)


# ----------------------------------------------------------------------------- flat scope analysis (python re-statement of Bad)
def ddecl(e):
    """names an expression may declare directly in the frame it runs in (Coq: ddecl)"""
    k = e[0]
    if k in ("int", "neg", "str", "null", "var", "und", "while", "lam", "import"):
        return set()
    if k == "for":
        return ddecl(e[2])      # the first iteratee is evaluated in the enclosing frame
    if k == "seq" or k == "list":
        return set().union(*[ddecl(x) for x in e[1]]) if e[1] else set()
    if k == "decl":
        return {e[1]} | ddecl(e[2])
    if k == "asg":
        return ddecl(e[2])
    if k == "if":
        return ddecl(e[1]) | ddecl(e[2]) | ddecl(e[3])
    if k in ("switch", "throw"):
        return ddecl(e[1])
    if k == "try":
        return ddecl(e[1])
    if k == "call":
        return ddecl(e[1]).union(*[ddecl(a) for a in e[2]])
    if k == "chain":
        r = ddecl(e[1])
        for o, d in e[2]:
            r |= ddecl(o) | ddecl(d)
        return r
    if k == "dict":
        r = set()
        for a, b in e[1]:
            r |= ddecl(a) | ddecl(b)
        return r
    if k in ("index", "and", "or"):
        return ddecl(e[1]) | ddecl(e[2])
    if k in ("return", "freeze"):
        return ddecl(e[1])
    if k in ("break", "continue"):
        return set()
    if k == "opasg":
        return ddecl(e[3])
    raise ValueError(k)


class Info:
    def __init__(self, outer):
        self.outer = set(outer)
        self.fails = []          # (class, what) in walk order
        self.resolved = set()    # names freeze replaces by their current value
        self.k2 = set()          # names left as identifiers that may be read before a local declaration exists
        self.k1 = set()          # names resolved inside a closure and declared later in an enclosing scope
        self.scopes = []         # declared-name sets of the enclosing scopes (inside the frozen expression)
        self.sink = None         # resolved-name collectors of the enclosing lambdas


def walk(e, B, DD, info, self_name=None):
    """B: names freeze treats as bound here; DD: names certainly declared at run time. Returns (B', DD')."""
    k = e[0]
    if k in ("int", "str", "null"):
        return B, DD
    if k == "neg":
        return walk(("call", ("var", "-"), (("int", e[1]),)), B, DD, info)
    if k == "var":
        x = e[1]
        if x in B:
            if x not in DD:
                info.k2.add(x)
        elif x in info.outer:
            info.resolved.add(x)
            for s in info.sink or []:
                s.add(x)
        else:
            info.fails.append(("name", f"unbound {x}"))
        return B, DD
    if k == "und":
        info.fails.append(("syntax", "underscore"))
        return B, DD
    if k == "import":
        info.fails.append(("syntax", "import"))
        return B, DD
    if k == "seq":
        for x in e[1]:
            B, DD = walk(x, B, DD, info)
        return B, DD
    if k == "decl":
        B1 = B | {e[1]}
        B2, DD2 = walk(e[2], B1, DD, info, self_name=e[1])
        return B2, DD2 | {e[1]}
    if k == "asg":
        if e[1] not in B:
            info.fails.append(("name", f"assign outer {e[1]}"))
        elif e[1] not in DD:
            info.k2.add(e[1])
        return walk(e[2], B, DD, info)
    if k == "if":
        B1, DD1 = walk(e[1], B, DD, info)
        B2, DDt = walk(e[2], B1, DD1, info)
        B3, DDf = walk(e[3], B2, DD1, info)
        return B3, DDt & DDf
    if k == "while":
        info.scopes.append(ddecl(e[1]) | ddecl(e[2]))
        B1, DD1 = walk(e[1], B, DD, info)
        walk(e[2], B1, DD1, info)
        info.scopes.pop()
        return B, DD
    if k == "for":
        sc = ddecl(e[5])
        for c in e[3]:
            sc |= ddecl(c[-1])
        B0, DD0 = walk(e[2], B, DD, info)      # in the enclosing environment
        info.scopes.append(sc)
        B1, DD1 = B0 | {e[1]}, DD0 | {e[1]}
        for c in e[3]:
            if c[0] == "guard":
                B1, DD1 = walk(c[1], B1, DD1, info)
            else:
                B1, DD1 = walk(c[2], B1, DD1, info)
                B1, DD1 = B1 | {c[1]}, DD1 | {c[1]}
        walk(e[5], B1, DD1, info)
        info.scopes.pop()
        return B0, DD0
    if k == "switch":
        B1, DD1 = walk(e[1], B, DD, info)
        for p, b in e[2]:
            pv = {p[1]} if p[0] == "pv" else set()
            info.scopes.append(ddecl(b))
            walk(b, B1 | pv, DD1 | pv, info)
            info.scopes.pop()
        return B1, DD1
    if k == "try":
        B1, _ = walk(e[1], B, DD, info)
        info.scopes.append(ddecl(e[3]))
        walk(e[3], B1 | {e[2]}, DD | {e[2]}, info)
        info.scopes.pop()
        return B1, DD
    if k == "throw":
        return walk(e[1], B, DD, info)
    if k == "lam":
        ps = set(e[1])
        mine = set()
        old_sink = info.sink
        info.sink = (old_sink or []) + [mine]
        info.scopes.append(ddecl(e[2]))
        walk(e[2], B | ps, DD | ps | ({self_name} if self_name else set()), info)
        info.scopes.pop()
        info.sink = old_sink
        later = set().union(*info.scopes) if info.scopes else set()
        info.k1 |= (mine & later)
        return B, DD
    if k == "call":
        if e[1][0] != "und":
            B, DD = walk(e[1], B, DD, info)
        for a in e[2]:
            if a[0] != "und":
                B, DD = walk(a, B, DD, info)
        return B, DD
    if k == "chain":
        if e[1][0] != "und":
            B, DD = walk(e[1], B, DD, info)
        for o, d in e[2]:
            B, DD = walk(o, B, DD, info)
            if d[0] != "und":
                B, DD = walk(d, B, DD, info)
        return B, DD
    if k == "list":
        for a in e[1]:
            if a[0] != "und":
                B, DD = walk(a, B, DD, info)
        return B, DD
    if k == "dict":
        for a, b in e[1]:
            B, DD = walk(a, B, DD, info)
            B, DD = walk(b, B, DD, info)
        return B, DD
    if k == "index":
        if e[1][0] != "und":
            B, DD = walk(e[1], B, DD, info)
        if e[2][0] != "und":
            B, DD = walk(e[2], B, DD, info)
        return B, DD
    if k in ("and", "or"):
        B1, DD1 = walk(e[1], B, DD, info)
        B2, _ = walk(e[2], B1, DD1, info)
        return B2, DD1
    if k == "return":
        return walk(e[1], B, DD, info)
    if k == "freeze":
        # Expr::Freeze inside a frozen expression: walked with the same environment, wrapper kept
        # (the inner freeze runs again, against the run-time scope, when it is evaluated)
        return walk(e[1], B, DD, info, self_name=self_name)
    if k in ("break", "continue"):
        return B, DD
    if k == "opasg":
        if e[1] not in B:
            info.fails.append(("name", f"assign outer {e[1]}"))
        elif e[1] not in DD:
            info.k2.add(e[1])
        B, DD = walk(("var", e[2]), B, DD, info)
        return walk(e[3], B, DD, info)
    raise ValueError(k)


def analyse(lam, outer_names):
    info = Info(outer_names)
    walk(lam, frozenset(), frozenset(), info)
    return info


# ----------------------------------------------------------------------------- generator
BUILTINS = ["+", "-", "*", "<", "==", "len", "print"]
ARGS1 = [(0,), (1,), (2,), (3,), (5,), (7,)]
ARGS2 = [(0, 1), (1, 0), (2, 3), (3, 2), (5, 5), (4, 1), (1, 6)]


class Gen:
    def __init__(self, rng, outer, ext=False):
        self.r = rng
        self.outer = outer            # dict name -> kind ("int" | "list" | "op" | "str")
        self.fresh = 0
        self.ext = ext                # also use constructs outside the modelled vocabulary

    def pick(self, xs):
        return xs[self.r.randrange(len(xs))]

    def local_name(self, scope, kind):
        # mostly fresh names; sometimes an outer or builtin name (shadowing), sometimes a name already local
        p = self.r.random()
        if p < 0.16:
            cands = [n for n, k in self.outer.items() if k == kind or kind == "int"]
            if cands:
                return self.pick(cands)
        if p < 0.20:
            return self.pick(["len", "a", "t"])
        return self.pick(["t", "u", "v", "w", "m", "n"])

    # scope: dict name -> kind for names usable as variables here (locals and params)
    def int_leaf(self, scope):
        p = self.r.random()
        ints = [n for n, k in scope.items() if k == "int"]
        oints = [n for n, k in self.outer.items() if k == "int" and n not in scope]
        if p < 0.35 and ints:
            return ("var", self.pick(ints))
        if p < 0.60 and oints:
            return ("var", self.pick(oints))
        if p < 0.66:
            return ("neg", self.r.randrange(1, 9))
        return ("int", self.r.randrange(0, 10))

    def op(self, scope):
        ops = ["+", "-", "*"] + [n for n, k in self.outer.items() if k == "op" and scope.get(n, "op") == "op"] \
              + [n for n, k in scope.items() if k == "op"]
        ops = [o for o in ops if scope.get(o, "op") == "op"]
        return ("var", self.pick(ops)) if ops else ("var", "+")

    def gint(self, scope, d):
        """an expression that usually evaluates to an integer"""
        if d <= 0:
            return self.int_leaf(scope)
        if self.ext and self.r.random() < 0.12:
            q = self.r.random()
            if q < 0.45:
                k1, k2 = self.r.randrange(0, 3), self.r.randrange(3, 6)
                dct = ("dict", ((("int", k1), self.gint(scope, d - 2)), (("int", k2), self.gint(scope, d - 2))))
                return ("index", dct, ("int", self.pick([k1, k2]))) if self.r.random() < 0.7 else ("call", ("var", "len"), (dct,))
            if q < 0.75:
                return ("or", ("and", self.gint(scope, d - 1), self.gint(scope, d - 1)), self.gint(scope, d - 1))
            return ("and", self.gcond(scope, d - 1), self.gint(scope, d - 1))
        p = self.r.random()
        if p < 0.22:
            return self.int_leaf(scope)
        if p < 0.50:
            n = 1 if self.r.random() < 0.55 else (2 if self.r.random() < 0.8 else 3)
            return ("chain", self.gint(scope, d - 1), tuple((self.op(scope), self.gint(scope, d - 2)) for _ in range(n)))
        if p < 0.56:
            return ("chain", self.gint(scope, d - 1), ((("var", self.pick(["<", "=="])), self.gint(scope, d - 1)),))
        if p < 0.585:
            # an operator in function position: op(a), op(a, b), op(a, b, c); the first argument is often a constant
            # for freeze (a literal or an outer variable) - the boundary of the `-literal` folding
            opn = self.pick(["-", "-", "-", "+", "*", "<", "=="])
            if scope.get(opn, "op") != "op":
                opn = "-"
            n = self.pick([1, 2, 2, 2, 3]) if opn == "-" else self.pick([2, 2, 3])
            first = self.int_leaf({}) if self.r.random() < 0.7 else self.gint(scope, d - 1)
            return ("call", ("var", opn), tuple([first] + [self.gint(scope, d - 2) for _ in range(n - 1)]))
        if p < 0.64:
            return ("call", ("var", "len"), (self.glist(scope, d - 1),))
        if p < 0.70:
            fs = [n for n, k in scope.items() if k == "fn1"]
            if fs:
                return ("call", ("var", self.pick(fs)), (self.gint(scope, d - 1),))
            os_ = [n for n, k in self.outer.items() if k == "op" and n not in scope]
            if os_:
                return ("call", ("var", self.pick(os_)), (self.gint(scope, d - 1), self.gint(scope, d - 1)))
            return self.int_leaf(scope)
        if p < 0.78:
            return ("if", self.gcond(scope, d - 1), self.gint(scope, d - 1), self.gint(scope, d - 1))
        if p < 0.84:
            arms = [(("pl", self.r.randrange(0, 4)), self.gint(scope, d - 2))]
            if self.r.random() < 0.5:
                arms.append((("pl", self.r.randrange(0, 6)), self.gint(scope, d - 2)))
            if self.r.random() < 0.6:
                v = self.local_name(scope, "int")
                sc = dict(scope)
                sc[v] = "int"
                arms.append((("pv", v), self.gint(sc, d - 2)))
            elif self.r.random() < 0.85:
                arms.append((("pw",), self.gint(scope, d - 2)))
            return ("switch", self.gint(scope, d - 1), tuple(arms))
        if p < 0.90:
            v = self.pick(["e", "err", "t"])
            sc = dict(scope)
            sc[v] = "any"
            risky = self.gint(scope, d - 1)
            if self.r.random() < 0.5:
                risky = ("seq", (("if", self.gcond(scope, d - 2), ("throw", self.gint(scope, d - 2)), ("null",)), risky))
                sc[v] = "int"
            return ("try", risky, v, self.gint(sc, d - 2))
        if p < 0.97:
            return self.gblock(scope, d - 1)
        return ("call", ("lam", ("k",), self.gint({**scope, "k": "int"}, d - 2)), (self.gint(scope, d - 2),))

    def gcond(self, scope, d):
        p = self.r.random()
        if p < 0.7:
            return ("chain", self.gint(scope, d - 1), ((("var", self.pick(["<", "=="])), self.gint(scope, d - 1)),))
        return self.gint(scope, d - 1)

    def glist(self, scope, d):
        p = self.r.random()
        lists = [n for n, k in scope.items() if k == "list"] + [n for n, k in self.outer.items() if k == "list" and n not in scope]
        if p < 0.35 and lists:
            return ("var", self.pick(lists))
        if p < 0.75 or d <= 0:
            n = self.r.randrange(0, 4)
            return ("list", tuple(self.gint(scope, min(d - 1, 1)) for _ in range(n)))
        x = self.pick(["i", "j", "x"] if self.r.random() < 0.85 else list(self.outer) or ["i"])
        sc = dict(scope)
        sc[x] = "int"
        cls = []
        if self.r.random() < 0.4:
            z = self.local_name(sc, "int")
            cls.append(("let", z, self.gint(sc, d - 2)))
            sc[z] = "int"
        if self.r.random() < 0.4:
            cls.append(("guard", self.gcond(sc, d - 2)))
        return ("for", x, self.glist(scope, d - 2), tuple(cls), True, self.gint(sc, d - 2))

    def gblock(self, scope, d):
        """(stmt; ...; result) with local declarations; the block shares the enclosing scope, so every
        name it declares is renamed if it already exists in that scope's frame (a redeclaration is an error)"""
        sc = dict(scope)
        stmts = []
        n = self.r.randrange(1, 4)
        for _ in range(n):
            stmts.append(self.gstmt(sc, d))
        stmts.append(self.gint(sc, d - 1))
        return ("seq", tuple(stmts))

    def gstmt(self, sc, d):
        p = self.r.random()
        declared = sc.setdefault("#declared", set())
        if self.ext and self.r.random() < 0.2:
            q = self.r.random()
            ints = [n for n in declared if sc.get(n) == "int"]
            if q < 0.4 and ints:
                return ("opasg", self.pick(ints), self.pick(["+", "-", "*"]), self.gint(sc, d - 1))
            if q < 0.6:
                return ("if", self.gcond(sc, d - 1), ("return", self.gint(sc, d - 1)), ("null",))
            if sc.get("#inloop"):
                return ("if", self.gcond(sc, d - 1), (self.pick(["break", "continue"]),), ("null",))
        if p < 0.34:
            x = self.local_name(sc, "int")
            if x in declared or x in sc.get("#params", ()):
                x = f"q{len(declared)}"
            e = self.gint(sc, d - 1)
            sc[x] = "int"
            declared.add(x)
            return ("decl", x, e)
        if p < 0.42:
            x = self.pick(["w", "ys", "b"])
            if x in declared or x in sc.get("#params", ()):
                x = f"l{len(declared)}"
            e = self.glist(sc, d - 1)
            sc[x] = "list"
            declared.add(x)
            return ("decl", x, e)
        if p < 0.54:
            # a local function (maybe recursive), maybe used as an operator
            x = self.pick(["k", "h2", "g"]) if self.r.random() < 0.8 else self.pick(list(self.outer) or ["k"])
            if x in declared or x in sc.get("#params", ()):
                x = f"f{len(declared)}"
            if self.r.random() < 0.6:
                inner = {n: k for n, k in sc.items() if not n.startswith("#")}
                inner.update({"p": "int", "#params": ("p",), "#declared": set()})
                inner[x] = "self"      # the body must not call the function being defined (unbounded recursion)
                body = self.gint(inner, d - 1)
                if self.r.random() < 0.25:
                    rec = ("chain", ("var", "p"), ((("var", "+"), ("call", ("var", x), (("chain", ("var", "p"), ((("var", "-"), ("int", 1)),)),))),))
                    body = ("if", ("chain", ("var", "p"), ((("var", "<"), ("int", 1)),)), ("int", self.r.randrange(0, 3)),
                            ("if", ("chain", ("int", 5), ((("var", "<"), ("var", "p")),)), ("int", 1), rec))
                e = ("lam", ("p",), body)
                if self.ext and self.r.random() < 0.35:
                    e = ("freeze", e)
                sc[x] = "fn1"
            else:
                inner = {n: k for n, k in sc.items() if not n.startswith("#")}
                inner.update({"p": "int", "q": "int", "#params": ("p", "q"), "#declared": set()})
                inner[x] = "self"
                e = ("lam", ("p", "q"), self.gint(inner, d - 1))
                if self.ext and self.r.random() < 0.35:
                    e = ("freeze", e)
                sc[x] = "op"
            declared.add(x)
            return ("decl", x, e)
        if p < 0.64:
            ints = [n for n in declared if sc.get(n) == "int"]
            if ints:
                return ("asg", self.pick(ints), self.gint(sc, d - 1))
            return ("call", ("var", "print"), (self.gint(sc, d - 1),))
        if p < 0.72:
            return ("call", ("var", "print"), tuple(self.gint(sc, d - 1) for _ in range(self.r.randrange(1, 3))))
        if p < 0.80:
            # bounded while loop over a fresh counter
            self.fresh += 1
            i = f"i{self.fresh}"
            declared.add(i)
            sc[i] = "int"
            inner = {n: k for n, k in sc.items() if not n.startswith("#")}
            inner.update({"#declared": set(), "#params": ()})
            body = [self.gstmt(inner, d - 2) for _ in range(self.r.randrange(0, 2))]
            body.append(("asg", i, ("chain", ("var", i), ((("var", "+"), ("int", 1)),))))
            return ("seq", (("decl", i, ("int", 0)),
                            ("while", ("chain", ("var", i), ((("var", "<"), ("int", self.r.randrange(1, 4))),)), ("seq", tuple(body)))))
        if p < 0.90:
            x = self.pick(["i", "j", "x"]) if self.r.random() < 0.85 else self.pick(list(self.outer) or ["i"])
            inner = {n: k for n, k in sc.items() if not n.startswith("#")}
            inner.update({x: "int", "#declared": set(), "#params": (x,), "#inloop": True})
            cls = []
            if self.r.random() < 0.35:
                z = self.pick(["z", "t", "a"])
                cls.append(("let", z, self.gint(inner, d - 2)))
                inner[z] = "int"
                inner["#params"] = (x, z)
            if self.r.random() < 0.35:
                cls.append(("guard", self.gcond(inner, d - 2)))
            body = [self.gstmt(inner, d - 2) for _ in range(self.r.randrange(1, 3))]
            return ("for", x, self.glist(sc, d - 2), tuple(cls), False, ("seq", tuple(body)))
        return ("if", self.gcond(sc, d - 1), self.gstmt_simple(sc, d - 1), self.gstmt_simple(sc, d - 1))

    def gstmt_simple(self, sc, d):
        declared = sc.get("#declared", set())
        ints = [n for n in declared if sc.get(n) == "int"]
        if ints and self.r.random() < 0.6:
            return ("asg", self.pick(ints), self.gint(sc, d - 1))
        return ("call", ("var", "print"), (self.gint(sc, d - 1),))

    def glambda(self):
        nps = 1 if self.r.random() < 0.6 else 2
        ps = ("x", "y")[:nps]
        sc = {p: "int" for p in ps}
        sc["#params"] = ps
        sc["#declared"] = set()
        d = self.pick([2, 3, 3, 4])
        body = self.gblock(sc, d) if self.r.random() < 0.7 else self.gint(sc, d)
        return ("lam", ps, body)


def _V(n):
    return ("var", n)


def _bin(l, o, r):
    return ("chain", l, ((_V(o), r),))


# a declaration inside a condition / guard / iteratee / scrutinee is seen by what the construct runs next
COND_SHAPES = {
    "while": lambda n: ("seq", (("decl", "i", ("int", 0)), ("decl", "out", ("int", 0)),
                                ("while", ("seq", (("decl", n, _bin(_V("i"), "*", ("int", 2))), _bin(_V("i"), "<", ("int", 3)))),
                                 ("seq", (("asg", "out", _bin(_bin(_V("out"), "*", ("int", 10)), "+", _V(n))), ("asg", "i", _bin(_V("i"), "+", ("int", 1)))))),
                                _V("out"))),
    "if": lambda n: ("if", ("seq", (("decl", n, _bin(_V("x"), "+", ("int", 1))), _bin(_V(n), "<", ("int", 3)))),
                     _bin(_V(n), "*", ("int", 2)), _bin(_V(n), "+", ("int", 10))),
    "for-guard": lambda n: ("for", "j", ("list", (("int", 1), ("int", 2), ("int", 3))),
                            (("guard", ("seq", (("decl", n, _bin(_V("j"), "*", _V("x"))), _bin(_V(n), "<", ("int", 5))))),), True, _V(n)),
    "for-iteratee": lambda n: ("seq", (("decl", "w", ("for", "j", ("seq", (("decl", n, _bin(_V("x"), "+", ("int", 1))), ("list", (_V(n), ("int", 2))))),
                                                   (), True, _bin(_V("j"), "+", _V(n)))), ("list", (_V("w"), _V(n))))),
    "switch": lambda n: ("switch", ("seq", (("decl", n, _bin(_V("x"), "*", ("int", 2))), _V(n))),
                         ((("pl", 0), _bin(_V(n), "+", ("int", 1))), (("pw",), _bin(_V(n), "+", ("int", 2))))),
    "call-arg": lambda n: ("list", (("call", _V("len"), (("seq", (("decl", n, _V("x")), ("list", (_V(n), _V(n))))),)), _V(n))),
}

# `freeze` inside the frozen lambda: the inner freeze runs when it is evaluated and resolves the
# enclosing locals / parameters / loop variables then; it must refuse to assign to them
NESTED_FREEZE = {
    "param": ("lam", ("x",), ("seq", (("decl", "g", ("freeze", ("lam", ("y",), _bin(_V("x"), "+", _V("y"))))),
                                      ("asg", "x", _bin(_V("x"), "*", ("int", 100))), ("call", _V("g"), (("int", 1),))))),
    "local": ("lam", ("x",), ("seq", (("decl", "c", _bin(_V("x"), "+", ("int", 1))), ("decl", "g", ("freeze", ("lam", (), _bin(_V("c"), "*", ("int", 2))))),
                                      ("asg", "c", ("int", 50)), ("list", (("call", _V("g"), ()), _V("c")))))),
    "refused": ("lam", ("x",), ("seq", (("decl", "c", _V("x")),
                                        ("try", ("seq", (("decl", "inc", ("freeze", ("lam", (), ("seq", (("asg", "c", _bin(_V("c"), "+", ("int", 1))), _V("c")))))),
                                                         ("call", _V("inc"), ()))), "e", ("neg", 1))))),
    "loop": ("lam", ("x",), ("seq", (("decl", "k", ("int", 0)),
                                     ("decl", "fs", ("for", "i", ("list", (("int", 1), ("int", 2), ("int", 3))), (), True,
                                                     ("seq", (("asg", "k", _bin(_V("k"), "+", _V("i"))), ("freeze", ("lam", (), _bin(_V("k"), "+", _V("x")))))))),
                                     ("for", "f", _V("fs"), (), True, ("call", _V("f"), ()))))),
    "loop-var": ("lam", ("x",), ("seq", (("decl", "fs", ("for", "i", ("list", (("int", 1), ("int", 2))), (), True,
                                                         ("freeze", ("lam", ("y",), _bin(_V("y"), "+", _bin(_V("i"), "*", ("int", 10))))))),
                                         ("for", "f", _V("fs"), (), True, ("call", _V("f"), (_V("x"),)))))),
}


def subst_leaf(rng, e, make):
    """replace one random integer leaf of e by make(); returns the new tree (or None if there is no leaf)"""
    leaves = []

    def visit(t, path):
        if isinstance(t, tuple):
            if t and t[0] in ("int", "neg") and len(t) == 2 and isinstance(t[1], int):
                leaves.append(path)
                return
            for i, x in enumerate(t):
                visit(x, path + (i,))

    visit(e, ())
    # keep leaves that are not pattern literals (("pl", n) is not an ("int", n) node, so they are excluded already)
    if not leaves:
        return None
    path = leaves[rng.randrange(len(leaves))]

    def rebuild(t, p):
        if not p:
            return make()
        return tuple(rebuild(x, p[1:]) if i == p[0] else x for i, x in enumerate(t))

    return rebuild(e, path)


def add_stmt(lam, stmt):
    """put a statement at the front of the lambda's body"""
    return ("lam", lam[1], ("seq", (stmt, lam[2])))


def gen_case(rng, idx):
    # outer environment
    outer = {}
    decls = []
    if rng.random() < 0.9:
        outer["a"] = "int"
        decls.append(("decl", "a", ("int", rng.randrange(1, 9))))
    if rng.random() < 0.6:
        outer["c"] = "int"
        decls.append(("decl", "c", ("int", rng.randrange(0, 9))))
    if rng.random() < 0.7:
        outer["b"] = "list"
        decls.append(("decl", "b", ("list", tuple(("int", rng.randrange(0, 9)) for _ in range(rng.randrange(0, 4))))))
    precs = {}
    if rng.random() < 0.7:
        outer["g"] = "op"
        decls.append(("decl", "g", ("lam", ("p", "q"), ("chain", ("var", "p"), ((("var", "-"), ("var", "q")), (("var", "-"), ("var", "q")))))))
        if rng.random() < 0.6:
            precs["g"] = rng.choice([3, 4, 5, 6])
    if rng.random() < 0.4:
        outer["h"] = "op"
        decls.append(("decl", "h", ("lam", ("p", "q"), ("chain", ("var", "q"), ((("var", "-"), ("var", "p")),)))))
        if rng.random() < 0.5:
            precs["h"] = rng.choice([2, 4, 6])
    g = Gen(rng, outer, ext=rng.random() < 0.12)
    lam = g.glambda()
    kind = "plain"
    p = rng.random()
    if p < 0.04:
        new = subst_leaf(rng, lam, lambda: ("var", rng.choice(["zz", "qq", "nope"])))
        if new:
            lam, kind = new, "unbound"
    elif p < 0.07 and outer:
        tgt = rng.choice(sorted(outer))
        lam, kind = add_stmt(lam, ("asg", tgt, ("int", 1))), "assign-outer"
    elif p < 0.09:
        lam, kind = add_stmt(lam, ("decl", "t9", ("und",))), "underscore"
    elif p < 0.105:
        new = subst_leaf(rng, lam, lambda: ("if", ("und",), ("int", 1), ("int", 2)))
        if new:
            lam, kind = new, "underscore"
    elif p < 0.125:
        lam, kind = add_stmt(lam, ("import", ("str", "nosuchmodule"))), "import"
    elif p < 0.145:
        # sections: an underscore in a section position must freeze
        sec = rng.choice([
            ("call", ("chain", ("und",), ((("var", "+"), ("int", 1)),)), (("int", 2),)),
            ("call", ("call", ("var", "-"), (("int", 10), ("und",))), (("int", 3),)),
            ("call", ("call", ("var", "-"), (("var", "a") if "a" in outer else ("int", 7), ("und",))), (("int", 3),)),
            ("call", ("call", ("var", "*"), (("und",), ("int", 4))), (("int", 3),)),
        ])
        new = subst_leaf(rng, lam, lambda: sec)
        if new:
            lam, kind = new, "section"
    elif p < 0.165 and "a" in outer:
        # F21 shape on purpose
        lam = ("lam", ("x",), ("seq", (("decl", "k", ("lam", (), ("var", "a"))), ("decl", "a", ("chain", ("var", "x"), ((("var", "+"), ("int", 1)),))),
                                      ("call", ("var", "k"), ()))))
        kind = "late-declaration"
    elif p < 0.18 and "a" in outer:
        # a declaration that reads the outer variable it shadows: freeze binds the name first
        lam = ("lam", ("x",), ("seq", (("decl", "a", ("chain", ("var", "a"), ((("var", "+"), ("var", "x")),))), ("chain", ("var", "a"), ((("var", "*"), ("int", 2)),)))))
        kind = "self-rhs"
    elif p < 0.195 and "a" in outer:
        # a declaration that may be skipped at run time
        lam = ("lam", ("x",), ("seq", (("if", ("chain", ("var", "x"), ((("var", "<"), ("int", 2)),)), ("decl", "a", ("int", 1)), ("null",)), ("var", "a"))))
        kind = "conditional-declaration"
    elif p < 0.235 and "a" in outer:
        # a declaration of `a` inside a nested scope must not leak: `a` after the scope is the outer variable
        V = lambda n: ("var", n)
        plus = lambda l, r: ("chain", l, ((V("+"), r),))
        shapes = {
            "while": ("seq", (("decl", "i", ("int", 0)),
                              ("while", ("chain", V("i"), ((V("<"), ("int", 1)),)),
                               ("seq", (("decl", "a", plus(V("x"), ("int", 1))), ("asg", "i", plus(V("i"), ("int", 1)))))),
                              plus(V("a"), V("x")))),
            "for-body": ("seq", (("for", "j", ("list", (("int", 1),)), (), False, ("decl", "a", plus(V("j"), V("x")))), plus(V("a"), V("x")))),
            "for-var": ("seq", (("for", "a", ("list", (("int", 1), ("int", 2))), (), False, ("call", V("print"), (V("a"),))), plus(V("a"), V("x")))),
            "for-let": ("seq", (("for", "j", ("list", (("int", 1),)), (("let", "a", plus(V("j"), ("int", 5))),), False,
                                 ("call", V("print"), (V("a"),))), plus(V("a"), V("x")))),
            "switch-pattern": ("seq", (("switch", V("x"), ((("pv", "a"), plus(V("a"), ("int", 1))),)), plus(V("a"), V("x")))),
            "switch-arm": ("seq", (("switch", V("x"), ((("pw",), ("seq", (("decl", "a", ("int", 7)), V("a")))),)), plus(V("a"), V("x")))),
            "catch": ("seq", (("try", ("throw", ("int", 1)), "a", plus(V("a"), ("int", 1))), plus(V("a"), V("x")))),
            "lambda-param": ("seq", (("decl", "k", ("lam", ("a",), plus(V("a"), ("int", 1)))), plus(("call", V("k"), (V("x"),)), V("a")))),
            "lambda-body": ("seq", (("decl", "k", ("lam", ("p",), ("seq", (("decl", "a", V("p")), V("a"))))), plus(("call", V("k"), (V("x"),)), V("a")))),
            "comprehension": ("seq", (("decl", "w", ("for", "a", ("list", (("int", 1), ("int", 2))), (), True, plus(V("a"), V("x")))), plus(("call", V("len"), (V("w"),)), V("a")))),
        }
        which = rng.choice(sorted(shapes))
        lam = ("lam", ("x",), shapes[which])
        kind = "scope-" + which
    elif p < 0.27:
        which = rng.choice(sorted(COND_SHAPES))
        nm = "a" if ("a" in outer and rng.random() < 0.6) else "tq"
        lam = ("lam", ("x",), COND_SHAPES[which](nm))
        kind = "cond-decl-" + which
    elif p < 0.30:
        which = rng.choice(sorted(NESTED_FREEZE))
        lam = NESTED_FREEZE[which]
        kind = "nested-freeze-" + which
    force_mut_a = kind in ("self-rhs", "conditional-declaration") or kind.startswith("scope-") or (kind.startswith("cond-decl") and "a" in outer)
    nargs = len(lam[1])
    pool = ARGS1 if nargs == 1 else ARGS2
    args = [pool[rng.randrange(len(pool))] for _ in range(3)]
    # mutation between freeze and use
    muts = []
    if "a" in outer:
        muts.append(("data", "a", ("asg", "a", ("int", rng.randrange(10, 20)))))
    if "c" in outer:
        muts.append(("data", "c", ("asg", "c", ("int", rng.randrange(10, 20)))))
    if "b" in outer:
        muts.append(("data", "b", ("asg", "b", ("list", (("int", 9), ("int", 9), ("int", 9), ("int", 9), ("int", 9))))))
    muts.append(("swap", "+", "*"))
    muts.append(("prec", "+", 6))
    muts.append(("prec", "*", 3))
    if "g" in outer:
        muts.append(("prec", "g", rng.choice([1, 7])))
        muts.append(("data", "g", ("asg", "g", ("lam", ("p", "q"), ("var", "q")))))
    mut = muts[0] if force_mut_a else muts[rng.randrange(len(muts))]
    return {"idx": idx, "outer": decls, "precs": precs, "lam": lam, "args": args, "mut": mut, "kind": kind,
            "outer_names": sorted(outer) + BUILTINS}


# ----------------------------------------------------------------------------- running a case
def stmts_of(case):
    """parallel statement lists: (noulith source, model s-expression, tag)"""
    if case.get("raw"):
        return _raw_stmts(case)
    return _stmts(case, None if has_ext(case["lam"]) else sx)


def _raw_stmts(case):
    """a corpus case written directly in Noulith (constructs the generator's AST does not have):
    implementation-only checks; `freezes` says whether freezing must succeed"""
    out = [(s, "(null)", "outer") for s in case["outer"]]
    out.append((f"fu := {case['lam']}", "(null)", "decl-unfrozen"))
    out.append((f"ff := freeze ({case['lam']})", "(null)", "freeze"))
    for pre in ("ufUF"[:2], "ufUF"[2:]):
        if pre == "UF":
            out.append((case["mut"], "(null)", "mut"))
        for i, a in enumerate(case["args"]):
            al = ", ".join(str(x) for x in a)
            out.append((f"fu({al})", "(null)", f"{pre[0]}{i}"))
            out.append((f"ff({al})", "(null)", f"{pre[1]}{i}"))
    return out


class RawInfo:
    def __init__(self, case):
        self.fails = [] if case.get("freezes", True) else [(case.get("fail_class", "name"), "declared in the corpus case")]
        self.resolved, self.k1, self.k2 = set(case.get("resolved", ["x"])), set(), set()


def _stmts(case, sx):
    sx = sx or (lambda e: "(null)")
    out = []
    for d in case["outer"]:
        out.append((noul(d), sx(d), "outer"))
    for n, p in sorted(case["precs"].items()):
        out.append((f"{n}::precedence = {p}", f"(setprec {n} {p})", "outer"))
    lam = case["lam"]
    out.append((f"fu := {noul(lam)}", f"(decl fu {sx(lam)})", "decl-unfrozen"))
    out.append((f"ff := freeze {noul(lam)}", f"(fdecl ff {sx(lam)})", "freeze"))
    for i, a in enumerate(case["args"]):
        al = ", ".join(str(x) for x in a)
        am = " ".join(f"(int {x})" for x in a)
        out.append((f"fu({al})", f"(expr (call (var fu) {am}))", f"u{i}"))
        out.append((f"ff({al})", f"(expr (call (var ff) {am}))", f"f{i}"))
    m = case["mut"]
    if m[0] == "data":
        out.append((noul(m[2]), sx(m[2]), "mut"))
    elif m[0] == "swap":
        out.append((f"swap {m[1]}, {m[2]}", f"(swap {m[1]} {m[2]})", "mut"))
    else:
        out.append((f"{m[1]}::precedence = {m[2]}", f"(setprec {m[1]} {m[2]})", "mut"))
    for i, a in enumerate(case["args"]):
        al = ", ".join(str(x) for x in a)
        am = " ".join(f"(int {x})" for x in a)
        out.append((f"fu({al})", f"(expr (call (var fu) {am}))", f"U{i}"))
        out.append((f"ff({al})", f"(expr (call (var ff) {am}))", f"F{i}"))
    return out


def mutated_names(m):
    if m[0] == "swap":
        return {m[1], m[2]}
    return {m[1]}


def impl_obs(r):
    """(status, value-or-class, printed)"""
    st = r.get("status")
    if st == "ok":
        return ("ok", r.get("val"), r.get("out", ""))
    if st == "err" and "verif: fuel exhausted" in str(r.get("msg")):
        return ("fuel", None, r.get("out", ""))
    if st == "err":
        return ("err", r.get("thrown"), r.get("out", ""))
    return (st, None, r.get("out", ""))


def model_obs(txt):
    res, _, out = txt.partition("\t")
    out = out.replace("\\n", "\n")
    parts = res.split(" ", 1)
    return (parts[0], parts[1] if len(parts) > 1 else None, out)


def same_call(a, b):
    """frozen vs unfrozen on the implementation: value, output, raised / not raised (never error wording)"""
    if a[0] == "fuel" or b[0] == "fuel":
        return True      # the step budget of the harness ran out: no observation
    if a[0] != b[0] or a[2] != b[2]:
        return False
    if a[0] == "ok":
        return a[1] == b[1]
    return True


def model_agrees(imp, mod):
    """does the model's prediction match what the implementation did? None = the model has no opinion"""
    if mod[0] in ("unsupp", "fuel", "trap") or imp[0] == "fuel":
        return None
    if mod[0] != imp[0] or imp[2] != mod[2]:
        return False
    if mod[1] is None or "E" in _strip_strings(mod[1]):
        return True          # the value involves the text of an interpreter error: only raised / not raised is compared
    return imp[1] == mod[1]


def _strip_strings(s):
    out, ins = [], False
    for ch in s:
        if ch == '"':
            ins = not ins
        elif not ins:
            out.append(ch)
    return "".join(out)


def check_case(ctx, case, impl_res, model_line, stats):
    """returns list of (kind, what, detail) problems; kind in property / correspondence / known-k1 / known-k2"""
    st = stmts_of(case)
    tags = [t for _, _, t in st]
    problems = []
    results = impl_res.get("results") if isinstance(impl_res, dict) else None
    if results is None or len(results) != len(st):
        status = impl_res.get("status") if isinstance(impl_res, dict) else "?"
        bad = results[-1] if results else impl_res
        problems.append(("property", f"the implementation did not complete the case ({status}): {json.dumps(bad)[:300]}", None))
        return problems
    imp = {t: impl_obs(r) for t, r in zip(tags, results) if t not in ("outer",)}
    for t, r in zip(tags, results):
        if r.get("status") in ("panic", "hang", "abort", "parse", "badjson"):
            problems.append(("property", f"statement {t} ended with {r.get('status')}: {str(r.get('msg'))[:200]}", None))
            return problems
        if t == "outer" and r.get("status") != "ok":
            problems.append(("correspondence", f"outer declaration failed: {r}", None))
            return problems
    info = RawInfo(case) if case.get("raw") else analyse(case["lam"], case["outer_names"])
    case["analysis"] = {"fails": info.fails[:3], "resolved": sorted(info.resolved), "k1": sorted(info.k1), "k2": sorted(info.k2)}
    # ---- A. freezing fails exactly when the flat scope analysis says so, at freeze time
    fr = results[tags.index("freeze")]
    impl_failed = fr.get("status") == "err"
    spec_failed = bool(info.fails)
    stats["freeze_fail" if impl_failed else "freeze_ok"] += 1
    if impl_failed != spec_failed:
        problems.append(("property", f"freeze {'failed' if impl_failed else 'succeeded'} but the expression "
                         f"{'does not mention' if impl_failed else 'mentions'} an unbound free variable / outer assignment / import / bare underscore "
                         f"(analysis: {info.fails[:2]}; implementation: {fr.get('msg')})", None))
    elif impl_failed and fr.get("class") not in ("name", "syntax"):
        problems.append(("property", f"freeze failed with a {fr.get('class')} error, not a name or syntax error", None))
    elif impl_failed and fr.get("class") != info.fails[0][0]:
        problems.append(("correspondence", f"freeze failed with a {fr.get('class')} error, the analysis expected {info.fails[0]}", None))
    # ---- B/C. frozen vs unfrozen, before and after the mutation
    if not impl_failed:
        mut_names = set() if case.get("raw") else mutated_names(case["mut"])
        for i in range(len(case["args"])):
            u, f, U, F = imp[f"u{i}"], imp[f"f{i}"], imp[f"U{i}"], imp[f"F{i}"]
            stats["calls"] += 4
            if not same_call(u, f):
                if info.k1:
                    problems.append(("known-k1", f"frozen {f} != unfrozen {u} on args {case['args'][i]}", None))
                else:
                    problems.append(("property", f"frozen {f} != unfrozen {u} on args {case['args'][i]} with no outer reassignment", None))
            if not same_call(f, F):
                if mut_names & info.k2:
                    problems.append(("known-k2", f"frozen result changed from {f} to {F} after {case['mut']}", None))
                elif info.k1:
                    problems.append(("known-k1", f"frozen result changed from {f} to {F} after {case['mut']}", None))
                else:
                    problems.append(("property", f"frozen result changed from {f} to {F} after {case['mut']} on args {case['args'][i]}", None))
            if not same_call(u, U):
                stats["unfrozen_changed"] += 1
    # ---- model predictions
    if model_line is not None:
        mres = [model_obs(x) for x in model_line.split(" || ")]
        if len(mres) != len(st):
            problems.append(("correspondence", f"model runner answered {model_line[:200]}", None))
        else:
            for (src, _, t), r, m in zip(st, results, mres):
                if t == "outer":
                    continue
                if t == "freeze":
                    mf = m[0] == "ferr"
                    stats["model_compared"] += 1
                    if mf != impl_failed:
                        problems.append(("correspondence", f"model says freeze {'fails' if mf else 'succeeds'} ({m}), implementation {fr.get('status')} {fr.get('msg')}", None))
                        break
                    if mf and m[1] != fr.get("class"):
                        problems.append(("correspondence", f"model predicts a {m[1]} error at freeze, implementation a {fr.get('class')} error", None))
                    if mf:
                        break
                    continue
                ag = model_agrees(impl_obs(r), m)
                if ag is None:
                    stats["model_no_opinion"] += 1
                    break
                stats["model_compared"] += 1
                if not ag:
                    problems.append(("correspondence", f"statement `{src}` ({t}): implementation {impl_obs(r)}, model {m}", None))
                    break
    return problems


def run_cases(ctx, cases, runner, stats):
    hc = []
    for i, c in enumerate(cases):
        st = stmts_of(c)
        hc.append({"id": i, "fuel": 60000, "fresh": bool(c.get("raw")) or (c["mut"][0] in ("swap", "prec") and c["mut"][1] in BUILTINS),
                   "stmts": [s for s, _, _ in st]})
    res = common.run_harness(common.harness_bin("c17"), hc, timeout=30.0)
    with_model = [i for i, c in enumerate(cases) if not c.get("raw") and not has_ext(c["lam"])]
    mlines = ["( " + " ".join(m for _, m, _ in stmts_of(cases[i])) + " )" for i in with_model]
    mout = common.run_model(runner, mlines) if runner else [None] * len(with_model)
    mres = [None] * len(cases)
    for i, m in zip(with_model, mout):
        mres[i] = m
    allp = []
    for c, r, m in zip(cases, res, mres):
        ps = check_case(ctx, c, r, m, stats)
        c["impl"] = [impl_obs(x) for x in (r.get("results") or [])] if isinstance(r, dict) else None
        c["model"] = m
        allp.append(ps)
    return allp


def replay_of(case, what):
    st = stmts_of(case)
    return {"case": {k: case[k] for k in ("idx", "outer", "precs", "lam", "args", "mut", "kind", "outer_names", "raw", "freezes", "fail_class") if k in case},
            "program": [s for s, _, _ in st], "model_input": "( " + " ".join(m for _, m, _ in st) + " )",
            "implementation": case.get("impl"), "model": case.get("model"), "analysis": case.get("analysis"), "what": what}


def report(ctx, cases, allp, stats):
    seen = set()
    for c, ps in zip(cases, allp):
        for kind, what, _ in ps:
            if kind == "known-k1":
                stats["known_k1"] += 1
                ctx.known_hit("freeze-late-local-declaration", what)
            elif kind == "known-k2":
                stats["known_k2"] += 1
                ctx.known_hit("freeze-binds-before-declaration", what)
            else:
                key = (kind, what.split(":")[0][:40])
                if key in seen and len(seen) > 3:
                    continue
                seen.add(key)
                if kind == "property":
                    ctx.violation("property", replay_of(c, what), found=True)
                else:
                    ctx.violation("correspondence", replay_of(c, "correspondence Lang/FreezeLang.v + Lang/Freeze.v <-> implementation no longer checks on this "
                                                              "program; frozen and unfrozen still agree on the implementation, so no input violating the "
                                                              "property statement was found: " + what), found=False)
            break


def corpus_cases():
    out = []
    d = common.ROOT / "corpus" / "C17"
    if d.exists():
        for f in sorted(d.glob("*.json")):
            c = json.loads(f.read_text())
            c = c.get("case", c)
            out.append(norm_case(c))
    return out


def norm_case(c):
    c = dict(c)
    if c.get("raw"):
        c["args"] = [tuple(a) for a in c["args"]]
        c.setdefault("kind", "raw")
        c.setdefault("idx", -1)
        c.setdefault("precs", {})
        c.setdefault("outer_names", [])
        return c
    c["outer"] = [to_list(x) for x in c["outer"]]
    c["lam"] = to_list(c["lam"])
    c["args"] = [tuple(a) for a in c["args"]]
    c["mut"] = to_list(c["mut"])
    c.setdefault("precs", {})
    c.setdefault("kind", "corpus")
    c.setdefault("idx", -1)
    return c


def nontrivial(c):
    a = c.get("analysis") or {}
    return bool(a.get("resolved")) and not a.get("fails")


def run(ctx):
    runner = common.standard_prelude(ctx)
    n = ctx.n(800, 6000)
    cases = corpus_cases() + [gen_case(ctx.rng, i) for i in range(n)]
    stats = {k: 0 for k in ("freeze_ok", "freeze_fail", "calls", "unfrozen_changed", "model_compared", "model_no_opinion", "known_k1", "known_k2")}
    allp = run_cases(ctx, cases, runner, stats)
    report(ctx, cases, allp, stats)
    srcs = {c["lam"] if c.get("raw") else noul(c["lam"]) for c in cases if nontrivial(c)}
    kinds = {}
    for c in cases:
        kinds[c["kind"]] = kinds.get(c["kind"], 0) + 1
    feat = {k: 0 for k in ("while", "for", "switch", "try", "lam", "chain", "decl", "asg", "if", "list", "neg")}

    def count(t):
        if isinstance(t, tuple):
            if t and isinstance(t[0], str) and t[0] in feat:
                feat[t[0]] += 1
            for x in t:
                count(x)

    for c in cases:
        if not c.get("raw"):
            count(c["lam"])
    ctx.coverage.update({
        "evaluations": stats["calls"] + stats["freeze_ok"] + stats["freeze_fail"],
        "distinct_nontrivial": len(srcs),
        "rule": "evaluations = calls of a frozen or unfrozen lambda whose results were compared (3 argument tuples x frozen/unfrozen x before/after "
                "the mutation) + freeze attempts compared with the flat scope analysis; non-trivial = the lambda freezes and freeze resolves at least one "
                "free identifier in it (an outer data variable, an outer operator closure or a builtin); distinct by source text",
        "samples": [{"program": [s for s, _, _ in stmts_of(c)], "implementation": c.get("impl"), "model": c.get("model"), "analysis": c.get("analysis")}
                    for c in cases[::max(1, len(cases) // 10)]][:10],
        "lambdas": len(cases), "corpus": len(cases) - n, "case_kinds": kinds, "syntax_nodes": feat,
        "mutation_kinds": {k: sum(1 for c in cases if not c.get("raw") and c["mut"][0] == k) for k in ("data", "swap", "prec")},
        "lambdas_outside_model_vocabulary": sum(1 for c in cases if c.get("raw") or has_ext(c["lam"])),
        "raw_corpus_cases": sum(1 for c in cases if c.get("raw")),
        **stats,
    })
    ctx.assumptions += ["programs are drawn from the modelled vocabulary (Lang/FreezeLang.v); a statement on which the model leaves the vocabulary "
                        "(sections, comparison chains) is still checked frozen-vs-unfrozen on the implementation but not against the model",
                        "the outer operator closures do not themselves read the variables that the mutation changes"]
    return common.conclude(ctx)


def replay(ctx, rep):
    runner = common.standard_prelude(ctx)
    c = norm_case(rep["case"])
    stats = {k: 0 for k in ("freeze_ok", "freeze_fail", "calls", "unfrozen_changed", "model_compared", "model_no_opinion", "known_k1", "known_k2")}
    allp = run_cases(ctx, [c], runner, stats)
    report(ctx, [c], allp, stats)
    print(json.dumps({"program": [s for s, _, _ in stmts_of(c)], "implementation": c.get("impl"), "model": c.get("model"),
                      "problems": [(k, w) for k, w, _ in allp[0]]}, default=str))
    bad = [p for p in allp[0] if p[0] in ("property", "correspondence")]
    return 1 if bad else 0
