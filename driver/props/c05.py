"""C05 - control flow, scoping and closures follow the documented semantics.

Correspondence: a grammar-based generator produces programs over the C05 vocabulary; every
program is rendered to Noulith text (run by bin/prog built from /repo's working tree) and to
an S-expression (parsed by ocaml/c05.ml into the extracted Coq `expr` and run by the extracted
reference interpreter Lang/Eval.v).  Observables: final value (canonical), printed output,
raised / not raised (and the thrown value when the program threw it itself), escaping
break/continue/return.  Programs on which either side runs out of fuel or the model leaves its
vocabulary (SUnsupported) are discarded on both sides and counted.
"""
import json, re
import common

ID = "C05"
MANIFEST = dict(
    technique="Coq proof (rules of a fuel-indexed reference interpreter over an explicit frame store, unbounded programs and fuel) "
              "+ grammar-based differential testing of the extracted interpreter against the implementation",
    text="Machine-checked theorems (Coq 8.16, no axioms) about the reference interpreter Lang/Eval.v of the documented rules: more fuel never "
         "changes a finished result; `:=` declares in the current frame and fails iff the name is already there; `=` writes the nearest enclosing "
         "declaration and fails iff there is none; evaluation never changes the domain of a frame other than the current one, and loop bodies, "
         "calls and catch clauses leave every existing frame's domain unchanged; calls do not depend on the caller's frame (lexical scoping); "
         "closures see later writes and per-iteration variables are distinct; loops absorb one level of break/continue, calls only return, try only "
         "throw (a refusing catch pattern rethrows the original value); and/or/coalesce do not evaluate their right-hand side when "
         "short-circuiting; for-yield with a guard is map/filter; break/continue value rules of yielding loops; the into reducers; "
         "parameter binding (plain, default, splat); one-statement blocks; the store stays well-formed (closure frame ids in range). "
         "The interpreter is tied to /repo on every run by generated programs (closures escaping their scope, per-iteration closures, shadowing, "
         "multi-level break with yield, throw across calls) run through both, comparing value, printed output and raised/not raised.",
    note="Trusted: Coq kernel; the hand-written reference interpreter Lang/Syntax.v + Lang/Eval.v (it IS the reference of the documented rules; its tie "
         "to src/eval.rs is the correspondence run, i.e. differential testing, not proof); extraction with ExtrOcamlBasic + ExtrOcamlNativeString "
         "(Coq strings become OCaml strings because the shared conv.ml needs OCaml's own string type); OCaml runner and S-expression parser; "
         "Rust harness; Python generator/renderers. That evaluate() equals the reference on all programs is not a theorem. Constructs outside the "
         "vocabulary (switch, structs, format strings, import, into-reducers, typed declarations, iteration over strings/dicts) are not covered; "
         "the builtins + - * < == len +. not print are modelled on integers/lists only, anything else counts as 'unsupported' and is discarded.",
    design="6-C05")

MODEL_FUEL = 400          # nesting depth / while iterations for the model
IMPL_FUEL = 60_000        # evaluate() steps for the implementation

# ----------------------------------------------------------------------------- rendering
PRIM_INFIX = {"add": "+", "sub": "-", "mul": "*", "lt": "<", "eq": "==", "append": "+."}
PRIM_CALL = {"len": "len", "not": "not", "print": "print"}


def esc(s):
    return s.replace("\\", "\\\\").replace('"', '\\"')


def item_src(a):
    return "..." + src(a[1]) if a[0] == "splat" else src(a)


def callee_src(f):
    s = src(f)
    return s if f[0] in ("var", "call") or s.startswith("(") else "(" + s + ")"


def cpat_src(p):
    k = p[0]
    if k == "name":
        return p[1]
    if k == "int":
        return str(p[1])
    if k == "str":
        return '"' + p[1] + '"'
    if k == "wild":
        return "_" if len(p) == 1 else "_: " + p[1]
    return ", ".join(p[1:])


def cpat_sx(p):
    k = p[0]
    if k == "str":
        return f'(str "{p[1]}")'
    if k == "names":
        return "(names " + " ".join(p[1:]) + ")"
    return "(" + " ".join(str(x) for x in p) + ")"


def src(e):
    """Noulith text of an AST node; every compound form brings its own parentheses"""
    t = e[0]
    if t == "null":
        return "null"
    if t == "int":
        return str(e[1]) if e[1] >= 0 else f"(0 - {-e[1]})"
    if t == "str":
        return '"' + e[1] + '"'
    if t == "list":
        return "[" + ", ".join(item_src(a) for a in e[1]) + "]"
    if t == "var":
        return e[1]
    if t == "seq":
        return "(" + "; ".join(src(x) for x in e[2]) + (";" if e[1] else "") + ")"
    if t == "decl":
        return f"({e[1]} := {src(e[2])})"
    if t == "asg":
        return f"({e[1]} = {src(e[2])})"
    if t == "decll":
        return "(" + ", ".join(e[1]) + " := " + src(e[2]) + ")"
    if t == "asgl":
        return "(" + ", ".join(e[1]) + " = " + src(e[2]) + ")"
    if t == "if":
        return f"(if ({src(e[1])}) {src(e[2])}" + (f" else {src(e[3])})" if e[3] is not None else ")")
    if t == "while":
        return f"(while ({src(e[1])}) {src(e[2])})"
    if t == "for":
        cl = []
        for c in e[1]:
            if c[0] == "it":
                cl.append(f"{c[1]} <- {src(c[2])}")
            elif c[0] == "item":
                cl.append(f"{c[1]}, {c[2]} <<- {src(c[3])}")
            elif c[0] == "let":
                cl.append(f"{c[1]} := {src(c[2])}")
            else:
                cl.append(f"if {src(c[1])}")
        b = e[2]
        if b[0] == "do":
            body = src(b[1])
        elif b[0] == "yield":
            body = "yield " + src(b[1])
        elif b[0] == "yieldinto":
            body = "yield " + src(b[1]) + " into " + (b[2] if isinstance(b[2], str) else callee_src(b[2][1]))
        else:
            body = "yield " + src(b[1]) + ": " + src(b[2])
        return "(for (" + "; ".join(cl) + ") " + body + ")"
    if t == "break":
        return "(" + " ".join(["break"] * (e[1] + 1)) + (" " + src(e[2]) if e[2] is not None else "") + ")"
    if t == "cont":
        return "(" + " ".join(["break"] * e[1] + ["continue"]) + ")"
    if t == "ret":
        return "(return" + (" " + src(e[1]) if e[1] is not None else "") + ")"
    if t == "try":
        return f"(try {src(e[1])} catch {e[2]} -> {src(e[3])})"
    if t == "tryp":
        return f"(try {src(e[1])} catch {cpat_src(e[2])} -> {src(e[3])})"
    if t == "throw":
        return f"(throw {src(e[1])})"
    if t in ("and", "or", "coal"):
        return f"({src(e[1])} {'coalesce' if t == 'coal' else t} {src(e[2])})"
    if t == "lam":
        ps = []
        for p in e[1]:
            if p[0] == "p":
                ps.append(p[1])
            elif p[0] == "def":
                ps.append(f"{p[1]} = {src(p[2])}")
            else:
                ps.append("..." + p[1])
        return "(\\" + ", ".join(ps) + (" " if ps else "") + "-> " + src(e[2]) + ")"
    if t == "call":
        return callee_src(e[1]) + "(" + ", ".join(item_src(a) for a in e[2]) + ")"
    if t == "prim":
        op, args = e[1], e[2]
        if op in PRIM_INFIX and len(args) == 2:
            return f"({src(args[0])} {PRIM_INFIX[op]} {src(args[1])})"
        return PRIM_CALL[op] + "(" + ", ".join(src(a) for a in args) + ")"
    if t == "eval":
        return 'eval("' + esc(src(e[1])) + '")'
    if t == "switch":
        arms = []
        for p, b in e[2]:
            ps = str(p[1]) if p[0] == "lit" else (p[1] if p[0] == "bind" else "_")
            arms.append(f" case {ps} -> {src(b)}")
        return f"(switch ({src(e[1])})" + "".join(arms) + ")"
    raise ValueError(t)


def item_sx(a):
    return "(splat " + sx(a[1]) + ")" if a[0] == "splat" else sx(a)


def sx(e):
    """S-expression for ocaml/c05.ml"""
    t = e[0]
    if t == "null":
        return "(null)"
    if t == "int":
        return f"(int {e[1]})"
    if t == "str":
        return f'(str "{e[1]}")'
    if t == "list":
        return "(list" + "".join(" " + item_sx(a) for a in e[1]) + ")"
    if t == "var":
        return f"(var {e[1]})"
    if t == "seq":
        return f"(seq {1 if e[1] else 0}" + "".join(" " + sx(x) for x in e[2]) + ")"
    if t in ("decl", "asg"):
        return f"({t} {e[1]} {sx(e[2])})"
    if t in ("decll", "asgl"):
        return f"({t} ({' '.join(e[1])}) {sx(e[2])})"
    if t == "if":
        return f"(if {sx(e[1])} {sx(e[2])}" + (f" {sx(e[3])})" if e[3] is not None else ")")
    if t == "while":
        return f"(while {sx(e[1])} {sx(e[2])})"
    if t == "for":
        cl = []
        for c in e[1]:
            if c[0] == "item":
                cl.append(f"(item {c[1]} {c[2]} {sx(c[3])})")
            elif c[0] == "guard":
                cl.append(f"(guard {sx(c[1])})")
            else:
                cl.append(f"({c[0]} {c[1]} {sx(c[2])})")
        b = e[2]
        if b[0] == "yieldinto":
            body = f"(yieldinto {sx(b[1])} " + (b[2] if isinstance(b[2], str) else f"(fn {sx(b[2][1])})") + ")"
        else:
            body = f"({b[0]} " + " ".join(sx(x) for x in b[1:]) + ")"
        return "(for (" + " ".join(cl) + ") " + body + ")"
    if t == "break":
        return f"(break {e[1]}" + (" " + sx(e[2]) if e[2] is not None else "") + ")"
    if t == "cont":
        return f"(cont {e[1]})"
    if t == "ret":
        return "(ret" + (" " + sx(e[1]) if e[1] is not None else "") + ")"
    if t == "try":
        return f"(try {sx(e[1])} {e[2]} {sx(e[3])})"
    if t == "tryp":
        return f"(tryp {sx(e[1])} {cpat_sx(e[2])} {sx(e[3])})"
    if t == "throw":
        return f"(throw {sx(e[1])})"
    if t in ("and", "or", "coal"):
        return f"({t} {sx(e[1])} {sx(e[2])})"
    if t == "lam":
        ps = []
        for p in e[1]:
            ps.append(p[1] if p[0] == "p" else (f"(def {p[1]} {sx(p[2])})" if p[0] == "def" else f"(splat {p[1]})"))
        return "(lam (" + " ".join(ps) + ") " + sx(e[2]) + ")"
    if t == "call":
        return "(call " + sx(e[1]) + "".join(" " + item_sx(a) for a in e[2]) + ")"
    if t == "prim":
        return f"(prim {e[1]}" + "".join(" " + sx(a) for a in e[2]) + ")"
    if t == "eval":
        return "(eval " + sx(e[1]) + ")"
    if t == "switch":
        arms = []
        for p, b in e[2]:
            ps = f"(lit {p[1]})" if p[0] == "lit" else (f"(bind {p[1]})" if p[0] == "bind" else "(wild)")
            arms.append(f" ({ps} {sx(b)})")
        return f"(switch {sx(e[1])}" + "".join(arms) + ")"
    raise ValueError(t)


def children(e):
    """(path, child) for every expression child, for size / shrinking"""
    t = e[0]
    out = []
    if t in ("list",):
        for i, a in enumerate(e[1]):
            out.append(((1, i, 1), a[1]) if a[0] == "splat" else ((1, i), a))
    elif t == "seq":
        out += [((2, i), x) for i, x in enumerate(e[2])]
    elif t in ("decl", "asg", "decll", "asgl"):
        out.append(((2,), e[2]))
    elif t == "if":
        out += [((1,), e[1]), ((2,), e[2])] + ([((3,), e[3])] if e[3] is not None else [])
    elif t == "while":
        out += [((1,), e[1]), ((2,), e[2])]
    elif t == "for":
        for i, c in enumerate(e[1]):
            k = len(c) - 1
            out.append(((1, i, k), c[k]))
        for k in range(1, len(e[2])):
            if isinstance(e[2][k], str):
                continue
            if e[2][k][0] == "fn":
                out.append(((2, k, 1), e[2][k][1]))
            else:
                out.append(((2, k), e[2][k]))
    elif t == "break":
        if e[2] is not None:
            out.append(((2,), e[2]))
    elif t == "ret":
        if e[1] is not None:
            out.append(((1,), e[1]))
    elif t in ("try", "tryp"):
        out += [((1,), e[1]), ((3,), e[3])]
    elif t in ("throw", "eval"):
        out.append(((1,), e[1]))
    elif t in ("and", "or", "coal"):
        out += [((1,), e[1]), ((2,), e[2])]
    elif t == "lam":
        for i, p in enumerate(e[1]):
            if p[0] == "def":
                out.append(((1, i, 2), p[2]))
        out.append(((2,), e[2]))
    elif t == "call":
        out.append(((1,), e[1]))
        for i, a in enumerate(e[2]):
            out.append(((2, i, 1), a[1]) if a[0] == "splat" else ((2, i), a))
    elif t == "prim":
        out += [((2, i), a) for i, a in enumerate(e[2])]
    elif t == "switch":
        out.append(((1,), e[1]))
        out += [((2, i, 1), arm[1]) for i, arm in enumerate(e[2])]
    return out


def size(e):
    return 1 + sum(size(c) for _, c in children(e))


def depth(e):
    return 1 + max([depth(c) for _, c in children(e)] + [0])


def replace_at(e, path, new):
    if not path:
        return new
    l = list(e)
    l[path[0]] = replace_at(e[path[0]], path[1:], new)
    return tuple(l) if isinstance(e, tuple) else l


def features(e, acc=None):
    acc = acc if acc is not None else {}
    acc[e[0]] = acc.get(e[0], 0) + 1
    if e[0] == "seq" and len(e[2]) == 1:
        k = "seq_single_trailing" if e[1] else "seq_single"
        acc[k] = acc.get(k, 0) + 1
    if e[0] == "for":
        for c in e[1]:
            acc["cl_" + c[0]] = acc.get("cl_" + c[0], 0) + 1
        acc["for_" + e[2][0]] = acc.get("for_" + e[2][0], 0) + 1
        if e[2][0] == "yieldinto":
            k = "into_" + (e[2][2] if isinstance(e[2][2], str) else "fn")
            acc[k] = acc.get(k, 0) + 1
    if e[0] == "break" and e[1] > 0:
        acc["break_multi"] = acc.get("break_multi", 0) + 1
    if e[0] == "lam":
        for p in e[1]:
            acc["param_" + p[0]] = acc.get("param_" + p[0], 0) + 1
    if e[0] == "prim":
        acc["prim_" + e[1]] = acc.get("prim_" + e[1], 0) + 1
    if e[0] == "tryp":
        k = "catch_" + e[2][0] + ("_typed" if e[2][0] == "wild" and len(e[2]) > 1 else "")
        acc[k] = acc.get(k, 0) + 1
    for _, c in children(e):
        features(c, acc)
    return acc


# ----------------------------------------------------------------------------- generator
INT_NAMES = ["a", "b", "c", "n", "k", "x", "y", "z"]
LIST_NAMES = ["xs", "ys", "acc"]
FN_NAMES = ["f", "g", "h", "mk"]
STRS = ["s", "ab", "err", ""]


def I(n):
    return ("int", n)


def V(x):
    return ("var", x)


def P(op, *args):
    return ("prim", op, list(args))


def SEQ(*es, trailing=False):
    return ("seq", 1 if trailing else 0, list(es))


class Gen:
    """scope-aware random program generator; kinds: i(nt) l(ist) f(unction) a(ny)"""

    def __init__(self, rng, budget, maxdepth=5):
        self.r = rng
        self.budget = budget
        self.maxdepth = maxdepth
        self.scopes = [{}]
        self.loops = 0       # enclosing loops (through lambdas too: break crosses calls)
        self.in_fn = 0
        self.last_ret = "a"

    # -- scopes
    def push(self):
        self.scopes.append({})

    def pop(self):
        self.scopes.pop()

    def declare(self, x, kind):
        self.scopes[-1][x] = kind

    def visible(self, kind=None):
        seen = {}
        for s in self.scopes:
            seen.update(s)
        return [x for x, k in seen.items() if kind is None or k[0] == kind]

    def fresh(self, pool, allow_shadow=True):
        cur = self.scopes[-1]
        cands = [x for x in pool if x not in cur]
        if not cands:
            return self.r.choice(pool)      # a redeclaration error, on purpose
        vis = set(self.visible())
        shadowing = [x for x in cands if x in vis]
        if shadowing and allow_shadow and self.r.random() < 0.45:
            return self.r.choice(shadowing)
        new = [x for x in cands if x not in vis]
        return self.r.choice(new or cands)

    def spend(self, n=1):
        self.budget -= n

    # -- expressions
    def leaf(self, kind):
        r = self.r
        if kind == "i":
            vs = self.visible("i")
            if vs and r.random() < 0.6:
                return V(r.choice(vs))
            return I(r.choice([0, 1, 2, 3, 5, 7, 10, -1]))
        if kind == "l":
            vs = self.visible("l")
            if vs and r.random() < 0.6:
                return V(r.choice(vs))
            return ("list", [I(r.randint(0, 9)) for _ in range(r.randint(0, 3))])
        if kind == "f":
            vs = self.visible("f")
            if vs and r.random() < 0.7:
                return V(r.choice(vs))
            vi = self.visible("i")
            return ("lam", [], V(r.choice(vi)) if vi else I(r.randint(0, 9)))
        c = r.random()
        if c < 0.15:
            return ("null",)
        if c < 0.25:
            return ("str", r.choice(STRS))
        vs = self.visible()
        if vs and c < 0.5:
            return V(r.choice(vs))
        if r.random() < 0.015:
            return V(r.choice(INT_NAMES + FN_NAMES))   # possibly undeclared
        return self.leaf(r.choice("iil"))

    def single(self, e, p=0.12):
        """sometimes a one-statement block: (e) or (e;) - the latter yields null"""
        r = self.r
        if r.random() < p:
            return ("seq", 1 if r.random() < 0.7 else 0, [e])
        return e

    def expr(self, kind="a", d=0):
        r = self.r
        self.spend()
        if self.budget <= 0 or d >= self.maxdepth:
            return self.single(self.leaf(kind), 0.03 if kind == "a" else 0.0)
        if r.random() < (0.06 if kind == "a" else 0.015):
            return ("seq", 1 if (kind == "a" and r.random() < 0.7) or r.random() < 0.3 else 0, [self.expr(kind, d + 1)])
        c = r.random()
        if kind == "a":
            kind = r.choice("iiillfa")
        if kind == "i":
            if c < 0.25:
                return self.leaf("i")
            if c < 0.50:
                op = r.choice(["add", "add", "sub", "mul", "lt", "eq"])
                return P(op, self.expr("i", d + 1), self.expr("i", d + 1))
            if c < 0.56:
                return P("len", self.expr("l", d + 1))
            if c < 0.60:
                return P("not", self.expr("a", d + 1))
            if c < 0.74:
                return self.call(d, "i")
            if c < 0.80:
                return ("if", self.expr("i", d + 1), self.expr("i", d + 1), self.expr("i", d + 1) if r.random() < 0.95 else None)
            if c < 0.88:
                return (r.choice(["and", "or", "coal"]), self.expr("a", d + 1), self.effect_expr(d + 1))
            if c < 0.92:
                return self.block("i", d)
            if c < 0.95:
                return self.switch_expr(d, "i")
            if c < 0.97:
                return ("try", self.risky(d + 1), "e", self.in_scope({"e": "a"}, lambda: self.expr("i", d + 1)))
            if c < 0.985:
                return self.selective_try(d, "i")
            return self.loop_expr(d)
        if kind == "l":
            if c < 0.25:
                return self.leaf("l")
            if c < 0.45:
                items = []
                for _ in range(r.randint(1, 3)):
                    items.append(("splat", self.expr("l", d + 1)) if r.random() < 0.2 else self.expr("i", d + 1))
                return ("list", items)
            if c < 0.6:
                return P("append", self.expr("l", d + 1), self.expr(r.choice("iif"), d + 1))
            if c < 0.9:
                return self.for_expr(d, yielding=True)
            return self.call(d)
        if kind == "f":
            if c < 0.2:
                return self.leaf("f")
            if c < 0.9:
                return self.lam(d)[0]
            return self.call(d)
        if c < 0.3:
            return self.leaf("a")
        if c < 0.5:
            return self.call(d)
        if c < 0.7:
            return self.block("a", d)
        if c < 0.85:
            return self.loop_expr(d)
        return ("eval", self.single(self.expr("a", d + 1), 0.35))

    def effect_expr(self, d):
        """an expression whose evaluation is visible (print / assignment / throw)"""
        r = self.r
        c = r.random()
        vs = self.visible("i")
        if c < 0.4:
            return SEQ(P("print", self.expr("i", d + 1)), self.expr("i", d + 1))
        if c < 0.7 and vs:
            x = r.choice(vs)
            return SEQ(("asg", x, P("add", V(x), I(1))), V(x))
        if c < 0.8:
            return ("throw", self.expr("i", d + 1))
        return self.expr("a", d + 1)

    def in_scope(self, decls, k):
        self.push()
        for x, kd in decls.items():
            self.declare(x, kd)
        try:
            return k()
        finally:
            self.pop()

    def block(self, kind, d):
        """(s1; s2; value) - no new scope"""
        n = self.r.randint(1, 3)
        ss = [self.stmt(d + 1) for _ in range(n)]
        return SEQ(*ss, self.expr(kind, d + 1), trailing=self.r.random() < 0.05)

    def lam(self, d, want_esc=None):
        """a lambda; returns (ast, (nmin, nmax))"""
        r = self.r
        self.spend()
        ps, decls = [], {}
        shape = r.random()
        names = r.sample(["p", "q", "x", "y", "n"], 3)
        if shape < 0.35:
            pass
        elif shape < 0.7:
            ps.append(("p", names[0]))
        elif shape < 0.8:
            ps += [("p", names[0]), ("p", names[1])]
        elif shape < 0.9:
            ps += [("p", names[0]), ("def", names[1], self.expr("i", d + 2))]
        else:
            ps.append(("splat", names[0]) if r.random() < 0.5 else ("p", names[0]))
            if ps[0][0] == "p":
                ps.append(("splat", names[1]))
            elif r.random() < 0.5:
                ps.append(("def", names[1], I(r.randint(0, 9))))
        for p in ps:
            decls[p[1]] = "l" if p[0] == "splat" else "i"
        nmin = sum(1 for p in ps if p[0] == "p")
        nmax = 9 if any(p[0] == "splat" for p in ps) else len(ps)
        self.in_fn += 1
        loops, self.loops = self.loops, self.loops if r.random() < 0.3 else 0
        body, rk = self.in_scope(decls, lambda: self.fn_body(d + 1))
        if r.random() < 0.08:
            tr = 1 if r.random() < 0.7 else 0
            body, rk = ("seq", tr, [body]), ("a" if tr else rk)
        self.loops = loops
        self.in_fn -= 1
        self.last_ret = rk
        return ("lam", ps, body), (nmin, nmax)

    def fn_body(self, d):
        r = self.r
        c = r.random()
        vi = self.visible("i")
        if c < 0.25 and vi:
            x = r.choice(vi)          # mutate a captured / own variable
            return SEQ(("asg", x, P("add", V(x), self.expr("i", d + 1))), V(x)), "i"
        if c < 0.40:
            if d < self.maxdepth - 1:
                return self.lam(d)[0], "f"                                               # returns a closure
            return self.expr("i", d + 1), "i"
        if c < 0.55:
            ss = [self.stmt(d + 1) for _ in range(r.randint(1, 2))]
            k = r.choice("iiia")
            if r.random() < 0.5:
                ss.append(("if", self.expr("i", d + 1), ("ret", self.expr("i", d + 1) if r.random() < 0.8 else None), None))
            return SEQ(*ss, self.expr(k, d + 1)), k
        if c < 0.62:
            return ("throw", self.expr("i", d + 1)), "i"
        if c < 0.70 and self.loops:
            return self.jump(d), "i"
        k = r.choice("iiiila")
        return self.expr(k, d + 1), k

    def call(self, d, want=None):
        r = self.r
        self.spend()
        fs = [(x, k) for s in self.scopes for x, k in s.items() if k[0] == "f"]
        if want is not None and r.random() < 0.85:
            good = [(x, k) for x, k in fs if len(k) > 2 and k[2] == want]
            fs = good or fs
        c = r.random()
        if fs and c < 0.75:
            x, k = r.choice(fs)
            nmin, nmax = k[1] if len(k) > 1 else (0, 1)
            n = r.randint(nmin, min(nmax, nmin + 2)) if r.random() < 0.9 else r.randint(0, 3)
            callee = V(x)
        elif c < 0.9:
            callee, (nmin, nmax) = self.lam(d + 1)
            n = r.randint(nmin, min(nmax, nmin + 2))
        else:
            callee = self.expr("a", d + 1)
            n = r.randint(0, 2)
        args = []
        for _ in range(n):
            if r.random() < 0.1:
                args.append(("splat", self.expr("l", d + 1)))
            else:
                args.append(self.single(self.expr(r.choice("iiiaf"), d + 1), 0.06))
        e = ("call", callee, args)
        if r.random() < 0.12:            # call the result again: f()()
            e = ("call", e, [self.expr("i", d + 1)] if r.random() < 0.5 else [])
        return e

    def risky(self, d):
        """an expression likely to throw, directly or through calls"""
        r = self.r
        c = r.random()
        if c < 0.3:
            return ("throw", self.expr(r.choice("iia"), d + 1))
        if c < 0.5:
            return V(r.choice(["u", "w"]))                       # undeclared
        if c < 0.6:
            return ("asg", r.choice(["u", "w"]), I(1))           # assignment to undeclared
        if c < 0.7:
            return self.call(d)
        if c < 0.85:                                             # signals other than throw must pass through try
            opts = [("ret", self.expr("i", d + 1))] if (self.in_fn or r.random() < 0.2) else []
            if self.loops or r.random() < 0.2:
                opts.append(self.jump(d))
            if opts:
                j = r.choice(opts)
                return SEQ(("if", self.expr("i", d + 1), j, None), self.expr("i", d + 1)) if r.random() < 0.5 else j
        return self.block("a", d)

    def thrown(self, d):
        """a value worth throwing: ints, strings, lists (selective patterns tell them apart)"""
        r = self.r
        c = r.random()
        if c < 0.45:
            return I(r.choice([0, 1, 2, 5])) if r.random() < 0.7 else self.expr("i", d + 1)
        if c < 0.65:
            return ("str", r.choice(["s", "ab", "err"]))
        if c < 0.9:
            return ("list", [I(r.randint(0, 5)) for _ in range(r.randint(0, 3))])
        return self.expr("a", d + 1)

    def cpat(self):
        """(pattern, names it binds)"""
        r = self.r
        c = r.random()
        if c < 0.3:
            return ("int", r.choice([0, 1, 2, 5])), {}
        if c < 0.45:
            return ("str", r.choice(["s", "ab", "err"])), {}
        if c < 0.75:
            return ("wild", r.choice(["int", "str", "list"])), {}
        if c < 0.8:
            return ("wild",), {}
        xs = r.sample(["a", "b", "c"], r.choice([1, 2, 2, 3])) if r.random() < 0.93 else ["a", "a"]
        if len(xs) == 1:
            xs = xs + [r.choice(["x", "y"])]
        return ("names", *xs), {x: "i" for x in xs}

    def selective_try(self, d, kind="a"):
        """try with a selective catch, often nested in an observing / differently selective outer catch"""
        r = self.r
        self.spend(3)
        body = ("throw", self.thrown(d + 1))
        c = r.random()
        if c < 0.3:
            body = SEQ(P("print", I(r.randint(0, 9))), ("if", self.expr("i", d + 1), body, None), self.expr(kind, d + 1))
        elif c < 0.45:
            body = self.risky(d + 1)
        elif c < 0.6:
            fs = [x for x in self.visible("f")]
            if fs:
                body = SEQ(body) if False else ("call", ("lam", [], body), [])
        p, binds = self.cpat()
        h = self.in_scope(binds, lambda: SEQ(P("print", I(r.randint(10, 19))), self.expr(kind, d + 1)) if r.random() < 0.5 else self.expr(kind, d + 1))
        inner = ("tryp", body, p, h)
        c = r.random()
        if c < 0.45:
            return ("try", inner, "e", self.in_scope({"e": "a"}, lambda: ("list", [V("e")]) if r.random() < 0.7 else self.expr(kind, d + 1)))
        if c < 0.7:
            p2, b2 = self.cpat()
            return ("try", ("tryp", inner, p2, self.in_scope(b2, lambda: self.expr(kind, d + 1))), "e", ("list", [V("e"), V("e")]))
        return inner

    def jump(self, d):
        r = self.r
        c = r.random()
        lv = r.randint(0, max(0, self.loops - 1)) if r.random() < 0.8 else r.randint(0, 2)
        if c < 0.35:
            return ("break", lv, None)
        if c < 0.7:
            return ("break", lv, self.expr("i", d + 1))
        return ("cont", lv)

    def for_expr(self, d, yielding=None):
        r = self.r
        self.spend()
        cls = []
        pushed = 0
        ncl = r.choice([1, 1, 1, 2, 2, 3])
        for j in range(ncl):
            c = r.random()
            if j > 0 and c < 0.3:
                cls.append(("guard", self.expr("i", d + 1)))
                continue
            if j > 0 and c < 0.45:
                x = self.fresh(INT_NAMES)
                e = self.expr("i", d + 1)
                cls.append(("let", x, e))
                self.push(); pushed += 1
                self.declare(x, "i")
                continue
            src_e = self.expr("l", d + 1)
            if c < 0.8:
                x = self.fresh(INT_NAMES)
                cls.append(("it", x, src_e))
                self.push(); pushed += 1
                self.declare(x, "i")
            else:
                i_, x = r.sample(["i", "j", "x", "y"], 2) if r.random() < 0.95 else ("i", "i")
                cls.append(("item", i_, x, src_e))
                self.push(); pushed += 1
                self.declare(i_, "i"); self.declare(x, "i")
        self.loops += 1
        yielding = r.random() < 0.5 if yielding is None else yielding
        if yielding:
            c = r.random()
            if c < 0.10:
                body = ("yieldkv", self.expr("i", d + 1), self.expr("i", d + 1))
            elif c < 0.24:
                rd = r.choice(["first", "last", "count", "sum", "len", "fn", "fn"])
                if rd == "fn":
                    fe = self.leaf("f") if r.random() < 0.4 else ("lam", [("p", "l")], r.choice([P("len", V("l")), V("l"), P("append", V("l"), I(0)), ("list", [V("l"), V("l")])]))
                    rd = ("fn", fe)
                val = self.loop_body(d + 1, value=True) if r.random() < 0.5 else self.expr("i", d + 1)
                body = ("yieldinto", val, rd)
            elif c < 0.45:
                body = ("yield", self.lam(d + 1)[0])                # per-iteration closures
            elif c < 0.7:
                body = ("yield", self.loop_body(d + 1, value=True))
            else:
                body = ("yield", self.expr("a", d + 1))
        else:
            body = ("do", self.loop_body(d + 1))
        self.loops -= 1
        for _ in range(pushed):
            self.pop()
        return ("for", cls, body)

    def loop_body(self, d, value=False):
        r = self.r
        ss = []
        for _ in range(r.randint(1, 3)):
            c = r.random()
            if c < 0.3:
                ss.append(("if", self.expr("i", d + 1), self.jump(d + 1), None))
            else:
                ss.append(self.stmt(d + 1))
        if value:
            ss.append(self.expr("a", d + 1))
        return SEQ(*ss, trailing=(not value and r.random() < 0.2))

    def while_expr(self, d):
        r = self.r
        self.spend(3)
        vis = self.visible("i")
        k = self.fresh(["k", "n", "c", "a"], allow_shadow=False)
        if k in self.scopes[-1]:
            return self.for_expr(d)
        init = ("decl", k, I(0))
        self.declare(k, "i")
        self.push()
        self.loops += 1
        body = self.loop_body(d + 1)
        self.loops -= 1
        self.pop()
        bound = r.randint(1, 4)
        if r.random() < 0.75:
            w = ("while", P("lt", V(k), I(bound)), SEQ(("asg", k, P("add", V(k), I(1))), body))
        else:
            w = ("while", I(1), SEQ(("asg", k, P("add", V(k), I(1))), ("if", P("lt", I(bound), V(k)), ("break", 0, V(k) if r.random() < 0.5 else None), None), body))
        return SEQ(init, w)

    def loop_expr(self, d):
        return self.while_expr(d) if self.r.random() < 0.4 else self.for_expr(d)

    def switch_expr(self, d, kind="a"):
        r = self.r
        self.spend(2)
        sc = self.expr("i", d + 1)
        arms = []
        for _ in range(r.randint(0, 2)):
            arms.append((("lit", r.choice([0, 1, 2, 3, 5])), self.in_scope({}, lambda: self.stmt(d + 1) if r.random() < 0.4 else self.expr(kind, d + 1))))
        c = r.random()
        if c < 0.55:
            x = self.fresh(INT_NAMES)
            arms.append((("bind", x), self.in_scope({x: "i"}, lambda: self.block(kind, d) if r.random() < 0.5 else self.expr(kind, d + 1))))
        elif c < 0.85 or not arms:
            arms.append((("wild",), self.in_scope({}, lambda: self.expr(kind, d + 1))))
        return ("switch", sc, arms)

    # -- statements (may declare in the current scope)
    def stmt(self, d):
        r = self.r
        self.spend()
        if self.budget <= 0 or d >= self.maxdepth:
            return P("print", self.leaf("a"))
        c = r.random()
        if c < 0.22:
            kind = r.choice("iiilff")
            if kind == "f":
                e, ar = self.lam(d + 1)
                x = self.fresh(FN_NAMES)
                self.declare(x, ("f", ar, self.last_ret))
                return ("decl", x, e)
            e = self.expr(kind, d + 1)
            x = self.fresh(INT_NAMES if kind == "i" else LIST_NAMES)
            self.declare(x, kind)
            return ("decl", x, e)
        if c < 0.36:
            vs = self.visible("i") + self.visible("l")
            if len(self.scopes) >= 3 and r.random() < 0.6:
                # prefer a variable declared two or more scopes further out
                far = [x for sc in self.scopes[:-2] for x, k in sc.items() if k[0] in "il" and not any(x in s2 for s2 in self.scopes[-2:])]
                vs = far or vs
            if vs:
                x = r.choice(vs)
                if x in self.visible("l"):
                    return ("asg", x, P("append", V(x), self.expr(r.choice("iif"), d + 1)))
                return ("asg", x, self.expr("i", d + 1))
            if r.random() < 0.1:
                return ("asg", r.choice(INT_NAMES), self.expr("i", d + 1))     # undeclared: error
            x = self.fresh(INT_NAMES)
            e = self.expr("i", d + 1)
            self.declare(x, "i")
            return ("decl", x, e)
        if c < 0.46:
            return P("print", *[self.expr(r.choice("iiil"), d + 1) for _ in range(r.randint(1, 2))])
        if c < 0.58:
            return self.loop_expr(d)
        if c < 0.66:
            cond = self.expr("i", d + 1)
            if r.random() < 0.25:      # the if as a value, branches possibly one-statement blocks
                return P("print", ("if", cond, self.single(self.expr("i", d + 1), 0.4), self.single(self.expr("i", d + 1), 0.4)))
            return ("if", cond, self.stmt(d + 1), self.stmt(d + 1) if r.random() < 0.4 else None)
        if c < 0.70:
            h = self.in_scope({"e": "a"}, lambda: self.stmt(d + 1) if r.random() < 0.5 else self.single(self.expr("a", d + 1), 0.2))
            t = ("try", self.single(self.risky(d + 1), 0.15), "e", h)
            return P("print", t) if r.random() < 0.3 else t
        if c < 0.74:
            return self.selective_try(d)
        if c < 0.78:
            return self.call(d)
        if c < 0.81:
            return self.switch_expr(d)
        if c < 0.84:
            # destructuring declaration / assignment
            if r.random() < 0.6:
                xs = r.sample(INT_NAMES, 2)
                for x in xs:
                    self.declare(x, "i")
                return ("decll", xs, ("list", [self.expr("i", d + 1), self.expr("i", d + 1)]) if r.random() < 0.85 else self.expr("l", d + 1))
            vs = self.visible("i")
            if len(vs) >= 2:
                xs = r.sample(vs, 2)
                return ("asgl", xs, ("list", [self.expr("i", d + 1), self.expr("i", d + 1)]))
            return P("print", self.leaf("a"))
        if c < 0.88 and (self.loops or r.random() < 0.1):
            j = self.jump(d)
            return j if r.random() < 0.3 else ("if", self.expr("i", d + 1), j, None)
        if c < 0.91 and (self.in_fn or r.random() < 0.1):
            j = ("ret", self.expr("a", d + 1) if r.random() < 0.7 else None)
            return j if r.random() < 0.3 else ("if", self.expr("i", d + 1), j, None)
        if c < 0.93:
            t = ("throw", self.expr(r.choice("iia"), d + 1))
            return t if r.random() < 0.2 else ("if", self.expr("i", d + 1), t, None)
        return self.idiom(d)

    # -- idioms the property statement singles out
    def idiom(self, d):
        r = self.r
        c = r.randint(0, 7)
        self.spend(6)
        if c == 0:      # counter factory: closure escaping its defining call
            mk, f, cn = self.fresh(["mk", "h"], False), self.fresh(["f", "g"], False), r.choice(["c", "n"])
            self.declare(mk, ("f", (0, 0), "f")); self.declare(f, ("f", (0, 0), "i"))
            start = r.randint(0, 5)
            return SEQ(("decl", mk, ("lam", [], SEQ(("decl", cn, I(start)), ("lam", [], SEQ(("asg", cn, P("add", V(cn), I(1))), V(cn)))))),
                       ("decl", f, ("call", V(mk), [])), ("call", V(f), []),
                       P("print", ("call", V(f), []), ("call", ("call", V(mk), []), [])))
        if c == 1:      # closures made in loop iterations, called after the loop
            fs, x = self.fresh(["fs", "gs"], False), r.choice(["x", "y"])
            self.declare(fs, "l")
            n = r.randint(2, 3)
            inner = ("lam", [], P("mul", V(x), I(r.randint(1, 3))))
            if r.random() < 0.5:
                mk = ("for", [("it", x, ("list", [I(i + 1) for i in range(n)]))], ("yield", inner))
                return SEQ(("decl", fs, mk), ("for", [("it", "f", V(fs))], ("do", P("print", ("call", V("f"), [])))))
            k = self.fresh(["k", "n"], False)
            self.declare(k, "i")
            return SEQ(("decl", fs, ("list", [])), ("decl", k, I(0)),
                       ("while", P("lt", V(k), I(n)), SEQ(("asg", k, P("add", V(k), I(1))), ("decl", x, V(k)), ("asg", fs, P("append", V(fs), inner)))),
                       ("for", [("it", "f", V(fs))], ("yield", ("call", V("f"), []))))
        if c == 2:      # shadow in an inner scope, then read the outer name
            x = self.fresh(INT_NAMES, False)
            self.declare(x, "i")
            v = r.randint(1, 5)
            inner = r.choice([
                ("for", [("it", x, ("list", [I(7), I(8)]))], ("do", P("print", V(x)))),
                ("call", ("lam", [("p", x)], SEQ(("asg", x, P("add", V(x), I(1))), P("print", V(x)))), [I(20)]),
                ("while", I(1), SEQ(("decl", x, I(30)), P("print", V(x)), ("break", 0, None))),
                ("try", ("throw", I(40)), x, P("print", V(x))),
                ("for", [("let", x, I(50))], ("do", SEQ(("asg", x, P("add", V(x), I(1))), P("print", V(x))))),
                ("switch", I(60), [(("lit", 1), I(0)), (("bind", x), SEQ(("asg", x, P("add", V(x), I(1))), P("print", V(x))))]),
                ("switch", I(1), [(("lit", 1), SEQ(("decl", x, I(70)), P("print", V(x)))), (("wild",), I(0))]),
            ])
            return SEQ(("decl", x, I(v)), inner, P("print", V(x)))
        if c == 3:      # multi-level break with yield
            x, y = r.sample(["x", "y", "z"], 2)
            lv = r.choice([0, 1, 1, 2])
            val = r.choice([None, P("add", V(x), V(y))])
            sig = ("break", lv, val) if r.random() < 0.6 else ("cont", lv)
            cond = ("if", P("eq", P("add", V(x), V(y)), I(r.choice([12, 21, 22, 23]))), sig, None)
            if r.random() < 0.6:
                inner = ("for", [("it", y, ("list", [I(10), I(20)]))], ("yield", SEQ(cond, P("add", V(x), V(y)))))
            elif r.random() < 0.5:
                inner = SEQ(("for", [("it", y, ("list", [I(10), I(20)]))], ("do", SEQ(cond, P("print", V(x), V(y))))), V(x))
            else:
                k = self.fresh(["k", "n"], False)
                inner = SEQ(("decl", k, I(0)), ("while", P("lt", V(k), I(2)),
                            SEQ(("asg", k, P("add", V(k), I(1))), ("decl", y, P("mul", V(k), I(10))), cond, P("print", V(x), V(y)))), V(x))
            return ("for", [("it", x, ("list", [I(1), I(2), I(3)]))], ("yield" if r.random() < 0.7 else "do", inner))
        if c == 4:      # throw across calls, caught outside
            f, g = self.fresh(["f", "h"], False), self.fresh(["g", "mk"], False)
            self.declare(f, ("f", (1, 1), "i")); self.declare(g, ("f", (1, 1), "i"))
            return SEQ(("decl", f, ("lam", [("p", "p")], SEQ(("if", P("lt", I(1), V("p")), ("throw", V("p")), None), V("p")))),
                       ("decl", g, ("lam", [("p", "q")], SEQ(P("print", V("q")), P("add", ("call", V(f), [V("q")]), I(100))))),
                       ("for", [("it", "x", ("list", [I(1), I(2), I(3)]))], ("yield", ("try", ("call", V(g), [V("x")]), "e", P("mul", V("e"), I(-1))))))
        if c == 5:      # break / continue crossing a call boundary inside a loop
            f = self.fresh(["f", "g"], False)
            self.declare(f, ("f", (1, 1), "i"))
            sig = r.choice([("break", 0, V("p")), ("cont", 0), ("break", 0, None), ("ret", V("p"))])
            return SEQ(("decl", f, ("lam", [("p", "p")], SEQ(("if", P("eq", V("p"), I(2)), sig, None), P("mul", V("p"), I(10))))),
                       ("for", [("it", "x", ("list", [I(1), I(2), I(3)]))], (r.choice(["yield", "do"]), SEQ(P("print", V("x")), ("call", V(f), [V("x")])))))
        if c == 7:      # writes to variables two and three frames out, from loops inside calls
            a, t, f = self.fresh(["acc", "ys"], False), self.fresh(["n", "c", "z"], False), self.fresh(["f", "g"], False)
            self.declare(a, "l"); self.declare(t, "i"); self.declare(f, ("f", (1, 1), "i"))
            inner = SEQ(("asg", a, P("append", V(a), P("mul", V("p"), V("i")))), ("asg", t, P("add", V(t), I(1))))
            loop = r.choice([("for", [("it", "i", ("list", [I(1), I(2)]))], ("do", inner)),
                             ("for", [("it", "i", ("list", [I(1), I(2)])), ("let", "j", V("i"))], ("do", inner)),
                             ("for", [("it", "i", ("list", [I(3)]))], ("do", ("call", ("lam", [], inner), [])))])
            return SEQ(("decl", a, ("list", [])), ("decl", t, I(0)),
                       ("decl", f, ("lam", [("p", "p")], SEQ(loop, V(t)))),
                       P("print", ("call", V(f), [I(1)]), ("call", V(f), [I(5)])), P("print", V(a), V(t)))
        # defaults and splats
        f = self.fresh(["f", "g", "h"], False)
        self.declare(f, ("f", (1, 3), "l"))
        ps = r.choice([[("p", "p"), ("def", "q", P("add", V("p") if r.random() < 0.3 else I(5), I(1)))],
                       [("p", "p"), ("splat", "q")], [("splat", "p"), ("p", "q")], [("p", "p"), ("def", "q", I(4)), ("splat", "y")]])
        return SEQ(("decl", f, ("lam", ps, ("list", [V("p"), V("q")]))),
                   P("print", ("call", V(f), [I(1)]), ("call", V(f), [I(1), I(2)]), ("call", V(f), [I(1), I(2), I(3)])),
                   ("call", V(f), [("splat", ("list", [I(7), I(8)]))]))


def gen_program(rng, maxnodes=25, maxdepth=5):
    for _ in range(50):
        g = Gen(rng, rng.randint(8, maxnodes), maxdepth)
        ss = [g.stmt(1) for _ in range(rng.randint(1, 4))]
        ss.append(g.single(g.expr("a", 1), 0.08))
        e = SEQ(*ss)
        if size(e) <= maxnodes * 3 and depth(e) <= maxdepth + 6:
            return e
    return e


# ----------------------------------------------------------------------------- exhaustive small programs
def small_programs(maxsize):
    """all programs with at most `maxsize` nodes over a reduced vocabulary (two names)"""
    from functools import lru_cache

    @lru_cache(None)
    def ex(n):
        out = []
        if n == 1:
            out += [I(1), V("x"), V("f"), ("cont", 0), ("cont", 1), ("break", 0, None), ("break", 1, None), ("ret", None)]
            return out
        for e in ex(n - 1):
            out += [("decl", "x", e), ("asg", "x", e), ("decl", "f", ("lam", [], e)), ("throw", e), ("break", 0, e),
                    ("call", e, []), ("lam", [("p", "x")], e), ("ret", e), ("seq", 1, [e]), ("seq", 0, [e])]
        for a in range(1, n - 1):
            b = n - 1 - a
            for ea in ex(a):
                for eb in ex(b):
                    out += [SEQ(ea, eb), ("while", ea, eb), ("and", ea, eb), ("try", ea, "x", eb), ("call", ea, [eb]),
                            ("for", [("it", "x", ("list", [ea]))], ("yield", eb)), ("for", [("it", "x", ("list", [ea]))], ("do", eb)),
                            ("if", ea, eb, None), P("add", ea, eb),
                            ("tryp", ea, ("int", 1), eb), ("tryp", ea, ("int", 2), eb)]
        return out
    res = []
    for n in range(1, maxsize + 1):
        res += ex(n)
    return res


def small_level(n):
    """exactly-n-node programs of the same reduced vocabulary"""
    lo = len(small_programs(n - 1))
    return small_programs(n)[lo:]


# ----------------------------------------------------------------------------- running and comparing
def impl_obs(r):
    st = r.get("status")
    if st == "ok":
        return ("ok", r["val"], r.get("out", ""))
    if st == "err":
        if r.get("class") == "fuel":
            return ("fuel",)
        return ("err", r.get("thrown"), r.get("out", ""))
    if st == "sig":
        if r["sig"] == "break":
            return ("sig", f"break {r['n']} {r['val'] if r['val'] is not None else '-'}", r.get("out", ""))
        if r["sig"] == "continue":
            return ("sig", f"continue {r['n']}", r.get("out", ""))
        return ("sig", f"return {r['val']}", r.get("out", ""))
    return (st, r.get("msg"))        # parse / panic / hang / abort / badjson


def model_obs(line):
    head, _, out = line.partition("\t")
    out = out.replace("\\n", "\n")
    if head.startswith("ok "):
        return ("ok", head[3:], out)
    if head.startswith("err "):
        return ("err", None if head[4:] == "?" else head[4:], out)
    if head.startswith("sig "):
        return ("sig", head[4:], out)
    if head in ("unsupported", "fuel"):
        return (head,)
    return ("runner", head)


def same(io, mo):
    if io[0] != mo[0]:
        return False
    if io[0] == "err":
        return io[2] == mo[2] and (mo[1] is None or mo[1] == io[1])
    return io == mo


def evaluate(cases, runner, timeout=20.0):
    """cases: list of ASTs. returns list of dicts(ast, src, impl, model, verdict)"""
    srcs = [src(e) for e in cases]
    res = common.run_prog(srcs, timeout=timeout, fuel=IMPL_FUEL)
    # a wall-clock timeout / lost worker on a loaded machine is not yet an observation: the fuel hook
    # bounds every evaluation, so re-run such cases one at a time with a generous limit
    redo = [i for i, r in enumerate(res) if r.get("status") in ("hang", "abort", "badjson")]
    for i in redo[:50]:
        res[i] = common.run_harness(common.harness_bin("prog"), [{"id": 0, "fuel": IMPL_FUEL, "fresh": False, "src": srcs[i]}],
                                    timeout=180.0, workers=1)[0]
    # the same programs the way the command-line interpreter runs them (src/main.rs): through noulith::warn,
    # the static name-resolution pass over the whole program, and then evaluate.  No name the generator
    # declares with := is a global, so the pass must not change what a program does.
    res_cli = common.run_prog(srcs, timeout=timeout, fuel=IMPL_FUEL, cli=True)
    for i, r in enumerate(res_cli):
        if r.get("status") in ("hang", "abort", "badjson") and i not in redo[50:]:
            res_cli[i] = common.run_harness(common.harness_bin("prog"), [{"id": 0, "fuel": IMPL_FUEL, "fresh": False, "cli": True, "src": srcs[i]}],
                                            timeout=180.0, workers=1)[0]
    rows = []
    todo = []
    for e, s, r, rc in zip(cases, srcs, res, res_cli):
        io = impl_obs(r)
        ic = impl_obs(rc)
        row = {"ast": e, "src": s, "impl": io, "impl_cli": ic, "model": None, "msg": r.get("msg")}
        rows.append(row)
        if io[0] != "fuel":
            todo.append(row)
    if runner:
        lines = [f"{MODEL_FUEL} {sx(row['ast'])}" for row in todo]
        for row, ml in zip(todo, common.run_model(runner, lines)):
            row["model"] = model_obs(ml)
    for row in rows:
        io, mo = row["impl"], row["model"]
        if io[0] in ("panic", "hang", "abort", "badjson"):
            row["verdict"] = "crash"
        elif io[0] == "parse":
            row["verdict"] = "render-bug"
        elif io[0] == "fuel" or mo is None:
            row["verdict"] = "discard-fuel" if io[0] == "fuel" else "no-model"
        elif mo[0] == "fuel":
            row["verdict"] = "discard-fuel"
        elif mo[0] == "unsupported":
            row["verdict"] = "discard-unsupported"
        elif mo[0] == "runner":
            row["verdict"] = "runner-bug"
        else:
            row["verdict"] = "agree" if same(io, mo) else "disagree"
        ic = row["impl_cli"]
        if row["verdict"] == "agree" and ic[0] != "fuel" and not same(ic, mo):
            # evaluate alone agrees with the reference interpreter; evaluate after the command line's warn pass does not
            row["verdict"] = "crash" if ic[0] in ("panic", "hang", "abort", "badjson") else "disagree"
            row["impl_plain"], row["impl"], row["cli"] = io, ic, True
    return rows


def shrink(e, runner, want, rounds=40):
    """greedy structural shrinking: replace subterms by literals / their own children, drop statements;
    keep a candidate when its verdict is still `want`"""
    def candidates(e):
        out = []

        def walk(node, path):
            if node[0] == "seq" and len(node[2]) > 1:
                for i in range(len(node[2])):
                    rest = node[2][:i] + node[2][i + 1:]
                    out.append(replace_at(e, path, ("seq", node[1], rest) if len(rest) > 1 or node[1] else rest[0]))
            if node[0] not in ("int", "null", "var", "str"):
                for lit in (I(1), ("null",)):
                    out.append(replace_at(e, path, lit))
            for p, c in children(node):
                if path:   # hoist a child
                    out.append(replace_at(e, path, c))
                walk(c, path + list(p))
        walk(e, [])
        seen, uniq = set(), []
        for c in out:
            k = sx(c)
            if k not in seen and size(c) < size(e):
                seen.add(k)
                uniq.append(c)
        return sorted(uniq, key=size)
    for _ in range(rounds):
        cands = candidates(e)[:400]
        if not cands:
            break
        rows = evaluate(cands, runner)
        nxt = next((row["ast"] for row in rows if row["verdict"] == want), None)
        if nxt is None:
            break
        e = nxt
    return e


def report(ctx, rows, runner):
    bad = [r for r in rows if r["verdict"] in ("disagree", "crash", "render-bug", "runner-bug")]
    seen = set()
    for row in bad[:6]:
        v = row["verdict"]
        e = row["ast"]
        if v in ("disagree", "crash") and runner:
            again = evaluate([e], runner)[0]
            if again["verdict"] != v:
                continue                      # not reproducible (e.g. a timeout under load): no alarm
            # a shadow idiom is not shrunk: dropping the binder would leave a read of the global function of that
            # name, which the reference interpreter (whose globals are its own builtins only) cannot judge
            if not (set(re.findall(r"[A-Za-z_]+", row["src"])) & set(SHADOW_GLOBALS)):
                e = shrink(e, runner, v)
            row = evaluate([e], runner)[0]
            if row["verdict"] != v:
                row = again
        key = (v, str(row["impl"]), str(row["model"]))
        if key in seen:
            continue
        seen.add(key)
        replay = {"program": row["src"], "model_term": sx(row["ast"]), "ast": row["ast"], "implementation": row["impl"],
                  "implementation_msg": row.get("msg"), "reference_interpreter": row["model"]}
        if row.get("cli"):
            replay["path"] = ("run as src/main.rs runs a program: noulith::warn (static freeze pass) then evaluate; "
                              "evaluate alone gives " + json.dumps(row.get("impl_plain")))
        if v == "crash":
            replay["what"] = "the implementation panicked / aborted / hung on a terminating program of the C05 vocabulary"
            ctx.violation("property", replay, found=True)
        elif v == "disagree":
            replay["what"] = ("value, printed output or raised/not-raised of the implementation differs from the reference interpreter "
                              "of the documented rules (Lang/Eval.v) on this program")
            ctx.violation("property", replay, found=True)
        else:
            replay["what"] = "driver problem (renderer produced a program the parser rejects, or the model runner failed): no failing input"
            ctx.violation("correspondence", replay, found=False)
    return bad


SHADOW_GLOBALS = ["count", "max", "id", "words", "sum", "first", "min", "last"]


def shadow_idioms():
    """scoped binders (catch variable, catch pattern names, lambda parameter with and without default, splat parameter,
    for variable, <<- pair, for-clause declaration, switch binding) named after GLOBAL functions and read only inside
    their scope, also from a closure that escapes it: the binder shadows the global, for evaluate and for the
    command line's static pass alike"""
    G = SHADOW_GLOBALS
    out = []
    for k, g in enumerate(G):
        h = G[(k + 3) % len(G)]
        v = 10 + k
        out += [
            ("try", ("throw", I(v)), g, P("add", V(g), I(1))),
            SEQ(("decl", "mk", ("lam", [], ("try", ("throw", I(v)), g, ("lam", [("p", "d")], P("add", V(g), V("d")))))),
                ("decl", "f", ("call", V("mk"), [])), ("call", V("f"), [I(5)])),
            ("tryp", ("throw", ("list", [I(v), I(2)])), ("names", g, h), P("add", V(g), V(h))),
            ("tryp", ("throw", I(v)), ("name", g), P("mul", V(g), I(2))),
            SEQ(("decl", "f", ("lam", [("p", g)], P("add", V(g), I(1)))), ("call", V("f"), [I(v)])),
            SEQ(("decl", "f", ("lam", [("p", "x"), ("def", g, I(3))], P("add", V(g), V("x")))), P("add", ("call", V("f"), [I(v)]), ("call", V("f"), [I(1), I(2)]))),
            SEQ(("decl", "f", ("lam", [("splat", g)], P("len", V(g)))), ("call", V("f"), [I(1), I(v)])),
            ("for", [("it", g, ("list", [I(1), I(v)]))], ("yield", P("mul", V(g), I(2)))),
            ("for", [("item", g, h, ("list", [I(7), I(v)]))], ("yield", P("add", V(g), V(h)))),
            ("for", [("it", "x", ("list", [I(1), I(v)])), ("let", g, P("add", V("x"), I(1)))], ("yield", V(g))),
            SEQ(("decl", "fs", ("for", [("it", g, ("list", [I(1), I(v)]))], ("yield", ("lam", [], V(g))))),
                ("for", [("it", "f", V("fs"))], ("yield", ("call", V("f"), [])))),
            ("switch", I(v), [(("lit", 0), I(0)), (("bind", g), P("add", V(g), I(1)))]),
            ("try", ("for", [("it", g, ("list", [I(1), I(v)]))], ("do", ("throw", V(g)))), h, P("add", V(h), I(100))),
        ]
    return out


def nontrivial(e, feats):
    """a program is non-trivial when it has a lambda, a loop or a try, i.e. something a scope or a signal can go wrong in"""
    return any(k in feats for k in ("lam", "for", "while", "try", "tryp", "switch"))


def run(ctx):
    runner = common.standard_prelude(ctx)
    rng = ctx.rng
    corpus = []
    cdir = common.ROOT / "corpus"
    for f in sorted(cdir.glob("C05-*.json")):
        corpus.append(tuplify(json.loads(f.read_text())["ast"]))
    n = ctx.n(1500, 40000)
    progs = corpus + shadow_idioms() + [gen_program(rng) for _ in range(n)]
    small = small_programs(4)
    if not ctx.quick():       # level 5 has ~626 000 programs: a seeded sample of 150 000 of them
        small = small + rng.sample(small_level(5), 150000)
    rows = []
    for i in range(0, len(progs), 4000):
        rows += evaluate(progs[i:i + 4000], runner)
    srows = []
    for i in range(0, len(small), 8000):
        srows += evaluate(small[i:i + 8000], runner)
    bad = report(ctx, rows + srows, runner)
    verdicts = {}
    for row in rows + srows:
        verdicts[row["verdict"]] = verdicts.get(row["verdict"], 0) + 1
    feats_total, distinct, sizes, outcomes = {}, set(), {}, {}
    for row in rows:
        if row["verdict"] != "agree":
            continue
        f = features(row["ast"])
        for k in f:
            feats_total[k] = feats_total.get(k, 0) + 1
        if nontrivial(row["ast"], f):
            distinct.add(row["src"])
        b = min(size(row["ast"]) // 10 * 10, 50)
        sizes[f"{b}+"] = sizes.get(f"{b}+", 0) + 1
        outcomes[row["impl"][0]] = outcomes.get(row["impl"][0], 0) + 1
    agree = [r for r in rows if r["verdict"] == "agree"]
    ctx.coverage.update({
        "evaluations": len(rows) + len(srows),
        "compared_generated": len(agree),
        "compared_small_exhaustive": sum(1 for r in srows if r["verdict"] == "agree"),
        "small_exhaustive_total": len(srows),
        "distinct_nontrivial": len(distinct),
        "rule": "generated programs (grammar-based, <= ~25 generator nodes, nesting <= 5 below idioms) on which both sides finished inside the vocabulary and agreed; "
                "non-trivial = contains a lambda, a loop or a try; distinct by program text. The small-program sweep enumerates every "
                f"program of <= 4 nodes{'' if ctx.quick() else ' plus a seeded sample of 150 000 of the 626 304 five-node programs'} over a reduced vocabulary (x, f, 1, :=, =, lambda, call, one-statement blocks (e) and (e;), seq, while, and, try, for-yield, for-do, try with the selective patterns `1` and `2`, if, +, throw, break, break break, continue, break continue, return).",
        "verdicts": verdicts,
        "constructs_in_agreeing_programs": dict(sorted(feats_total.items())),
        "size_histogram_nodes": sizes,
        "outcomes_of_agreeing_programs": outcomes,
        "samples": [{"program": r["src"], "implementation": r["impl"], "reference": r["model"]} for r in agree[::max(1, len(agree) // 10)]][:10],
        "model_fuel": MODEL_FUEL, "impl_fuel": IMPL_FUEL,
    })
    ctx.assumptions += ["values are immutable data (licensed by C01); integers are exact (C06)",
                        "error wording, Display of functions and dictionary order are not compared",
                        "programs that exhaust the fuel of either side, or use a builtin outside its modelled domain, are discarded (counted in verdicts)"]
    return common.conclude(ctx)


def tuplify(x):
    if isinstance(x, list):
        if x and isinstance(x[0], str) and x[0] in ("null", "int", "str", "list", "var", "seq", "decl", "asg", "decll", "asgl", "if", "while",
                                                     "for", "break", "cont", "ret", "try", "throw", "and", "or", "coal", "lam", "call", "prim",
                                                     "eval", "splat", "it", "item", "let", "guard", "do", "yield", "yieldkv", "p", "def", "switch", "lit", "bind", "wild", "yieldinto", "fn", "tryp", "name", "names"):
            return tuple(tuplify(y) for y in x)
        return [tuplify(y) for y in x]
    return x


def replay(ctx, rep):
    runner = common.standard_prelude(ctx)
    e = tuplify(rep["ast"])
    row = evaluate([e], runner)[0]
    print(json.dumps({"program": row["src"], "implementation": row["impl"], "reference_interpreter": row["model"], "verdict": row["verdict"]}))
    return 0 if row["verdict"] in ("agree", "discard-fuel", "discard-unsupported") else 1
