"""C09 - dictionaries are finite maps keyed by `==` on hashable values.

Correspondence, every run:
 (a) hash tie: for every key of the pool the real sequence of `Hasher` writes (recording hasher in
     harness/src/bin/c09.rs) is compared token for token with `key_hash` of the extracted Coq model, `ObjKey ==`
     on all pairs with `key_eq`; the independent oracle (exact values: Fraction / frozenset) decides whether a
     disagreement is a failing input of the property (two equal keys with different write sequences, or an
     equality that differs from exact-value equality) or only a change of the modelled scheme;
 (b) in-language lookups `{a: 1}[b]`, `b in {a: 1}` for pairs of pool keys;
 (c) histories of 10-30 dictionary operations over pool keys run as Noulith statements in one env, observables
     after every step (result, full sorted contents) compared with the extracted model (flat slot model and the
     literal bucket structure) and with a Python association list keyed by exact value;
 (d) unique / set / count_distinct / frequencies / group_all / memoize on lists of pool keys;
 (e) set / unique / count_distinct / frequencies / group_all / keys / values / items / dict on every input kind they accept
     (lists, dictionaries with values and with defaults, strings, vectors, bytes, streams, results of one another), the full
     canonical result (values and default included) compared with the oracle and the extracted model.
"""
import json, struct
from fractions import Fraction
import common

ID = "C09"
MANIFEST = dict(
    technique="Coq proof (key equality is an equivalence, the Hasher write sequence is coherent with it, the bucket model refines the "
              "finite map on ==-classes for every operation history) + correspondence: recording-Hasher token comparison, all-pairs ==, "
              "operation histories against the extracted model and a Python exact-value oracle",
    text="Machine-checked theorems (Coq 8.16, no axioms) about a Gallina transcription of Eq/Hash for ObjKey (core.rs), NNum/NInt "
         "equality and total_hash (nnum.rs, nint.rs, after repair 8f04d9f) and of the HashMap-based dictionary operations: key_eq is an "
         "equivalence on valid keys; key_eq k1 k2 implies equal Hasher write sequences (for every inner hasher; nested dict hash is "
         "insertion-order independent); for every history of get/!?/in/len/set/op=/remove/|./-./insert/||/||+/&&/--/== and for "
         "unique/set/count_distinct/frequencies/group_all/memoize the hash-bucket model equals the finite map on ==-classes; equal keys "
         "address the same entry, unequal keys never collide (for any hash function); Eq as written (hashed nested lookup) equals key_eq; "
         "the literal bucket structure (buckets labelled by write sequences) is the slot model. The model is tied to /repo on every run by "
         "comparing the real Hasher write sequence of every pool key token for token with the model, == on all pairs, and operation "
         "histories, with an independent Python oracle (Fraction/frozenset exact values).",
    note="Trusted: Coq kernel; hand-written models Dict/KeyEq.v, KeyHash.v, DictMap.v (tie to the code is the correspondence run: "
         "differential testing on a key pool and random histories); std HashMap/SipHash (a lookup finds an entry iff it is in the bucket "
         "selected by the written stream and Eq; SipHash-1-3 is transcribed only to reproduce the inner per-entry hash numbers); "
         "num-bigint/num-rational (BigRational in lowest terms, from_float exact), IEEE ==; extraction + OCaml runner; Rust harness; "
         "Python oracle. HashMap iteration order is not modelled (contents are compared sorted). keys/values/items, dict(), set(), "
         "literal construction are compared through contents; the closure run by memoize/group_all is fixed to the identity.",
    design="6-C09")


MAX_REPORTS = 12


def report(ctx, kind, rep, found):
    """at most MAX_REPORTS replay files per run (the first ones are the simplest: pool order is base keys first)"""
    if len(ctx.violations) < MAX_REPORTS:
        ctx.violation(kind, rep, found=found)


# ----------------------------------------------------------------------------- key pool (Noulith sources)
NUM_SOURCES = [
    # integers (small, boundary, big; small values in big representation)
    "0", "1", "2", "3", "(0-1)", "(7//2)", "(2^64-2^64+1)", "(2^53)", "(2^53+1)", "(2^63-1)", "(2^63)", "(0-2^63)", "(0-2^63-1)",
    "(2^64)", "(0-2^64)", "(10^30)", "1000000000000000019884624838656", "(2^200)",
    # rationals (integral ones stay rationals)
    "(1/2)", "(2/2)", "(4/2)", "(3/2)", "(1/3)", "(0/5)", "((0-1)/2)", "(2^64/1)", "(2^65/2)", "(1/2^70)", "(3/2^60)", "(10^30/3)",
    "((0-2^63)/1)", "(1/10)", "(3602879701896397/36028797018963968)",
    # floats
    "0.0", "(-0.0)", "1.0", "2.0", "3.0", "0.5", "1.5", "(-0.5)", "(-1.0)", "0.1", "(2.0^53)", "(2.0^63)", "(-(2.0^63))", "(2.0^64)",
    "(-(2.0^64))", "1e30", "1e300", "5e-324", "(1.0/3)", "(1.0/0.0)", "((0-1.0)/0.0)", "(0.0/0.0)", "(3.0/2^60)", "(1.0/2^70)", "(2.0^200)",
    # complex
    "(1+0i)", "(0.5+0i)", "(2^64+0i)", "(1+2i)", "(0+1i)", "(1-0i)", "(0i)", "(1.5+0.5i)", "((0.0/0.0)+1i)", "(1+(0.0/0.0)*1i)",
    "((1.0/0.0)+0i)", "(0.1+0i)", "(3+0i)", "(2+0i)",
]
OTHER_SOURCES = ['null', '""', '"a"', '"ab"', '"é"', '"1"', "B[]", "B[1,2]", "B[97]", "[]", "{}"]


# ----------------------------------------------------------------------------- canonical text <-> structure
class P:
    def __init__(self, s):
        self.s, self.i = s, 0

    def peek(self):
        return self.s[self.i] if self.i < len(self.s) else ""

    def eat(self, c):
        assert self.s.startswith(c, self.i), (self.s, self.i, c)
        self.i += len(c)

    def until(self, stops):
        j = self.i
        while j < len(self.s) and self.s[j] not in stops:
            j += 1
        r = self.s[self.i:j]
        self.i = j
        return r


def fbits(t):
    return "nan" if t == "nan" else int(t, 16)


def parse_canon(p):
    c = p.peek()
    if c == "N":
        p.eat("N")
        return ("N",)
    if c == "I":
        p.eat("I")
        return ("I", int(p.until(",]}:|")))
    if c == "R":
        p.eat("R")
        n = int(p.until("/"))
        p.eat("/")
        return ("R", n, int(p.until(",]}:|")))
    if c == "F":
        p.eat("F")
        return ("F", fbits(p.until(",]}:|")))
    if c == "C":
        p.eat("C")
        re = fbits(p.until(","))
        p.eat(",")
        return ("C", re, fbits(p.until(",]}:|")))
    if c == "S":
        p.eat('S"')
        s = p.until('"')
        p.eat('"')
        return ("S", s)
    if c in "LVB":
        p.eat(c + "[")
        xs = []
        while p.peek() != "]":
            xs.append(int(p.until(",]")) if c == "B" else parse_canon(p))
            if p.peek() == ",":
                p.eat(",")
        p.eat("]")
        return (c, tuple(xs))
    if c == "D":
        p.eat("D{")
        es = []
        while p.peek() not in "}|":
            k = parse_canon(p)
            p.eat(":")
            v = parse_canon(p)
            es.append((k, v))
            if p.peek() == ",":
                p.eat(",")
        dflt = None
        if p.peek() == "|":
            p.eat("|")
            dflt = parse_canon(p)  # a default: ignored by Eq and Hash, kept as an optional third component
        p.eat("}")
        return ("D", tuple(es)) if dflt is None else ("D", tuple(es), dflt)
    raise ValueError(p.s[p.i:])


def parse(s):
    p = P(s)
    k = parse_canon(p)
    assert p.i == len(s), s
    return k


def show_f(b):
    return "nan" if b == "nan" else "%016x" % b


def canon(k):
    t = k[0]
    if t == "N":
        return "N"
    if t == "I":
        return "I%d" % k[1]
    if t == "R":
        return "R%d/%d" % (k[1], k[2])
    if t == "F":
        return "F" + show_f(k[1])
    if t == "C":
        return "C" + show_f(k[1]) + "," + show_f(k[2])
    if t == "S":
        return 'S"' + k[1] + '"'
    if t == "B":
        return "B[" + ",".join(str(x) for x in k[1]) + "]"
    if t in "LV":
        return t + "[" + ",".join(canon(x) for x in k[1]) + "]"
    if t == "D":
        return "D{" + ",".join(sorted(canon(a) + ":" + canon(b) for a, b in k[1])) + ("|" + canon(k[2]) if len(k) > 2 else "") + "}"
    raise ValueError(k)


NANBITS = 0x7ff8000000000000


def model_key(k):
    """prefix form read by ocaml/c09.ml"""
    t = k[0]
    fb = lambda b: str(NANBITS if b == "nan" else b)
    if t == "N":
        return "N"
    if t == "I":
        return "I %d" % k[1]
    if t == "R":
        return "Q %d %d" % (k[1], k[2])
    if t == "F":
        return "F " + fb(k[1])
    if t == "C":
        return "C " + fb(k[1]) + " " + fb(k[2])
    if t == "S":
        b = k[1].encode("utf8")
        return " ".join(["S", str(len(b))] + [str(x) for x in b])
    if t == "B":
        return " ".join(["B", str(len(k[1]))] + [str(x) for x in k[1]])
    if t in "LV":
        return " ".join([t, str(len(k[1]))] + [model_key(x) for x in k[1]])
    if t == "D":
        return " ".join(["D", str(len(k[1]))] + [model_key(a) + " " + model_key(b) for a, b in k[1]])
    raise ValueError(k)


# ----------------------------------------------------------------------------- the oracle: exact values
def fval(b):
    if b == "nan":
        return "nan"
    x = struct.unpack(">d", struct.pack(">Q", b))[0]
    if x != x:
        return "nan"
    if x in (float("inf"), float("-inf")):
        return "inf" if x > 0 else "-inf"
    return Fraction(x)  # exact


def cls(k):
    """a hashable Python value such that Python == on it is exact-value equality of keys (NaN equal to itself)"""
    t = k[0]
    if t in "IRFC":
        if t == "I":
            re, im = Fraction(k[1]), Fraction(0)
        elif t == "R":
            re, im = Fraction(k[1], k[2]), Fraction(0)
        elif t == "F":
            re, im = fval(k[1]), Fraction(0)
        else:
            re, im = fval(k[1]), fval(k[2])
        if re == "nan" or im == "nan":
            return ("num", "nan")
        return ("num", re, im)
    if t in "NSB":
        return k
    if t == "L":
        return ("L", tuple(cls(x) for x in k[1]))
    if t == "V":
        return ("V", tuple(cls(x) for x in k[1]))
    if t == "D":
        return ("D", frozenset((cls(a), cls(b)) for a, b in k[1]))
    raise ValueError(k)


# ----------------------------------------------------------------------------- pool construction
def build_pool(ctx, ncomp):
    """sources of base keys plus random nestings; composite keys come in variants that substitute equal
    alternatives and permute dict entries, so that many equal-but-different-representation pairs exist"""
    rng = ctx.rng
    base = NUM_SOURCES + OTHER_SOURCES
    # groups of sources believed equal (only used to build variants; truth comes from the oracle on canon)
    groups = [["1", "1.0", "(2/2)", "(1+0i)", "(7//2-2)"], ["2", "2.0", "(4/2)", "(2+0i)"], ["(1/2)", "0.5", "(0.5+0i)"],
              ["0", "0.0", "(-0.0)", "(0/5)", "(0i)"], ["(2^64)", "(2.0^64)", "(2^64/1)", "(2^64+0i)"], ["(0.0/0.0)", "((0.0/0.0)+1i)"],
              ["(3/2)", "1.5"], ["3", "3.0", "(3+0i)"], ['"a"'], ["null"], ["(1/3)"], ["(1.0/0.0)", "((1.0/0.0)+0i)"],
              ["0.1", "(3602879701896397/36028797018963968)", "(0.1+0i)"], ["(2^63)", "(2.0^63)"]]
    numgroups = [g for g in groups if g[0] not in ('"a"', "null")]

    def template(depth):
        r = rng.random()
        if depth == 0 or r < 0.35:
            return ("g", rng.randrange(len(groups)))
        if r < 0.6:
            return ("L", [template(depth - 1) for _ in range(rng.randint(0, 3))])
        if r < 0.75:
            return ("V", [("n", rng.randrange(len(numgroups))) for _ in range(rng.randint(1, 3))])
        return ("D", [(template(depth - 1), template(depth - 1)) for _ in range(rng.randint(0, 3))])

    def inst(t):
        if t[0] == "g":
            return rng.choice(groups[t[1]])
        if t[0] == "n":
            return rng.choice(numgroups[t[1]])
        if t[0] == "L":
            return "[" + ", ".join(inst(x) for x in t[1]) + "]"
        if t[0] == "V":
            return "V(" + ", ".join(inst(x) for x in t[1]) + ")"
        es = [(inst(a), inst(b)) for a, b in t[1]]
        rng.shuffle(es)
        return "{" + ", ".join(a + ": " + b for a, b in es) + "}"

    comps = []
    for _ in range(ncomp):
        t = template(2)
        if t[0] in ("g", "n"):
            t = ("L", [t])
        for _ in range(3):
            comps.append(inst(t))
    fixed = ["[1, 2]", "V(1, 2)", "[1.0, (4/2)]", "V(1.0, (4/2))", "{1: 2, 3: 4}", "{3: 4, 1: 2}", "{(3+0i): 4.0, (2/2): (4/2)}",
             "[[1], {(1/2): [0.5]}]", "[[1.0], {0.5: [(1/2)]}]", "{{1: 2}: {3: 4}}", "{{1.0: 2.0}: {3.0: (4+0i)}}", '["a", null, 1]',
             "[B[97]]", '["a"]', "{1: null}", "{1}", "[[]]", "[{}]", "V(1)", "[1]", "{(0.0/0.0): 1}", "{((0.0/0.0)+2i): 1.0}"]
    seen, out = set(), []
    for s in base + fixed + comps:
        if s not in seen:
            seen.add(s)
            out.append(s)
    return out


# ----------------------------------------------------------------------------- (a) hash tie and all-pairs ==
def hash_tie(ctx, runner, pool_src):
    res = common.run_harness(common.harness_bin("c09"), [{"id": 0, "keys": pool_src, "eq": True}], timeout=120.0, workers=1)[0]
    pool = []
    if "keys" not in res:
        report(ctx, "property", {"what": "the key harness did not answer (panic/hang while building or hashing pool keys)", "result": res,
                                   "keys": pool_src}, True)
        return pool
    for src, r in zip(pool_src, res["keys"]):
        if "canon" not in r:
            # every pool source is a valid key: failing to evaluate/hash it is a failing input
            report(ctx, "property", {"what": "a valid key could not be built or hashed", "key": src, "result": r}, True)
            continue
        pool.append({"src": src, "canon": r["canon"], "key": parse(r["canon"]), "tokens": r["tokens"], "idx": len(pool), "row": None})
    rows = [row for row, r in zip(res["eq"], res["keys"]) if "canon" in r]
    ok_cols = [j for j, r in enumerate(res["keys"]) if "canon" in r]
    for e, row in zip(pool, rows):
        e["row"] = "".join(row[j] for j in ok_cols)
        e["cls"] = cls(e["key"])
        assert canon(e["key"]) == e["canon"], (canon(e["key"]), e["canon"])
    n = len(pool)
    mh = common.run_model(runner, ["hash " + model_key(e["key"]) for e in pool]) if runner else [None] * n
    pairs = [(i, j) for i in range(n) for j in range(n)]
    me = common.run_model(runner, ["eq %s %s" % (model_key(pool[i]["key"]), model_key(pool[j]["key"])) for i, j in pairs]) if runner else None
    st = {"hash_compared": 0, "eq_pairs": 0, "equal_pairs_cross_repr": 0, "hash_mismatch_model": 0}
    # coherence on the implementation itself (the property): equal keys, equal write sequences
    for i in range(n):
        for j in range(n):
            a, b = pool[i], pool[j]
            oracle_eq = a["cls"] == b["cls"]
            impl_eq = a["row"][j]
            st["eq_pairs"] += 1
            if oracle_eq and a["canon"] != b["canon"]:
                st["equal_pairs_cross_repr"] += 1
            rep = {"a": a["src"], "b": b["src"], "a_value": a["canon"], "b_value": b["canon"], "oracle_equal": oracle_eq,
                   "implementation_equal": impl_eq, "a_tokens": a["tokens"], "b_tokens": b["tokens"],
                   "program": "{%s: 1}[%s]" % (a["src"], b["src"])}
            if impl_eq not in "01" or (impl_eq == "1") != oracle_eq:
                rep["what"] = "ObjKey == differs from exact-value equality of the two keys (or panicked)"
                report(ctx, "property", rep, True)
            elif oracle_eq and a["tokens"] != b["tokens"]:
                rep["what"] = "two keys that are == make different Hasher write sequences: they address different HashMap entries"
                report(ctx, "property", rep, True)
            elif me is not None and me[i * n + j] != impl_eq:
                rep["what"] = "key_eq of the Coq model differs from ObjKey == (the oracle accepts the implementation)"
                rep["coq_model"] = me[i * n + j]
                report(ctx, "correspondence", rep, False)
    for e, m in zip(pool, mh):
        if m is None:
            continue
        st["hash_compared"] += 1
        e["model_tokens"] = m.split(" ") if m else []
        if e["model_tokens"] != e["tokens"]:
            st["hash_mismatch_model"] += 1
            if not any(v[0] == "property" for v in ctx.violations):
                report(ctx, "correspondence", {"what": "the Hasher write sequence of this key differs from key_hash of the Coq model; the "
                                                         "implementation's hash is coherent with == on the whole pool, so no failing input was found",
                                                 "key": e["src"], "value": e["canon"], "implementation_tokens": e["tokens"],
                                                 "coq_model_tokens": e["model_tokens"]}, False)
    return pool, st


# ----------------------------------------------------------------------------- (b) lookups through pairs
def lookups(ctx, pool, npairs):
    rng = ctx.rng
    n = len(pool)
    eqp = [(i, j) for i in range(n) for j in range(n) if i != j and pool[i]["cls"] == pool[j]["cls"]]
    nep = [(i, j) for i in range(n) for j in range(n) if pool[i]["cls"] != pool[j]["cls"]]
    rng.shuffle(nep)
    if len(eqp) > npairs:
        rng.shuffle(eqp)
        eqp = eqp[:npairs]
    sel = [(i, j, True) for i, j in eqp] + [(i, j, False) for i, j in nep[:npairs]]
    progs, exp = [], []
    for i, j, same in sel:
        a, b = pool[i]["src"], pool[j]["src"]
        progs.append("d := {%s: 7}; [d !? %s, %s in d, len(d |. %s), d == {%s: 7}]" % (a, b, b, b, b))
        exp.append("L[I7,I1,I1,I1]" if same else "L[N,I0,I2,I0]")
    res = common.run_prog(progs, timeout=20.0)
    bad = 0
    for (i, j, same), p, e, r in zip(sel, progs, exp, res):
        got = r.get("val") if r.get("status") == "ok" else r.get("status")
        if got != e:
            bad += 1
            report(ctx, "property", {"what": "equal keys must address the same entry and unequal keys must not collide "
                                               "([d !? b, b in d, len(d |. b), d == {b: 7}] for d = {a: 7})",
                                       "program": p, "a_value": pool[i]["canon"], "b_value": pool[j]["canon"], "oracle_equal": same,
                                       "expected": e, "implementation": got, "msg": r.get("msg")}, True)
    return {"lookup_programs": len(progs), "lookup_equal_pairs": len(eqp), "lookup_bad": bad}


# ----------------------------------------------------------------------------- (c) histories
OPS = ["get", "sget", "in", "len", "set", "mod", "rm", "addk", "disc", "ins", "union", "uadd", "inter", "diff", "deq"]
WEIGHTS = [5, 3, 4, 1, 7, 4, 3, 2, 2, 2, 2, 2, 1, 1, 2]


class Oracle:
    """association list keyed by exact value; independent of the Coq model"""

    def __init__(self, default):
        self.es = []  # [cls, key struct, value]
        self.default = default  # ("none",) or ("some", v)

    def find(self, c):
        for e in self.es:
            if e[0] == c:
                return e
        return None

    def set(self, k, v):
        e = self.find(cls(k))
        if e:
            e[2] = v
        else:
            self.es.append([cls(k), k, v])

    def remove(self, k):
        c = cls(k)
        self.es = [e for e in self.es if e[0] != c]

    @staticmethod
    def lit(pairs):
        o = Oracle(("none",))
        for k, v in pairs:
            o.set(k, v)
        return o

    def contents(self):
        body = ",".join(sorted(canon(e[1]) + ":" + showv(e[2]) for e in self.es))
        return "D{" + body + ("|" + showv(self.default[1]) if self.default[0] == "some" else "") + "}"

    def step(self, op):
        """returns 'val X' | 'done' | 'err' | None (None: value arithmetic would fail - the generator drops the op)"""
        t = op[0]
        if t in ("get", "sget"):
            e = self.find(cls(op[1]))
            if e:
                return "val " + showv(e[2])
            if self.default[0] == "some":
                return "val " + showv(self.default[1])
            return "err" if t == "get" else "val N"
        if t == "in":
            return "val I1" if self.find(cls(op[1])) else "val I0"
        if t == "len":
            return "val I%d" % len(self.es)
        if t in ("set", "ins"):
            self.set(op[1], op[2])
            return "done"
        if t == "mod":
            e = self.find(cls(op[1]))
            if e:
                if e[2] is None:
                    return None
                e[2] += op[2]
                return "done"
            if self.default[0] == "some":
                if self.default[1] is None:
                    return None
                self.set(op[1], self.default[1] + op[2])
                return "done"
            return "err"
        if t == "rm":
            e = self.find(cls(op[1]))
            if not e:
                return "err"
            self.remove(op[1])
            return "val " + showv(e[2])
        if t == "addk":
            self.set(op[1], None)
            return "done"
        if t == "disc":
            self.remove(op[1])
            return "done"
        lit = Oracle.lit(op[1])
        if t == "union":
            for e in lit.es:
                self.set(e[1], e[2])
            return "done"
        if t == "uadd":
            for e in lit.es:
                f = self.find(e[0])
                if f and (f[2] is None or e[2] is None):
                    return None
            for e in lit.es:
                f = self.find(e[0])
                if f:
                    f[2] += e[2]
                else:
                    self.es.append(list(e))
            return "done"
        if t == "inter":
            self.es = [e for e in self.es if lit.find(e[0])]
            return "done"
        if t == "diff":
            self.es = [e for e in self.es if not lit.find(e[0])]
            return "done"
        if t == "deq":
            same = len(self.es) == len(lit.es) and all((lit.find(e[0]) or [0, 0, ("x",)])[2] == e[2] for e in self.es)
            return "val I1" if same else "val I0"
        raise ValueError(op)


def showv(v):
    return "N" if v is None else "I%d" % v


def srcv(v):
    return "null" if v is None else (str(v) if v >= 0 else "(0-%d)" % -v)


def modv(v):
    return "n" if v is None else str(v)


def render_op(op, pool):
    t = op[0]
    K = lambda i: pool[i]["src"]
    lit = lambda ps: "{" + ", ".join("%s: %s" % (K(i), srcv(v)) for i, v in ps) + "}"
    if t == "get":
        return "d[%s]" % K(op[1])
    if t == "sget":
        return "d !? %s" % K(op[1])
    if t == "in":
        return "%s in d" % K(op[1])
    if t == "len":
        return "len(d)"
    if t == "set":
        return "d[%s] = %s" % (K(op[1]), srcv(op[2]))
    if t == "mod":
        return "d[%s] += %s" % (K(op[1]), srcv(op[2]))
    if t == "rm":
        return "remove d[%s]" % K(op[1])
    if t == "addk":
        return "d |.= %s" % K(op[1])
    if t == "disc":
        return ("d -.= %s" if op[2] else "d discard= %s") % K(op[1])
    if t == "ins":
        return ("d insert= [%s, %s]" if op[3] else "d |..= [%s, %s]") % (K(op[1]), srcv(op[2]))
    if t == "union":
        return "d ||= %s" % lit(op[1])
    if t == "uadd":
        return "d = d ||+ %s" % lit(op[1])
    if t == "inter":
        return "d &&= %s" % lit(op[1])
    if t == "diff":
        return "d --= %s" % lit(op[1])
    if t == "deq":
        return "d == %s" % lit(op[1])
    raise ValueError(op)


def model_op(op, pool):
    t = op[0]
    K = lambda i: model_key(pool[i]["key"])
    if t in ("get", "sget", "in", "rm", "addk", "disc"):
        return "%s %s" % (t, K(op[1]))
    if t == "len":
        return "len"
    if t in ("set", "mod", "ins"):
        return "%s %s %s" % (t, K(op[1]), modv(op[2]))
    return "%s %d %s" % (t, len(op[1]), " ".join("%s %s" % (K(i), modv(v)) for i, v in op[1]))


def oracle_op(op, pool):
    t = op[0]
    if t in ("get", "sget", "in", "rm", "addk", "disc"):
        return (t, pool[op[1]]["key"])
    if t == "len":
        return (t,)
    if t in ("set", "mod", "ins"):
        return (t, pool[op[1]]["key"], op[2])
    return (t, [(pool[i]["key"], v) for i, v in op[1]])


def gen_history(ctx, pool, hist_id):
    """a history over a small working set of pool keys chosen so that equal keys of different representation meet"""
    rng = ctx.rng
    n = len(pool)
    bycls = {}
    for e in pool:
        bycls.setdefault(e["cls"], []).append(e["idx"])
    multi = [v for v in bycls.values() if len(v) > 1]
    work = []
    for _ in range(rng.randint(2, 4)):
        g = rng.choice(multi)
        work += rng.sample(g, min(len(g), rng.randint(2, 3)))
    work += [rng.randrange(n) for _ in range(rng.randint(1, 3))]
    default = rng.choice([("none",), ("none",), ("some", 0), ("some", None)])
    # a third of the histories use only the primitive operations and no default, so that the literal bucket
    # structure of the model (bmap) can follow them to the end
    prim = rng.random() < 0.33
    if prim:
        default = ("none",)
    orc = Oracle(default)
    ops, exp = [], []
    length = rng.randint(10, 30)
    tries = 0
    while len(ops) < length and tries < 200:
        tries += 1
        t = rng.choices(OPS[:10], WEIGHTS[:10])[0] if prim else rng.choices(OPS, WEIGHTS)[0]
        k = rng.choice(work)
        v = rng.randint(-5, 20)
        if t in ("get", "sget", "in", "rm", "addk"):
            op = (t, k)
        elif t == "disc":
            op = (t, k, rng.random() < 0.5)
        elif t == "len":
            op = (t,)
        elif t == "set":
            op = (t, k, v if rng.random() < 0.9 else None)
        elif t == "mod":
            op = (t, k, v)
        elif t == "ins":
            op = (t, k, v, rng.random() < 0.5)
        else:
            m = rng.randint(0, 4)
            if t == "deq" and rng.random() < 0.6:
                # a literal equal to the current contents through other representatives
                ps = []
                for e in orc.es:
                    alts = bycls.get(e[0], [])
                    if alts:
                        ps.append((rng.choice(alts), e[2]))
                rng.shuffle(ps)
                if ps and rng.random() < 0.2:
                    ps[0] = (ps[0][0], 99)
            else:
                ps = [(rng.choice(work), rng.randint(0, 9)) for _ in range(m)]
            op = (t, ps)
        snapshot = [list(e) for e in orc.es]
        r = orc.step(oracle_op(op, pool))
        if r is None:  # value arithmetic on null: not this property's business
            orc.es = snapshot
            continue
        ops.append(op)
        exp.append((r, orc.contents()))
    return {"id": hist_id, "default": default, "ops": ops, "oracle": exp, "work": work}


def run_histories(ctx, runner, pool, nh):
    hs = [gen_history(ctx, pool, i) for i in range(nh)]
    progs, mlines = [], []
    for h in hs:
        init = "d := {}" if h["default"][0] == "none" else "d := {:%s}" % srcv(h["default"][1])
        st = [init]
        for op in h["ops"]:
            st += [render_op(op, pool), "d"]
        progs.append(st)
        dflt = "_" if h["default"][0] == "none" else modv(h["default"][1])
        mlines.append("hist %s %d %s" % (dflt, len(h["ops"]), " ".join(model_op(op, pool) for op in h["ops"])))
    res = common.run_prog(progs, timeout=30.0)
    mres = common.run_model(runner, mlines) if runner else [None] * len(hs)
    stats = {"histories": len(hs), "steps": 0, "bucket_structure_steps": 0, "by_op": {}, "cross_repr_steps": 0}
    nontrivial = set()
    samples = []
    for h, prog, r, m in zip(hs, progs, res, mres):
        rr = r.get("results")
        msteps = [x.split(" ") for x in m.split(" ; ")] if m else None
        if m is not None and (m.startswith("badcase") or m.startswith("exn") or m.startswith("runner-died")):
            report(ctx, "correspondence", {"what": "the model runner failed on this history", "model_line": mlines[h["id"]], "answer": m}, False)
            msteps = None
        if rr is None or len(rr) < len(prog):
            report(ctx, "property", {"what": "the implementation panicked, hung or aborted while running a dictionary history",
                                       "statements": prog, "result": r if rr is None else rr[-1]}, True)
            continue
        if rr[0].get("status") != "ok":
            report(ctx, "property", {"what": "creating the dictionary failed", "statements": prog[:1], "result": rr[0]}, True)
            continue
        seen_keys = []
        for s, (op, (oobs, ocont)) in enumerate(zip(h["ops"], h["oracle"])):
            ro, rc = rr[1 + 2 * s], rr[2 + 2 * s]
            stats["steps"] += 1
            stats["by_op"][op[0]] = stats["by_op"].get(op[0], 0) + 1
            io = ro.get("status")
            if io == "ok":
                iobs = "val " + ro["val"] if oobs.startswith("val") else "done"
            else:
                iobs = io
            icont = rc.get("val") if rc.get("status") == "ok" else rc.get("status")
            # non-trivial: the probe is == to a key handled earlier in this history under another representation
            if len(op) > 1 and isinstance(op[1], int):
                kc, kcanon = pool[op[1]]["cls"], pool[op[1]]["canon"]
                if any(c == kc and cn != kcanon for c, cn in seen_keys):
                    stats["cross_repr_steps"] += 1
                    nontrivial.add((op[0], kcanon, tuple(sorted(cn for c, cn in seen_keys if c == kc))))
                seen_keys.append((kc, kcanon))
            elif len(op) > 1:
                nontrivial.add((op[0], tuple(pool[i]["canon"] for i, _ in op[1])))
                seen_keys += [(pool[i]["cls"], pool[i]["canon"]) for i, _ in op[1]]
            rep = {"statements": prog[:3 + 2 * s], "step": s, "operation": prog[1 + 2 * s], "implementation": [iobs, icont],
                   "python_oracle": [oobs, ocont], "implementation_msg": ro.get("msg")}
            if msteps is not None:
                rep["coq_model"] = msteps[s]
            if (iobs, icont) != (oobs, ocont):
                rep["what"] = "after this operation the dictionary differs from the finite map keyed by exact-value equality"
                report(ctx, "property", rep, True)
                break
            if msteps is not None:
                mobs = " ".join(msteps[s][:-2])
                mcont, bcont = msteps[s][-2], msteps[s][-1]
                if bcont != "-":
                    stats["bucket_structure_steps"] += 1
                if (mobs, mcont) != (iobs, icont) or (bcont != "-" and bcont != icont):
                    rep["what"] = ("correspondence Dict/DictMap.v <-> implementation no longer checks on this history; the Python oracle "
                                   "accepts the implementation's answer, so no input violating the property was found")
                    report(ctx, "correspondence", rep, False)
                    break
        if len(samples) < 4:
            samples.append({"statements": prog[:9], "implementation": [x.get("val", x.get("status")) for x in rr[:9]],
                            "coq_model": m[:300] if m else None})
    return stats, nontrivial, samples


# ----------------------------------------------------------------------------- (d) library functions
def lib_oracle(kind, keys, arity=1):
    if kind == "unique":
        seen, out = [], []
        for k in keys:
            if cls(k) not in seen:
                seen.append(cls(k))
                out.append(k)
        return "L[" + ",".join(canon(k) for k in out) + "]"
    if kind == "setof":
        return Oracle.lit([(k, None) for k in keys]).contents()
    if kind == "count":
        return "I%d" % len({cls(k) for k in keys})
    if kind == "freq":
        o = Oracle(("some", 0))
        for k in keys:
            e = o.find(cls(k))
            o.set(k, (e[2] if e else 0) + 1)
        return o.contents()
    if kind == "group":
        o = []
        for k in keys:
            for g in o:
                if g[0] == cls(k):
                    g[1].append(k)
                    break
            else:
                o.append([cls(k), [k]])
        return sorted("L[" + ",".join(canon(k) for k in g[1]) + "]" for g in o)
    if kind == "memo":
        calls = [keys[i:i + arity] for i in range(0, len(keys), arity)]
        table, out = [], []
        for c in calls:
            cc = tuple(cls(k) for k in c)
            for t in table:
                if t[0] == cc:
                    out.append(t[1])
                    break
            else:
                r = "L[" + ",".join(canon(k) for k in c) + "]"
                table.append((cc, r))
                out.append(r)
        return out
    raise ValueError(kind)


def groups_of(text):
    """split the canonical text of a list of lists into its (sorted) element texts"""
    k = parse(text)
    return sorted(canon(x) for x in k[1])


def run_lib(ctx, runner, pool, ncases):
    rng = ctx.rng
    bycls = {}
    for e in pool:
        bycls.setdefault(e["cls"], []).append(e["idx"])
    multi = [v for v in bycls.values() if len(v) > 1]
    cases = []
    for c in range(ncases):
        kind = ["unique", "setof", "count", "freq", "group", "memo"][c % 6]
        arity = rng.choice([1, 2]) if kind == "memo" else 1
        idxs = []
        for _ in range(rng.randint(1, 3)):
            g = rng.choice(multi)
            idxs += [rng.choice(g) for _ in range(rng.randint(1, 3))]
        idxs += [rng.randrange(len(pool)) for _ in range(rng.randint(0, 3))]
        rng.shuffle(idxs)
        if arity == 2 and len(idxs) % 2:
            idxs.append(idxs[0])
        S = [pool[i]["src"] for i in idxs]
        lst = "[" + ", ".join(S) + "]"
        if kind == "unique":
            prog = ["unique(%s)" % lst]
        elif kind == "setof":
            prog = ["set(%s)" % lst]
        elif kind == "count":
            prog = ["count_distinct(%s)" % lst]
        elif kind == "freq":
            prog = ["frequencies(%s)" % lst]
        elif kind == "group":
            prog = ["%s group_all id" % lst]
        else:
            prog = ["f := memoize(\\x -> [x])" if arity == 1 else "f := memoize(\\x, y -> [x, y])"]
            prog += ["f(%s)" % ", ".join(S[i:i + arity]) for i in range(0, len(S), arity)]
        if kind == "memo":
            ml = "memo %d %s" % (len(idxs) // arity, " ".join(
                "%d %s" % (arity, " ".join(model_key(pool[j]["key"]) for j in idxs[i:i + arity])) for i in range(0, len(idxs), arity)))
        else:
            ml = "%s %d %s" % (kind, len(idxs), " ".join(model_key(pool[i]["key"]) for i in idxs))
        cases.append({"kind": kind, "arity": arity, "idxs": idxs, "prog": prog, "model": ml})
    res = common.run_prog([c["prog"] for c in cases], timeout=20.0)
    mres = common.run_model(runner, [c["model"] for c in cases]) if runner else [None] * len(cases)
    bad = 0
    for c, r, m in zip(cases, res, mres):
        keys = [pool[i]["key"] for i in c["idxs"]]
        orc = lib_oracle(c["kind"], keys, c["arity"])
        rr = r.get("results") or []
        vals = [x.get("val") if x.get("status") == "ok" else x.get("status") for x in rr]
        try:
            if c["kind"] == "memo":
                impl, mod = vals[1:], (m.split(" ") if m is not None else None)
            elif c["kind"] == "group":
                impl, mod = groups_of(vals[0]), (groups_of(m) if m is not None else None)
            else:
                impl, mod = vals[0], m
        except Exception:
            impl, mod = vals, m
        rep = {"statements": c["prog"], "implementation": impl, "python_oracle": orc, "coq_model": mod}
        if impl != orc:
            bad += 1
            rep["what"] = "the result differs from the one computed over ==-classes (first representative kept, classes never split or merged)"
            report(ctx, "property", rep, True)
        elif mod is not None and mod != impl:
            bad += 1
            rep["what"] = "correspondence Dict/DictMap.v library functions <-> implementation no longer checks; the oracle accepts the implementation"
            report(ctx, "correspondence", rep, False)
    return {"lib_cases": len(cases), "lib_bad": bad}, cases


# ----------------------------------------------------------------------------- (e) the library family on every input kind
# set / unique / count_distinct / frequencies / group_all / keys / values / items / dict applied to lists, dictionaries with
# values and with defaults, strings, vectors, bytes, streams and to the results of one another; the FULL canonical result
# (values and default included) is compared.  Values are key structures; a dict may carry a default as third component.
FUNS = ["set", "unique", "count", "freq", "group", "keys", "values", "items", "dict"]


def mkdict(pairs, default=None):
    """HashMap collect: the first key of a class is kept, the last value wins"""
    es = []
    for k, v in pairs:
        c = cls(k)
        for e in es:
            if e[0] == c:
                e[2] = v
                break
        else:
            es.append([c, k, v])
    d = ("D", tuple((e[1], e[2]) for e in es))
    return d if default is None else d + (default,)


def ambiguous(items):
    """two items of one ==-class with different representations: which one a dedup keeps depends on the order"""
    seen = {}
    for x in items:
        if seen.setdefault(cls(x), canon(x)) != canon(x):
            return True
    return False


def has_class_dups(items):
    cs = [cls(x) for x in items]
    return len(set(cs)) != len(cs)


def items_of(inp):
    v, kind = inp["val"], inp["kind"]
    if kind in ("list", "stream"):
        return list(v[1]), inp["mode"] == "exact"
    if kind == "dict":
        return [k for k, _ in v[1]], False
    if kind == "string":
        return [("S", ch) for ch in v[1]], True
    if kind == "vector":
        return list(v[1]), True
    if kind == "bytes":
        return [("I", b) for b in v[1]], True
    raise ValueError(kind)


def wrap(kind, items):
    """the container `unique`/`group_all` give back for an input of this kind"""
    if kind == "string":
        return ("S", "".join(x[1] for x in items))
    if kind == "vector":
        return ("V", tuple(items))
    if kind == "bytes":
        return ("B", tuple(x[1] for x in items))
    return ("L", tuple(items))


def first_of_class(items):
    seen, out = [], []
    for x in items:
        if cls(x) not in seen:
            seen.append(cls(x))
            out.append(x)
    return out


def lib_apply(fn, inp):
    """oracle: the value of fn(inp) over ==-classes, its kind, and how strictly it can be compared. None: not applicable"""
    kind, mode = inp["kind"], inp["mode"]
    if kind == "scalar":
        return None
    items, ordered = items_of(inp)
    amb = (not ordered) and ambiguous(items)
    norm = mode == "norm" or amb
    src = inp["src"]
    mk = lambda s, val, k, m: {"src": s, "val": val, "kind": k, "mode": "norm" if norm else m, "fn": fn, "arg": inp}
    if fn == "set":
        return mk("set(%s)" % src, mkdict([(k, ("N",)) for k in items]), "dict", "exact")
    if fn == "unique":
        out = first_of_class(items)
        rk = kind if kind in ("string", "vector", "bytes") else "list"
        return mk("unique(%s)" % src, wrap(kind, out), rk, "exact" if ordered else "sorted")
    if fn == "count":
        return mk("count_distinct(%s)" % src, ("I", len({cls(x) for x in items})), "scalar", "exact")
    if fn == "freq":
        es = []
        for x in items:
            for e in es:
                if cls(e[0]) == cls(x):
                    e[1] += 1
                    break
            else:
                es.append([x, 1])
        return mk("frequencies(%s)" % src, ("D", tuple((k, ("I", c)) for k, c in es), ("I", 0)), "dict", "exact")
    if fn == "group":
        gs = []
        for x in items:
            for g in gs:
                if cls(g[0]) == cls(x):
                    g.append(x)
                    break
            else:
                gs.append([x])
        r = mk("(%s group_all id)" % src, ("L", tuple(wrap(kind, g) for g in gs)), "list", "sorted")
        if not ordered and has_class_dups(items):
            r["mode"] = "norm"
        return r
    if fn == "keys":
        if kind == "dict":
            return mk("keys(%s)" % src, ("L", tuple(items)), "list", "sorted")
        if kind == "list" and ordered:
            return mk("keys(%s)" % src, ("L", tuple(("I", i) for i in range(len(items)))), "list", "exact")
        return None
    if fn == "values":
        if kind == "dict":
            return mk("values(%s)" % src, ("L", tuple(v for _, v in inp["val"][1])), "list", "sorted")
        if kind == "list" and ordered:
            return mk("values(%s)" % src, ("L", tuple(items)), "list", "exact")
        return None
    if fn == "items":
        if kind == "dict":
            return mk("items(%s)" % src, ("L", tuple(("L", (k, v)) for k, v in inp["val"][1])), "list", "sorted")
        return None
    if fn == "dict":
        if kind == "dict":
            return mk("dict(%s)" % src, inp["val"], "dict", "exact")
        if kind in ("list", "stream") and items and all(x[0] == "L" and len(x[1]) == 2 for x in items):
            r = mk("dict(%s)" % src, mkdict([(x[1][0], x[1][1]) for x in items]), "dict", "exact")
            if not ordered and has_class_dups([x[1][0] for x in items]):
                r["mode"] = "norm"
            return r
        return None
    raise ValueError(fn)


def norm(v, depth=0):
    """comparison up to the choice of representative and the order of the outer lists (used only when the
    implementation's HashMap iteration order decides which representative survives)"""
    t = v[0]
    if t == "L":
        xs = [norm(x, depth + 1) for x in v[1]]
        return ("L", tuple(sorted(xs, key=repr)) if depth <= 1 else tuple(xs))
    if t == "D":
        return ("D", frozenset((cls(a), norm(b, 2)) for a, b in v[1]), norm(v[2], 2) if len(v) > 2 else None)
    return cls(v)


def lib_agrees(got_text, exp, mode):
    """got_text: canonical text printed by the implementation or the model; exp: expected value structure"""
    try:
        got = parse(got_text)
    except Exception:
        return False
    if mode == "exact":
        return canon(got) == canon(exp) and got_text == canon(exp)
    if mode == "sorted":
        return got[0] == exp[0] == "L" and sorted(canon(x) for x in got[1]) == sorted(canon(x) for x in exp[1])
    return norm(got) == norm(exp)


def gen_lib_input(ctx, pool, multi, numeric):
    rng = ctx.rng
    pick = lambda: rng.choice(rng.choice(multi)) if rng.random() < 0.7 else rng.randrange(len(pool))
    kind = rng.choices(["list", "dict", "string", "vector", "bytes", "stream"], [4, 6, 1, 2, 1, 2])[0]
    if kind in ("list", "stream"):
        if kind == "stream" and rng.random() < 0.3:
            a, b = rng.randint(0, 3), rng.randint(0, 5)
            return {"src": "(%d to %d)" % (a, b), "val": ("L", tuple(("I", i) for i in range(a, b + 1))), "kind": "stream", "mode": "exact"}
        idxs = [pick() for _ in range(rng.randint(0, 6))]
        lst = "[" + ", ".join(pool[i]["src"] for i in idxs) + "]"
        return {"src": lst if kind == "list" else "stream(%s)" % lst, "val": ("L", tuple(pool[i]["key"] for i in idxs)),
                "kind": kind, "mode": "exact"}
    if kind == "dict":
        pairs, srcs = [], []
        for _ in range(rng.randint(0, 5)):
            i = pick()
            r = rng.random()
            if r < 0.4:
                n = rng.randint(0, 9)
                v, vs = ("I", n), str(n)
            elif r < 0.6:
                w = rng.choice(["one", "two", "x"])
                v, vs = ("S", w), '"%s"' % w
            elif r < 0.7:
                v, vs = ("N",), "null"
            else:
                j = pick()
                v, vs = pool[j]["key"], pool[j]["src"]
            pairs.append((pool[i]["key"], v))
            srcs.append("%s: %s" % (pool[i]["src"], vs))
        d = rng.choice([None, None, (("I", 0), "0"), (("N",), "null"), (("S", "x"), '"x"')])
        body = ([":" + d[1]] if d else []) + srcs
        return {"src": "{" + ", ".join(body) + "}", "val": mkdict(pairs, d[0] if d else None), "kind": "dict", "mode": "exact"}
    if kind == "string":
        w = rng.choice(["", "a", "ab", "aab", "abcab", "zzz"])
        return {"src": '"%s"' % w, "val": ("S", w), "kind": "string", "mode": "exact"}
    if kind == "vector":
        idxs = [rng.choice(numeric) for _ in range(rng.randint(1, 5))]
        return {"src": "V(" + ", ".join(pool[i]["src"] for i in idxs) + ")", "val": ("V", tuple(pool[i]["key"] for i in idxs)),
                "kind": "vector", "mode": "exact"}
    bs = [rng.randint(0, 3) for _ in range(rng.randint(0, 5))]
    return {"src": "B[" + ",".join(map(str, bs)) + "]", "val": ("B", tuple(bs)), "kind": "bytes", "mode": "exact"}


def lib_model_line(e):
    """the outermost application as a model command, when its argument is fully determined"""
    arg, fn = e["arg"], e["fn"]
    if arg["kind"] == "dict":
        v = arg["val"]
        d = "d " + model_key(v[2]) if len(v) > 2 else "_"
        return "dictop %s %s %d %s" % (fn, d, len(v[1]), " ".join(model_key(a) + " " + model_key(b) for a, b in v[1]))
    if arg["mode"] != "exact" or fn not in ("set", "unique", "count", "freq", "group"):
        return None
    items, _ = items_of(arg)
    cmd = {"set": "setof", "unique": "unique", "count": "count", "freq": "freq", "group": "group"}[fn]
    return "%s %d %s" % (cmd, len(items), " ".join(model_key(x) for x in items))


def lib_model_value(e, text):
    """the model answers over plain item lists; put its answer into the container the implementation uses"""
    arg, fn = e["arg"], e["fn"]
    if arg["kind"] == "dict" or fn in ("set", "count", "freq"):
        return text
    v = parse(text)
    if fn == "unique":
        return canon(wrap(arg["kind"], list(v[1])))
    return canon(("L", tuple(wrap(arg["kind"], list(g[1])) for g in v[1])))


def run_lib_all_kinds(ctx, runner, pool, ncases):
    rng = ctx.rng
    bycls = {}
    for e in pool:
        bycls.setdefault(e["cls"], []).append(e["idx"])
    multi = [v for v in bycls.values() if len(v) > 1]
    numeric = [e["idx"] for e in pool if e["key"][0] in "IRFC"]
    exprs = []
    tries = 0
    while len(exprs) < ncases and tries < 20 * ncases:
        tries += 1
        e = gen_lib_input(ctx, pool, multi, numeric)
        for _ in range(rng.choice([1, 1, 2, 2, 3])):
            r = lib_apply(rng.choice(FUNS), e)
            if r is None:
                break
            e = r
        if "fn" in e:
            exprs.append(e)
    res = common.run_prog([e["src"] for e in exprs], timeout=20.0)
    mlines = [lib_model_line(e) for e in exprs]
    midx = [i for i, l in enumerate(mlines) if l is not None]
    mres = dict(zip(midx, common.run_model(runner, [mlines[i] for i in midx]))) if runner else {}
    st = {"lib_all_kinds_cases": len(exprs), "lib_all_kinds_model_compared": 0, "lib_all_kinds_bad": 0,
          "by_outer_fn": {}, "by_arg_kind": {}, "by_mode": {}}
    distinct = set()
    for i, (e, r) in enumerate(zip(exprs, res)):
        st["by_outer_fn"][e["fn"]] = st["by_outer_fn"].get(e["fn"], 0) + 1
        st["by_arg_kind"][e["arg"]["kind"]] = st["by_arg_kind"].get(e["arg"]["kind"], 0) + 1
        st["by_mode"][e["mode"]] = st["by_mode"].get(e["mode"], 0) + 1
        distinct.add(e["src"])
        got = r.get("val") if r.get("status") == "ok" else r.get("status")
        rep = {"program": e["src"], "implementation": got, "python_oracle": canon(e["val"]), "comparison": e["mode"],
               "expected": canon(e["val"]) if e["mode"] == "exact" else None, "implementation_msg": r.get("msg")}
        if r.get("status") != "ok" or not lib_agrees(got, e["val"], e["mode"]):
            st["lib_all_kinds_bad"] += 1
            rep["what"] = ("the full result (keys, values, default) differs from the one computed over ==-classes: set(x) maps every item/key "
                           "of x to null without default; unique/frequencies/group_all/count_distinct work on classes; keys/values/items/dict "
                           "preserve entries (comparison mode '%s': exact text, sorted outer list, or up to representative)" % e["mode"])
            report(ctx, "property", rep, True)
            continue
        if i in mres:
            st["lib_all_kinds_model_compared"] += 1
            try:
                mv = lib_model_value(e, mres[i])
                # the model is compared with the implementation's answer in the same mode (never stricter than 'sorted'
                # when the argument is a dictionary: its iteration order is not modelled)
                mode = e["mode"] if e["arg"]["kind"] != "dict" or e["fn"] in ("set", "dict", "freq", "count") else \
                    ("norm" if e["mode"] == "norm" else "sorted")
                okm = lib_agrees(mv, parse(got), mode if mode != "exact" else "exact")
            except Exception as ex:
                mv, okm = "unparsable: %s (%s)" % (mres[i], ex), False
            if not okm:
                st["lib_all_kinds_bad"] += 1
                rep["coq_model"] = mv
                rep["model_line"] = mlines[i]
                rep["what"] = "correspondence Dict/DictMap.v library functions <-> implementation no longer checks; the oracle accepts the implementation"
                report(ctx, "correspondence", rep, False)
    return st, distinct, [{"program": e["src"], "oracle": canon(e["val"]), "mode": e["mode"]} for e in exprs[:6]]


# ----------------------------------------------------------------------------- driver entry points
def run(ctx):
    runner = common.standard_prelude(ctx)
    pool_src = build_pool(ctx, ctx.n(40, 100))
    out = hash_tie(ctx, runner, pool_src)
    if not out:
        return common.conclude(ctx)
    pool, st = out
    st.update(lookups(ctx, pool, ctx.n(400, 4000)))
    hstats, nontrivial, samples = run_histories(ctx, runner, pool, ctx.n(500, 6000))
    lstats, lcases = run_lib(ctx, runner, pool, ctx.n(300, 3000))
    st.update(lstats)
    l2stats, l2distinct, l2samples = run_lib_all_kinds(ctx, runner, pool, ctx.n(1200, 12000))
    evaluations = st["hash_compared"] + st["eq_pairs"] + st["lookup_programs"] + hstats["steps"] + st["lib_cases"] + \
        l2stats["lib_all_kinds_cases"]
    classes = {}
    for e in pool:
        classes.setdefault(e["cls"], set()).add(e["canon"])
    ctx.coverage.update({
        "evaluations": evaluations,
        "distinct_nontrivial": len(nontrivial) + st["equal_pairs_cross_repr"] + len(l2distinct),
        "rule": "evaluations = pool keys hashed on both sides + ordered key pairs compared for == + lookup programs + history steps + library "
                "cases. non-trivial = (i) ordered pairs of pool keys that are == by the exact-value oracle but have different "
                "representations (their Hasher write sequences must coincide), plus (ii) distinct history steps (operation, probe "
                "representation, set of other representations of the same ==-class already used in that history) where the probe is == "
                "to a key handled earlier under another representation, and distinct compound-operation literals, plus (iii) distinct "
                "library programs (set/unique/count_distinct/frequencies/group_all/keys/values/items/dict, nested up to 3 deep, over "
                "lists, dictionaries with values and defaults, strings, vectors, bytes, streams)",
        "library_all_kinds": l2stats,
        "pool_keys": len(pool), "pool_classes": len(classes),
        "pool_classes_with_several_representations": sum(1 for v in classes.values() if len(v) > 1),
        "hash_tie": st, "histories": hstats,
        "samples": [{"key": e["src"], "value": e["canon"], "implementation_tokens": e["tokens"], "coq_model_tokens": e.get("model_tokens")}
                    for e in pool[::max(1, len(pool) // 8)]][:8] + samples + l2samples,
    })
    ctx.assumptions += [
        "std HashMap finds an entry for a probe iff it lies in the bucket selected by the probe's Hasher write sequence and is Eq to it "
        "(SipHash collisions between different sequences are ignored)",
        "BigRational is kept in lowest terms with a positive denominator; BigRational::from_float, f64::trunc, to_bigint are exact",
        "values stored in histories are integers and null; the closure given to memoize/group_all is the identity on its arguments",
    ]
    return common.conclude(ctx)


def replay(ctx, rep):
    """re-run the recorded program / statements on the current tree and show what the oracle expected"""
    ok, out = common.build_harness()
    if not ok:
        print(out)
        return 1
    if "statements" in rep:
        r = common.run_prog([rep["statements"]], timeout=30.0)[0]
        vals = [x.get("val", x.get("status")) for x in r.get("results", [])]
        print(json.dumps({"statements": rep["statements"], "implementation_now": vals, "recorded_implementation": rep.get("implementation"),
                          "python_oracle": rep.get("python_oracle"), "coq_model": rep.get("coq_model")}, ensure_ascii=False))
        exp = rep.get("python_oracle")
        if isinstance(exp, list) and len(exp) == 2 and "step" in rep:
            got_obs, got_cont = vals[-2], vals[-1]
            want_obs = exp[0][4:] if exp[0].startswith("val ") else None
            bad = got_cont != exp[1] or (want_obs is not None and got_obs != want_obs) or (exp[0] == "err" and got_obs != "err")
            return 1 if bad else 0
        return 1 if rep.get("failing_input_found") and vals[-1:] != [exp] else 0
    if "program" in rep:
        r = common.run_prog([rep["program"]], timeout=30.0)[0]
        got = r.get("val") if r.get("status") == "ok" else r.get("status")
        print(json.dumps({"program": rep["program"], "implementation_now": got, "expected": rep.get("expected"),
                          "oracle_equal": rep.get("oracle_equal")}, ensure_ascii=False))
        if "comparison" in rep:
            return 0 if (got is not None and lib_agrees(got, parse(rep["python_oracle"]), rep["comparison"])) else 1
        if "expected" in rep:
            return 0 if got == rep["expected"] else 1
        if rep.get("oracle_equal"):
            return 0 if got == "I1" else 1
        return 0
    print(json.dumps(rep, ensure_ascii=False)[:2000])
    return 1
