"""C08 - numeric equality and ordering are exact and coherent across int / rational / float / complex;
sequences compare lexicographically; incomparable kinds raise.

Correspondence: a pool of values (integers around 2^53, 2^63, 10^30, 2^1024; fractions closer to a float than
any other float; floats incl. +-0, +-inf, NaN, subnormals; complex; lists/strings/vectors/bytes of them; null,
dicts, a function, a stream) is bound to variables of one Noulith program; the full pool x pool grid of
== != < <= > >= <=> >=< min max, sampled chains `a op b op c`, and sort / sort_on / min / max of permuted
sub-multisets are run through the implementation (bin/prog) and through the extracted Coq model (Num/Cmp.v).
An independent oracle (Python `fractions.Fraction`; `Fraction(float)` is exact) decides, on any disagreement,
whether the property itself fails.  The order laws (trichotomy, antisymmetry of <=>, transitivity over the
whole pool^3, == an equivalence compatible with <) are additionally checked directly on the implementation's
grid of answers, without model or oracle.
"""
import itertools, json, struct, functools
from fractions import Fraction
import common

ID = "C08"
MANIFEST = dict(
    technique="Coq proof (comparison model = exact comparison in Q u {+-inf}, order laws, lexicographic sequences, stable sort) "
              "+ full-grid correspondence model/implementation/Fraction oracle + order laws checked on the implementation's grid",
    text="Machine-checked theorems (Coq 8.16, no axioms) about a Gallina transcription of NInt/NNumReal/NNum PartialEq+PartialOrd, "
         "cmp_nint_f64, to_nint_if_int, total_cmp_*, Obj/Seq partial_cmp, ncmp, the comparison operators, <=>, >=<, Extremum and "
         "sorted (as stable insertion sort): for all integers, rationals and 64-bit float patterns the comparison equals comparison of the "
         "exact values in Q u {+-inf} (None iff a NaN is consulted); hence trichotomy, == an equivalence, < transitive and compatible "
         "with ==, <=> antisymmetric; sequences are the lexicographic extension; sort returns a sorted stable permutation and every stable "
         "sort agrees with it; min/max pick the first extremal element; incomparable kinds give Err. f64 is modelled by its bit pattern with "
         "an exact Gallina decoder (no Reals/Flocq). The model is tied to /repo on every run by the full pool x pool grid of ten operators, "
         "chains, sorts and min/max, and a Rust-API-level grid of NNum partial_cmp/==/min/max/total_eq, each compared with the model and "
         "with an independent Fraction oracle; the order laws are also checked on the implementation's own answers over the whole pool^3.",
    note="Trusted: Coq kernel; hand-written model Num/FloatBits.v + Num/Cmp.v (tie to code is the correspondence run = differential "
         "testing on the pool grid); num-bigint/num-rational/IEEE primitives taken at their mathematical meaning (Z, Q, decoded value); "
         "Vec::sort_by taken as *a* stable sort (theorem: all stable sorts by a total preorder agree); extraction+OCaml runner; Rust harness; "
         "Python oracle. NNum::min/max/total_eq and total_cmp_* (unreachable from the language) are compared through the Rust API "
         "(harness bin c08: NNum values built from explicit representations and raw bit patterns). Dictionary equality and string sort "
         "by char are not compared.",
    design="6-C08")

NAN_BITS = 0x7ff8000000000000


# ----------------------------------------------------------------------------- values
def f2b(x):
    return struct.unpack(">Q", struct.pack(">d", x))[0]


def b2f(b):
    return struct.unpack(">d", struct.pack(">Q", b))[0]


def is_nan_bits(b):
    return (b >> 52) & 0x7ff == 0x7ff and b & ((1 << 52) - 1) != 0


def lit_int(n):
    return str(n) if n >= 0 else f"(-{-n})"


def lit_float(b):
    """Noulith source that evaluates to exactly the double with bit pattern b"""
    if is_nan_bits(b):
        return "(0.0/0.0)"
    x = b2f(b)
    if x == float("inf"):
        return "(1.0/0.0)"
    if x == float("-inf"):
        return "((-1.0)/0.0)"
    s = repr(abs(x)).replace("e+", "e")
    if "." not in s and "e" not in s:
        s += ".0"
    if "e" in s and "." not in s.split("e")[0]:
        m, e = s.split("e")
        s = m + ".0e" + e
    return s if b >> 63 == 0 else f"(-{s})"


def fhex(b):
    return "nan" if is_nan_bits(b) else f"{b:016x}"


def I(n, src=None, big=None):
    big = (not -2 ** 63 <= n < 2 ** 63) if big is None else big
    return dict(k="int", n=n, src=src or lit_int(n), model=f"{'I' if big else 'i'} {n}", canon=f"I{n}", py=("int", n))


def R(fr, src=None):
    fr = Fraction(fr)
    n, d = fr.numerator, fr.denominator
    return dict(k="rat", src=src or f"({lit_int(n)}/{d})", model=f"r {n} {d}", canon=f"R{n}/{d}", py=("rat", fr))


def F(x):
    b = x if isinstance(x, int) else f2b(x)
    if is_nan_bits(b):
        b = NAN_BITS
    return dict(k="float", src=lit_float(b), model=f"f {b}", canon="F" + fhex(b), py=("float", b))


def C(re, im, src=None):
    rb, ib = f2b(float(re)) if not isinstance(re, int) else re, f2b(float(im))
    if src is None:
        sign = "-" if ib >> 63 else "+"
        src = f"({lit_float(rb)}{sign}{lit_float(ib & ~(1 << 63))}i)"
    if is_nan_bits(rb):
        rb = NAN_BITS
    return dict(k="complex", src=src, model=f"c {rb} {ib}", canon=f"C{fhex(rb)},{fhex(ib)}", py=("complex", rb, ib))


def esc(s):
    return s.replace("\\", "\\\\").replace('"', '\\"')


def S(s):
    bs = s.encode("utf8")
    return dict(k="str", src='"' + esc(s) + '"', model=f"s {len(bs)} " + " ".join(map(str, bs)), canon='S"' + esc(s) + '"', py=("str", bs))


def L(*xs):
    return dict(k="list", src="[" + ", ".join(x["src"] for x in xs) + "]", model=f"l {len(xs)} " + " ".join(x["model"] for x in xs),
                canon="L[" + ",".join(x["canon"] for x in xs) + "]", py=("list", [x["py"] for x in xs]))


def V(*xs):
    return dict(k="vec", src="V(" + ", ".join(x["src"] for x in xs) + ")", model=f"v {len(xs)} " + " ".join(x["model"] for x in xs),
                canon="V[" + ",".join(x["canon"] for x in xs) + "]", py=("vec", [x["py"] for x in xs]))


def Y(*bs):
    return dict(k="bytes", src="B[" + ",".join(map(str, bs)) + "]", model=f"y {len(bs)} " + " ".join(map(str, bs)),
                canon="B[" + ",".join(map(str, bs)) + "]", py=("bytes", list(bs)))


NULL = dict(k="null", src="null", model="n", canon="N", py=("null",))


def D(ident, src, canon):
    return dict(k="dict", src=src, model=f"d {ident}", canon=canon, py=("dict", ident))


def O(ident, src, canon):
    return dict(k="other", src=src, model=f"o {ident}", canon=canon, py=("other", ident))


NUMK = ("int", "rat", "float", "complex")
TINY = Fraction(1, 2 ** 1100)   # far below the spacing of any two doubles


def pool(ctx):
    q = ctx.quick()
    tenth = Fraction(0.1)          # exact value of the double 0.1
    third = Fraction(1 / 3)
    big = Fraction(1e300)
    core = [
        # integers: small, around 2^53 (last exactly representable run), around 2^63 (i64 edge), far beyond
        I(0), I(1), I(-1), I(5), I(5, src="(2^64-2^64+5)", big=True), I(2 ** 53 - 1), I(2 ** 53), I(2 ** 53 + 1), I(2 ** 53 + 2),
        I(-(2 ** 53) - 1), I(2 ** 63 - 1), I(2 ** 63), I(2 ** 63 + 1), I(-(2 ** 63)), I(-(2 ** 63) - 1), I(2 ** 64),
        I(10 ** 30), I(10 ** 30 + 1), I(-(10 ** 30)), I(int(big)), I(int(big) + 1), I(2 ** 1024), I(-(2 ** 1024)),
        # floats
        F(0.0), F(-0.0), F(1.0), F(-1.0), F(5.0), F(0.1), F(0.5), F(1 / 3), F(2.0 ** 53), F(2.0 ** 53 + 2), F(-(2.0 ** 53)),
        F(2.0 ** 63), F(-(2.0 ** 63)), F(2.0 ** 64), F(1e30), F(1e300), F(1.7976931348623157e308), F(5e-324), F(-5e-324),
        F(2.2250738585072014e-308), F(float("inf")), F(float("-inf")), F(float("nan")),
        # fractions: ordinary, integral-valued, and closer to a double than any other double
        R(Fraction(1, 2)), R(Fraction(1, 3)), R(Fraction(1, 10)), R(Fraction(5), src="(10/2)"), R(tenth), R(tenth + TINY), R(tenth - TINY),
        R(third + TINY), R(Fraction(2 ** 54 + 1, 2)), R(Fraction(3 * 10 ** 30 + 1, 3)), R(big + Fraction(1, 3)),
        R(Fraction(1, 2 ** 1074)), R(Fraction(1, 2 ** 1075)), R(Fraction(-1, 2 ** 1075)), R(Fraction(2 ** 1025 + 1, 2)),
        R(Fraction(-1, 2)),
        # complex (compared as (re, im) pairs)
        C(1.0, 0.0), C(1.0, 1.0), C(1.0, -1.0), C(0.0, 1.0), C(2.0 ** 53, 0.0), C(0.1, 0.5),
        C(NAN_BITS, 1.0, src="((0.0/0.0)+1.0i)"), C(float("inf"), 1.0, src="((1.0/0.0)+1.0i)"),
        # other kinds
        NULL, S(""), S("a"), S("ab"), S("b"), S("é"), S("z"),
        L(), L(I(1)), L(F(1.0)), L(I(1), I(2)), L(I(1), S("a")), L(I(2 ** 53 + 1)), L(F(2.0 ** 53)), L(F(0.1)), L(R(Fraction(1, 10))),
        L(F(float("nan"))), L(L(I(1)), L(I(2))), L(I(1), L(I(2))), L(NULL), L(I(0), F(float("nan"))), L(I(1), F(float("nan"))),
        V(), V(I(1)), V(F(1.0), I(2)), V(R(Fraction(1, 2))), V(F(float("nan"))), V(I(2 ** 53 + 1)), V(F(2.0 ** 53), I(0)),
        Y(), Y(1), Y(1, 2), Y(255),
        D(1, "{1:2}", "D{I1:I2}"), D(2, "{1:3}", "D{I1:I3}"),
        O(1, "print", "Fn"), O(2, "(1 to 3)", "T[I1,I2,I3]"),
    ]
    # seeded extras: random doubles with neighbours in Z and Q
    rng = ctx.rng
    extra = []
    for _ in range(ctx.n(6, 25)):
        kind = rng.choice(["bits", "mid", "bigint", "pow"])
        if kind == "bits":
            b = rng.getrandbits(64)
        elif kind == "mid":
            b = f2b(rng.uniform(-1, 1) * 10 ** rng.randint(-5, 25))
        elif kind == "bigint":
            b = f2b(float(rng.getrandbits(rng.randint(50, 200))))
        else:
            b = f2b(2.0 ** rng.randint(-60, 120))
        f = F(b)
        extra.append(f)
        if not is_nan_bits(b) and abs(b2f(b)) != float("inf"):
            v = Fraction(b2f(b))
            d = rng.choice([TINY, -TINY, Fraction(0)])
            if (v + d).denominator == 1:
                extra.append(I(int(v + d)))
                extra.append(I(int(v + d) + rng.choice([-1, 1])))
            else:
                extra.append(R(v + d))
                extra.append(I(v.__floor__()))
    if q:
        # quick: drop a few redundant members to stay near ~110 values
        pass
    seen, out = set(), []
    for x in core + extra:
        key = (x["src"], x["model"])
        if key not in seen:
            seen.add(key)
            out.append(x)
    return out


# ----------------------------------------------------------------------------- independent oracle (exact, Fraction)
class NoOpinion(Exception):
    pass


def real_key(v):
    """exact value in Q u {+-inf} as an ordered tuple; None for NaN"""
    if v[0] == "int":
        return (0, Fraction(v[1]))
    if v[0] == "rat":
        return (0, v[1])
    b = v[1]
    if is_nan_bits(b):
        return None
    x = b2f(b)
    if x in (float("inf"), float("-inf")):
        return (1 if x > 0 else -1, Fraction(0))
    return (0, Fraction(x))


ZERO_KEY = (0, Fraction(0))


def num_keys(v):
    if v[0] == "complex":
        return real_key(("float", v[1])), real_key(("float", v[2]))
    return real_key(v), ZERO_KEY


def sgn(a, b):
    return -1 if a < b else (1 if a > b else 0)


def num_cmp(a, b):
    (ra, ia), (rb, ib) = num_keys(a), num_keys(b)
    if ra is None or rb is None:
        return None
    if ra != rb:
        return sgn(ra, rb)
    if ia is None or ib is None:
        return None
    return sgn(ia, ib)


def num_eq(a, b):
    (ra, ia), (rb, ib) = num_keys(a), num_keys(b)
    return None not in (ra, ia, rb, ib) and ra == rb and ia == ib


def lex(cmp, xs, ys):
    for x, y in zip(xs, ys):
        c = cmp(x, y)
        if c != 0:
            return c          # first non-equal or incomparable (None) pair decides
    return sgn(len(xs), len(ys))


def val_cmp(a, b):
    """Obj::partial_cmp: -1/0/1 or None"""
    ka, kb = a[0], b[0]
    if ka in NUMK and kb in NUMK:
        return num_cmp(a, b)
    if ka == kb == "null":
        raise NoOpinion()     # the property does not say whether null is ordered against null
    if ka == kb == "list":
        return lex(val_cmp, a[1], b[1])
    if ka == kb == "vec":
        return lex(num_cmp, a[1], b[1])
    if ka == kb and ka in ("str", "bytes"):
        return lex(sgn, list(a[1]), list(b[1]))
    return None


SEQK = ("list", "vec", "str", "bytes", "dict")


def top_cmp(a, b):
    """what an ordering operator must see: -1/0/1, or 'err' (NaN consulted, or incomparable kinds), or 'any'"""
    try:
        if a[0] in NUMK and b[0] in NUMK:
            c = num_cmp(a, b)
        elif a[0] in SEQK and b[0] in SEQK:
            c = val_cmp(a, b)
        else:
            c = None
    except NoOpinion:
        return "any"
    return "err" if c is None else c


def val_eq(a, b):
    ka, kb = a[0], b[0]
    if ka in NUMK and kb in NUMK:
        return num_eq(a, b)
    if ka != kb:
        return False
    if ka == "null":
        return True
    if ka == "list":
        return len(a[1]) == len(b[1]) and all(val_eq(x, y) for x, y in zip(a[1], b[1]))
    if ka == "vec":
        return len(a[1]) == len(b[1]) and all(num_eq(x, y) for x, y in zip(a[1], b[1]))
    if ka in ("str", "bytes"):
        return list(a[1]) == list(b[1])
    if ka == "dict":
        return a[1] == b[1]
    return False              # functions, streams


OPS = [("eq", "=="), ("ne", "!="), ("lt", "<"), ("le", "<="), ("gt", ">"), ("ge", ">=")]
OPSYM = dict(OPS)


def oracle_op(op, a, b):
    """expected observable ('ok I0' / 'ok I1' / 'err' / 'any') from exact values only"""
    if op in ("eq", "ne"):
        e = val_eq(a["py"], b["py"])
        return "ok I%d" % (e if op == "eq" else (not e))
    c = top_cmp(a["py"], b["py"])
    if c in ("err", "any"):
        return c
    if op == "cmp":
        return f"ok I{c}"
    if op == "rcmp":
        return f"ok I{-c}"
    if op == "min":
        return "ok " + (a if c <= 0 else b)["canon"]
    if op == "max":
        return "ok " + (a if c >= 0 else b)["canon"]
    return "ok I%d" % {"lt": c < 0, "le": c <= 0, "gt": c > 0, "ge": c >= 0}[op]


def observed(r):
    st = r.get("status")
    if st == "ok":
        return "ok " + r["val"]
    return st   # err / panic / hang / abort / parse


CRASH = ("panic", "hang", "abort", "parse", "badjson", None)


# ----------------------------------------------------------------------------- running
def run_rows(P, rows):
    """rows: list of lists of (tag, stmt); each row is one harness case sharing the pool bindings"""
    defs = [f"x{i} := {x['src']}" for i, x in enumerate(P)]
    cases = [defs + [s for (_, s) in row] for row in rows]
    res = common.run_prog(cases, timeout=120.0, fuel=200_000_000)
    out = []
    for row, r in zip(rows, res):
        rs = r.get("results") if isinstance(r, dict) else None
        if rs is None:
            out.append([r.get("status", "abort")] * len(row))
            continue
        body = rs[len(defs):]
        o = [observed(x) for x in body]
        o += ["panic" if (rs and rs[-1].get("status") == "panic") else "abort"] * (len(row) - len(o))
        out.append(o)
    return out


def check_pool(ctx, P):
    """every pool expression must evaluate to exactly the value the model and the oracle are given"""
    res = common.run_prog([x["src"] for x in P], timeout=20.0)
    ok = True
    for x, r in zip(P, res):
        if observed(r) != "ok " + x["canon"]:
            ok = False
            ctx.violation("setup", {"what": "a pool expression does not evaluate to the intended value (literal parsing or "
                                            "arithmetic changed); the comparison grid for it would be meaningless",
                                    "program": x["src"], "intended": x["canon"], "implementation": observed(r)}, found=False)
    return ok


def grid_cases(P, quick):
    n = len(P)
    rows = []
    for i in range(n):
        row = []
        for j in range(n):
            a, b = P[i], P[j]
            for op, sym in OPS:
                row.append(((op, i, j), f"x{i} {sym} x{j}"))
            row.append((("cmp", i, j), f"x{i} <=> x{j}"))
            row.append((("rcmp", i, j), f"x{i} >=< x{j}"))
            if not (a["k"] == "other" and a["canon"] == "Fn") and not (b["k"] == "other" and b["canon"] == "Fn"):
                row.append((("min", i, j), f"min(x{i}, x{j})"))
                row.append((("max", i, j), f"max(x{i}, x{j})"))
        rows.append(row)
    return rows


def run_model_defs(runner, P, lines):
    """model lines may refer to pool value i as @i; every shard gets the definitions first"""
    import threading
    if not runner or not lines:
        return [None] * len(lines)
    defs = [f"def @{i} {x['model']}" for i, x in enumerate(P)]
    shards = min(common.NPROC, max(1, len(lines) // 2000))
    chunks = [lines[k::shards] for k in range(shards)]
    outs = [None] * shards

    def work(k):
        outs[k] = common.run_model(runner, defs + chunks[k], shards=1)[len(defs):]
    ts = [threading.Thread(target=work, args=(k,)) for k in range(shards)]
    [t.start() for t in ts]
    [t.join() for t in ts]
    res = [None] * len(lines)
    for k in range(shards):
        for j, r in enumerate(outs[k]):
            res[k + j * shards] = r
    return res


def model_line(P, tag):
    op, i, j = tag
    a, b = f"@{i}", f"@{j}"
    if op in OPSYM:
        return f"op {op} {a} {b}"
    if op in ("cmp", "rcmp"):
        return f"{op} {a} {b}"
    return f"{op} 2 {a} {b}"


def model_expect(P, tag, m):
    op, i, j = tag
    if not m.startswith("ok "):
        return m
    if op in ("min", "max"):
        return "ok " + (P[i], P[j])[int(m[3:])]["canon"]
    return "ok I" + m[3:]


def replay_doc(P, tag, stmt, impl, model, orc, what):
    op, i, j = tag[0], tag[1], tag[2]
    return {"what": what, "program": stmt.replace(f"x{i}", P[i]["src"]) if i == j else
            stmt.replace(f"x{j}", "\0").replace(f"x{i}", P[i]["src"]).replace("\0", P[j]["src"]),
            "case": {"op": op, "a": P[i], "b": P[j]}, "implementation": impl, "coq_model": model, "fraction_oracle": orc}


def agrees(obs, exp):
    return exp == "any" or obs == exp


def evaluate_grid(ctx, P, runner):
    rows = grid_cases(P, ctx.quick())
    obs = run_rows(P, rows)
    flat = [(tag, stmt, o) for row, os_ in zip(rows, obs) for (tag, stmt), o in zip(row, os_)]
    mres = run_model_defs(runner, P, [model_line(P, tag) for tag, _, _ in flat])
    table = {}
    nbad = 0
    seen = set()
    for (tag, stmt, o), m in zip(flat, mres):
        table[tag] = o
        a, b = P[tag[1]], P[tag[2]]
        orc = oracle_op(tag[0], a, b)
        mod = model_expect(P, tag, m) if m is not None else None
        key = (tag[0], a["k"], b["k"])
        if o in CRASH or not agrees(o, orc):
            nbad += 1
            if ("p",) + key not in seen:
                seen.add(("p",) + key)
                ctx.violation("property", replay_doc(P, tag, stmt, o, mod, orc,
                              "the implementation's answer differs from the comparison of the exact values"), found=True)
        elif mod is not None and o != mod:
            nbad += 1
            if ("c",) + key not in seen:
                seen.add(("c",) + key)
                ctx.violation("correspondence", replay_doc(P, tag, stmt, o, mod, orc,
                              "correspondence Num/Cmp.v <-> implementation no longer checks on this input; the Fraction oracle accepts "
                              "the implementation's answer, so no input violating the property statement was found"), found=False)
    return table, len(flat), nbad


def real_nonnan(x):
    return x["k"] in ("int", "rat", "float") and not (x["k"] == "float" and is_nan_bits(x["py"][1]))


def laws_on_grid(ctx, P, T):
    """order laws read off the implementation's own answers (no model, no oracle)"""
    n = len(P)
    lt = [[T.get(("lt", i, j)) == "ok I1" for j in range(n)] for i in range(n)]
    eq = [[T.get(("eq", i, j)) == "ok I1" for j in range(n)] for i in range(n)]
    R_ = [i for i in range(n) if real_nonnan(P[i])]
    checked = 0
    bad = []

    def fail(law, idx, detail):
        if len(bad) < 3:
            bad.append(law)
            ctx.violation("property", {"what": f"order law '{law}' fails on the implementation's own answers", "law": law,
                                       "values": [P[i]["src"] for i in idx], "detail": detail,
                                       "program": "; ".join(detail.get("programs", []))}, found=True)

    for i in R_:
        for j in R_:
            checked += 1
            three = [T.get(("lt", i, j)), T.get(("eq", i, j)), T.get(("gt", i, j))]
            if sorted(three) != ["ok I0", "ok I0", "ok I1"]:
                fail("trichotomy", (i, j), {"lt,eq,gt": three, "programs": [f"{P[i]['src']} {s} {P[j]['src']}" for s in ("<", "==", ">")]})
            c1, c2 = T.get(("cmp", i, j)), T.get(("cmp", j, i))
            neg = {"ok I-1": "ok I1", "ok I0": "ok I0", "ok I1": "ok I-1"}
            if neg.get(c1) != c2:
                fail("spaceship antisymmetry", (i, j), {"a<=>b": c1, "b<=>a": c2, "programs": [f"{P[i]['src']} <=> {P[j]['src']}", f"{P[j]['src']} <=> {P[i]['src']}"]})
            if T.get(("rcmp", i, j)) != c2:
                fail(">=< is the reverse of <=>", (i, j), {"a>=<b": T.get(("rcmp", i, j)), "b<=>a": c2})
            if (T.get(("le", i, j)) == "ok I1") != (lt[i][j] or eq[i][j]) or (T.get(("ge", i, j)) == "ok I1") != (not lt[i][j]):
                fail("<= is (< or ==), >= is not <", (i, j), {"le": T.get(("le", i, j)), "ge": T.get(("ge", i, j))})
            if (T.get(("ne", i, j)) == "ok I1") == eq[i][j]:
                fail("!= is not ==", (i, j), {})
        if not eq[i][i]:
            fail("== reflexive", (i,), {"programs": [f"{P[i]['src']} == {P[i]['src']}"]})
    # transitivity and compatibility over the full cube of non-NaN reals, and of every value for ==
    for i in R_:
        for j in R_:
            if not (lt[i][j] or eq[i][j]):
                continue
            for k in R_:
                checked += 1
                if lt[i][j] and lt[j][k] and not lt[i][k]:
                    fail("< transitive", (i, j, k), {"programs": [f"{P[a]['src']} < {P[b]['src']}" for a, b in ((i, j), (j, k), (i, k))]})
                if eq[i][j] and eq[j][k] and not eq[i][k]:
                    fail("== transitive", (i, j, k), {"programs": [f"{P[a]['src']} == {P[b]['src']}" for a, b in ((i, j), (j, k), (i, k))]})
                if eq[i][j] and (lt[i][k] != lt[j][k] or lt[k][i] != lt[k][j]):
                    fail("< compatible with ==", (i, j, k), {"programs": [f"{P[i]['src']} == {P[j]['src']}", f"{P[i]['src']} < {P[k]['src']}", f"{P[j]['src']} < {P[k]['src']}"]})
    for i in range(n):
        for j in range(n):
            if eq[i][j] != eq[j][i]:
                fail("== symmetric", (i, j), {})
    return checked, len(bad)


def chain_cases(ctx, P, count):
    rng = ctx.rng
    idx_num = [i for i, x in enumerate(P) if x["k"] in NUMK]
    rows, row = [], []
    for _ in range(count):
        src_pool = idx_num if rng.random() < 0.8 else range(len(P))
        k = rng.choice([3, 3, 4])
        idx = [rng.choice(list(src_pool)) for _ in range(k)]
        ops = [rng.choice(OPS) for _ in range(k - 1)]
        stmt = f"x{idx[0]}" + "".join(f" {sym} x{j}" for (_, sym), j in zip(ops, idx[1:]))
        row.append((("chain", tuple(idx), tuple(o for o, _ in ops)), stmt))
        if len(row) == 500:
            rows.append(row)
            row = []
    if row:
        rows.append(row)
    return rows


def chain_oracle(P, idx, ops):
    for (a, b), op in zip(zip(idx, idx[1:]), ops):
        r = oracle_op(op, P[a], P[b])
        if r in ("err", "any"):
            return r
        if r == "ok I0":
            return "ok I0"
    return "ok I1"


def evaluate_chains(ctx, P, runner):
    rows = chain_cases(ctx, P, ctx.n(3000, 40000))
    obs = run_rows(P, rows)
    flat = [(tag, stmt, o) for row, os_ in zip(rows, obs) for (tag, stmt), o in zip(row, os_)]
    lines = []
    for (_, idx, ops), _, _ in flat:
        lines.append(f"chain @{idx[0]} {len(ops)} " + " ".join(f"{o} @{j}" for o, j in zip(ops, idx[1:])))
    mres = run_model_defs(runner, P, lines)
    reported = 0
    for ((_, idx, ops), stmt, o), m in zip(flat, mres):
        orc = chain_oracle(P, idx, ops)
        mod = None if m is None else (m if not m.startswith("ok ") else "ok I" + m[3:])
        prog = stmt
        for j in sorted(set(idx), reverse=True):
            prog = prog.replace(f"x{j}", P[j]["src"])
        doc = {"program": prog, "case": {"op": "chain", "idx_values": [P[j] for j in idx], "ops": list(ops)},
               "implementation": o, "coq_model": mod, "fraction_oracle": orc}
        if o in CRASH or not agrees(o, orc):
            if reported < 2:
                doc["what"] = "a comparison chain's answer differs from the exact values"
                ctx.violation("property", doc, found=True)
            reported += 1
        elif mod is not None and o != mod:
            if reported < 2:
                doc["what"] = "correspondence (chain_run) no longer checks; oracle accepts the implementation's answer"
                ctx.violation("correspondence", doc, found=False)
            reported += 1
    return len(flat)


def py_sorted(items):
    """stable sort by the exact order: Python's sort is stable; independent of the Coq insertion sort"""
    return sorted(range(len(items)), key=functools.cmp_to_key(lambda i, j: top_cmp(items[i]["py"], items[j]["py"])))


def sort_cases(ctx, P, count):
    rng = ctx.rng
    n = len(P)
    cmpm = {}

    def c(i, j):
        if (i, j) not in cmpm:
            cmpm[(i, j)] = top_cmp(P[i]["py"], P[j]["py"])
        return cmpm[(i, j)]

    groups = [[i for i in range(n) if P[i]["k"] in NUMK], [i for i in range(n) if P[i]["k"] == "list"],
              [i for i in range(n) if P[i]["k"] == "str"], [i for i in range(n) if P[i]["k"] in ("vec",)],
              list(range(n))]
    out = []
    tries = 0
    while len(out) < count and tries < count * 30:
        tries += 1
        g = rng.choice(groups[:2] * 4 + groups)
        k = rng.choice([2, 3, 4, 5, 5, 6])
        idx = [rng.choice(g) for _ in range(k)]
        if rng.random() < 0.5:   # force ties between distinguishable values
            e = [j for j in g if j != idx[0] and c(idx[0], j) == 0]
            if e:
                idx[rng.randrange(1, k)] = rng.choice(e)
        pos = range(k)
        pairs = [c(idx[p], idx[q]) for p in pos for q in pos if p != q]
        if "any" in pairs:
            continue
        if all(x != "err" for x in pairs):
            kind = "ok"
        elif any(all(c(idx[p], idx[q]) == "err" for q in pos if q != p) for p in pos):
            kind = "err"     # some element is comparable with nothing else: every sort must hit it
        else:
            continue
        form = rng.choice(["sort", "sort", "sort_on", "min", "max"] + (["vsort"] if all(P[i]["k"] in NUMK for i in idx) else []))
        out.append((form, idx, kind))
    return out


def evaluate_sorts(ctx, P, runner):
    cases = sort_cases(ctx, P, ctx.n(1500, 20000))
    rows, row = [], []
    for form, idx, kind in cases:
        xs = ", ".join(f"x{i}" for i in idx)
        if form == "sort":
            stmt = f"sort([{xs}])"
        elif form == "vsort":
            stmt = f"sort(V({xs}))"
        elif form == "sort_on":
            stmt = "sort_on([" + ", ".join(f"[x{i}, {t}]" for t, i in enumerate(idx)) + "], first)"
        else:
            stmt = f"{form}([{xs}])"
        row.append(((form, tuple(idx), kind), stmt))
        if len(row) == 300:
            rows.append(row)
            row = []
    if row:
        rows.append(row)
    obs = run_rows(P, rows)
    flat = [(tag, stmt, o) for row, os_ in zip(rows, obs) for (tag, stmt), o in zip(row, os_)]
    lines = []
    for (form, idx, kind), _, _ in flat:
        vals = " ".join(f"@{i}" for i in idx)
        lines.append({"sort": "sort", "vsort": "sort", "sort_on": "sorton", "min": "min", "max": "max"}[form] + f" {len(idx)} {vals}")
    mres = run_model_defs(runner, P, lines)

    def render(form, idx, perm):
        items = [P[i] for i in idx]
        if form == "sort":
            return "ok L[" + ",".join(items[p]["canon"] for p in perm) + "]"
        if form == "vsort":
            return "ok V[" + ",".join(items[p]["canon"] for p in perm) + "]"
        if form == "sort_on":
            return "ok L[" + ",".join(f"L[{items[p]['canon']},I{p}]" for p in perm) + "]"
        return "ok " + items[perm]["canon"]

    reported = 0
    ties = 0
    for ((form, idx, kind), stmt, o), m in zip(flat, mres):
        items = [P[i] for i in idx]
        if kind == "err":
            orc = "err"
        else:
            perm = py_sorted(items)
            if form == "min":
                orc = render(form, idx, perm[0])
            elif form == "max":
                # first maximal element: the earliest among those equal to the last of the sorted order
                last = perm[-1]
                orc = render(form, idx, min(p for p in perm if p == last or top_cmp(items[p]["py"], items[last]["py"]) == 0))
            else:
                orc = render(form, idx, perm)
            if any(top_cmp(items[a]["py"], items[b]["py"]) == 0 and items[a]["canon"] != items[b]["canon"]
                   for a in range(len(items)) for b in range(a)):
                ties += 1
        mod = None
        if m is not None:
            if not m.startswith("ok "):
                mod = m
            elif form in ("min", "max"):
                mod = render(form, idx, int(m[3:]))
            else:
                mod = render(form, idx, [int(t) for t in m[3:].split(",") if t])
        prog = stmt
        for j in sorted(set(idx), reverse=True):
            prog = prog.replace(f"x{j}", P[j]["src"])
        doc = {"program": prog, "case": {"op": form, "values": items, "expect": kind}, "implementation": o, "coq_model": mod,
               "fraction_oracle": orc}
        if o in CRASH or o != orc:
            if reported < 2:
                doc["what"] = f"{form}: the implementation's result is not the stable sorted order / first extremum by exact value"
                ctx.violation("property", doc, found=True)
            reported += 1
        elif mod is not None and o != mod:
            if reported < 2:
                doc["what"] = "correspondence (isort / extremum) no longer checks; oracle accepts the implementation's answer"
                ctx.violation("correspondence", doc, found=False)
            reported += 1
    return len(flat), ties, {f: sum(1 for (ff, _, _), _, _ in flat if ff == f) for f in ("sort", "vsort", "sort_on", "min", "max")}


# ----------------------------------------------------------------------------- Rust API level (harness bin c08)
def api_json(v):
    t = v[0]
    if t == "int":
        return {"t": "I" if v[2] else "i", "v": str(v[1])}
    if t == "rat":
        return {"t": "r", "n": str(v[1].numerator), "d": str(v[1].denominator)}
    if t == "float":
        return {"t": "f", "b": str(v[1])}
    return {"t": "c", "re": str(v[1]), "im": str(v[2])}


def api_model(v):
    t = v[0]
    if t == "int":
        return f"{'I' if v[2] else 'i'} {v[1]}"
    if t == "rat":
        return f"r {v[1].numerator} {v[1].denominator}"
    if t == "float":
        return f"f {v[1]}"
    return f"c {v[1]} {v[2]}"


def api_pool(ctx, P):
    vals = []
    for x in P:
        v = x["py"]
        if v[0] == "int":
            vals.append(("int", v[1], True))
            if -2 ** 63 <= v[1] < 2 ** 63:
                vals.append(("int", v[1], False))
        elif v[0] in NUMK:
            vals.append(v)
    sp = [0, 1 << 63, f2b(1.0), f2b(-1.0), f2b(0.5), f2b(float("inf")), f2b(float("-inf")), NAN_BITS, 0xfff8000000000001, 0x7ff0000000000001, 1, f2b(2.0 ** 53)]
    for re in sp:
        for im in sp:
            vals.append(("complex", re, im))
    vals += [("float", 0xfff8000000000001), ("float", 0x7ff0000000000001), ("float", 0xffffffffffffffff)]
    for _ in range(ctx.n(10, 100)):
        vals.append(("complex", ctx.rng.getrandbits(64), ctx.rng.getrandbits(64)))
    out, seen = [], set()
    for v in vals:
        if v not in seen:
            seen.add(v)
            out.append(v)
    return out


def api_isnan(v):
    return (v[0] == "float" and is_nan_bits(v[1])) or (v[0] == "complex" and (is_nan_bits(v[1]) or is_nan_bits(v[2])))


def api_oracle(a, b):
    """[pcmp, eq, min, max, teq]; None = no opinion (NaN handling of complex numbers in min/max)"""
    pa = a[:2] if a[0] == "int" else a
    pb = b[:2] if b[0] == "int" else b
    c = num_cmp(pa, pb)
    e = num_eq(pa, pb)
    na, nb = api_isnan(a), api_isnan(b)
    if not na and not nb:
        mn, mx = ("a" if c <= 0 else "b"), ("a" if c > 0 else "b")     # ties: min keeps the left, max the right
    elif a[0] != "complex" and b[0] != "complex" and na != nb:
        mn = mx = ("b" if na else "a")                                   # one NaN: the other argument
    else:
        mn = mx = None
    return ["n" if c is None else str(c), str(int(e)), mn, mx, str(int(e or (na and nb)))]


def evaluate_api(ctx, P, runner):
    vals = api_pool(ctx, P)
    n = len(vals)
    pairs = [(i, j) for i in range(n) for j in range(n)]
    if ctx.quick() and len(pairs) > 30000:
        keep = set(range(0, n, 2))
        pairs = [(i, j) for (i, j) in pairs if i in keep or j in keep or vals[i][0] == "complex" or vals[j][0] == "complex"]
        ctx.rng.shuffle(pairs)
        pairs = pairs[:30000]
    chunks = [pairs[k:k + 2000] for k in range(0, len(pairs), 2000)]
    jv = [api_json(v) for v in vals]
    res = common.run_harness(common.harness_bin("c08"), [{"vals": jv, "pairs": ch} for ch in chunks], timeout=120.0, workers=min(common.NPROC, len(chunks)))
    impl = []
    for ch, r in zip(chunks, res):
        rs = r.get("res") if isinstance(r, dict) else None
        impl += rs if rs and len(rs) == len(ch) else [r.get("status", "abort") if isinstance(r, dict) else "abort"] * len(ch)
    mres = common.run_model(runner, [f"num {api_model(vals[i])} {api_model(vals[j])}" for i, j in pairs]) if runner else [None] * len(pairs)
    reported = 0
    names = ["partial_cmp", "==", "NNum::min", "NNum::max", "total_eq"]
    for (i, j), o, m in zip(pairs, impl, mres):
        orc = api_oracle(vals[i], vals[j])
        got = o.split(" ")
        doc = {"case": {"op": "api", "a": api_json(vals[i]), "b": api_json(vals[j])}, "implementation": o, "coq_model": m,
               "fraction_oracle": orc, "observables": names}
        if len(got) != 5 or any(w is not None and g != w for g, w in zip(got, orc)):
            if reported < 2:
                doc["what"] = "Rust API (NNum partial_cmp / == / min / max / total_eq) differs from the exact values"
                ctx.violation("property", doc, found=True)
            reported += 1
        elif m is not None and o != m:
            if reported < 2:
                doc["what"] = "correspondence (nnum_* functions) no longer checks; the oracle accepts the implementation's answer"
                ctx.violation("correspondence", doc, found=False)
            reported += 1
    return len(pairs), n



def evaluate_decode(ctx, P, runner):
    """the Gallina decoder against Python's exact Fraction(float), on the pool's doubles and random bit patterns"""
    if not runner:
        return 0
    bs = [x["py"][1] for x in P if x["k"] == "float"] + [ctx.rng.getrandbits(64) for _ in range(ctx.n(2000, 50000))]
    bs += [0, 1, 2, (1 << 52) - 1, 1 << 52, (1 << 52) + 1, 0x7fefffffffffffff, 0x7ff0000000000000, 0x7ff0000000000001,
           0xfff0000000000000, 0xffffffffffffffff, 0x8000000000000000, 0x8000000000000001]
    res = common.run_model(runner, [f"dec {b}" for b in bs])
    bad = 0
    for b, r in zip(bs, res):
        if is_nan_bits(b):
            want = "nan"
        else:
            x = b2f(b)
            if x in (float("inf"), float("-inf")):
                want = "inf +" if x > 0 else "inf -"
            else:
                want = Fraction(x)
        ok = (r == want) if isinstance(want, str) else (r.startswith("fin ") and Fraction(int(r.split()[1]), int(r.split()[2])) == want)
        if not ok:
            bad += 1
            if bad <= 1:
                ctx.violation("correspondence", {"what": "Gallina f64 decoder differs from Python's exact Fraction(float)", "bits": hex(b),
                                                 "coq_model": r, "python": str(want)}, found=False)
    return len(bs)


def run(ctx):
    runner = common.standard_prelude(ctx)
    P = pool(ctx)
    if not check_pool(ctx, P):
        return common.conclude(ctx)
    T, n_grid, n_bad = evaluate_grid(ctx, P, runner)
    n_laws, _ = laws_on_grid(ctx, P, T)
    n_chain = evaluate_chains(ctx, P, runner)
    n_sort, ties, by_form = evaluate_sorts(ctx, P, runner)
    n_dec = evaluate_decode(ctx, P, runner)
    n_api, n_api_vals = evaluate_api(ctx, P, runner)

    def level(x):
        return x["k"]
    cross = sum(1 for (op, i, j) in T if P[i]["k"] in NUMK and P[j]["k"] in NUMK and P[i]["k"] != P[j]["k"])
    close = 0
    for (op, i, j) in T:
        a, b = P[i]["py"], P[j]["py"]
        if op == "cmp" and a[0] in ("int", "rat", "float") and b[0] in ("int", "rat", "float") and a[0] != b[0] and "float" in (a[0], b[0]):
            ka, kb = real_key(a), real_key(b)
            if ka and kb and ka[0] == kb[0] == 0:
                f = a if a[0] == "float" else b
                o = b if a[0] == "float" else a
                # would rounding the exact side to double change the answer?
                try:
                    rounded = float(real_key(o)[1])
                except OverflowError:
                    rounded = None
                if rounded is None or (rounded == b2f(f[1])) != (ka == kb):
                    close += 1
    kinds = {}
    for x in P:
        kinds[x["k"]] = kinds.get(x["k"], 0) + 1
    samples_idx = list(T)[:: max(1, len(T) // 14)][:14]
    ctx.coverage.update({
        "evaluations": n_grid + n_chain + n_sort + n_api,
        "distinct_nontrivial": cross + n_chain + n_sort + n_api,
        "rule": "every (operator, a, b) of the full pool x pool grid is distinct by construction; non-trivial = the two operands are numbers of "
                "different levels (int/rational/float/complex), or the case is a chain / sort / sort_on / min / max of 2-6 pool values, "
                "or a Rust-API pair (each yields five observables: partial_cmp, ==, NNum::min, NNum::max, total_eq). "
                "`rounding_sensitive_pairs` counts mixed float/exact pairs whose answer would change if the exact side were rounded to a double.",
        "pool_size": len(P), "pool_kinds": kinds,
        "grid_evaluations": n_grid, "grid_mismatches": n_bad, "cross_level_grid_evaluations": cross,
        "rounding_sensitive_pairs": close,
        "law_checks_on_implementation_grid": n_laws,
        "chains": n_chain, "sorts_and_extrema": n_sort, "sorts_with_distinguishable_ties": ties, "by_form": by_form,
        "decoder_checks_vs_python_fraction": n_dec,
        "rust_api_pairs": n_api, "rust_api_values": n_api_vals,
        "impl_outcomes": {o: sum(1 for v in T.values() if (v or "abort").split(" ")[0] == o) for o in ("ok", "err", "panic", "hang", "abort")},
        "samples": [{"program": f"{P[i]['src']} {dict(OPS, cmp='<=>', rcmp='>=<').get(op, op)} {P[j]['src']}", "implementation": T[(op, i, j)]}
                    for (op, i, j) in samples_idx],
    })
    ctx.assumptions += ["num-bigint / num-rational comparisons mean comparison in Z / Q; f64 ==, partial_cmp, trunc, floor, to_bigint, "
                        "from_float mean the IEEE-754 value of the bit pattern (model: FloatBits.v; decoder cross-checked against Python's Fraction(float))",
                        "Vec::sort_by is a stable sort (theorem C08_stable_sort_unique: any stable sort by a total preorder returns the same list)",
                        "Small(z) holds an i64 (hypothesis wf of the theorems)"]
    return common.conclude(ctx)


def replay(ctx, rep):
    """re-run the recorded program on the current tree and compare with the recorded oracle answer"""
    common.standard_prelude(ctx, model=False)
    prog = rep.get("program")
    if rep.get("case", {}).get("op") == "api":
        c = rep["case"]
        r = common.run_harness(common.harness_bin("c08"), [{"vals": [c["a"], c["b"]], "pairs": [[0, 1]]}], timeout=20.0)
        got = (r[0].get("res") or ["abort"])[0]
        orc = rep.get("fraction_oracle") or []
        bad = len(got.split(" ")) != 5 or any(w is not None and g != w for g, w in zip(got.split(" "), orc))
        print(json.dumps({"api_case": c, "implementation": got, "fraction_oracle": orc, "still_failing": bad}))
        return 1 if bad else 0
    if not prog:
        print(json.dumps({"replay": "nothing to run", "what": rep.get("what")}))
        return 1
    progs = [p for p in prog.split("; ")] if rep.get("law") else [prog]
    res = common.run_prog(progs, timeout=20.0)
    obs = [observed(r) for r in res]
    orc = rep.get("fraction_oracle")
    bad = any(o in CRASH for o in obs) or (orc is not None and orc != "any" and obs[0] != orc) or bool(rep.get("law"))
    print(json.dumps({"programs": progs, "implementation": obs, "fraction_oracle": orc, "still_failing": bad}))
    return 1 if bad else 0
