"""C03 - infix chains group by the operators' runtime precedence and associativity.

Proof: Chain/ChainEval.v (transcribed pending-operator stack) = Chain/Climb.v (precedence climbing)
for every `tighter`/`chain` oracle; exactly-once/in-order; fast path and sections.
Correspondence: the real ChainEvaluator is driven through tree-building test operators
(harness/src/bin/c03.rs) with arbitrary Precedence(f64, Assoc) incl. NaN/inf/ties and chain
groups, and through wrappers around the real builtins (their real precedence and try_chain);
the extracted model predicts the tree. A table of the live builtins is dumped every run and
compiled into Generated/BuiltinTable.v, over which Props/C03.v re-proves by computation that
the documented chainable pairs chain.
"""
import itertools, json
import common

ID = "C03"
MANIFEST = dict(
    technique="Coq proof (stack machine = precedence climbing for every oracle) + regenerated builtin table + exhaustive/random tree-level correspondence",
    text="Theorems (Coq 8.16, no axioms): the transcribed ChainEvaluator (give/finish over the pending stack, merge on try_chain keeping the left "
         "precedence) computes exactly the recursive precedence-climbing specification for EVERY tighter/chain oracle (so NaN precedences and "
         "non-transitive ties are covered) and every chain length; every operand and operator occurs exactly once, in source order, in the result; "
         "merging happens exactly when the left operator is tighter and chains; the one-operator fast path and underscore sections equal the general "
         "path; equal-precedence chains fold left/right by the left operator's associativity. The model is tied to /repo every run: all chains of "
         "length <= 3 (thorough <= 4) over 3 levels x 2 assoc x 2 chain classes, random chains up to length 9 with NaN/inf, sections, in-language "
         "precedence reassignment and swap, and chains of the real builtins (wrapped so the tree is observable) are run through the real evaluator and the "
         "extracted model; the builtin chain table is regenerated from the live env and checked in Coq against the documented pairs.",
    note="Trusted: Coq kernel; hand-written model Chain/ChainEval.v; test operators and wrappers in harness/src/bin/c03.rs (a wrapper delegates "
         "try_chain/precedence to the real builtin but builds a tree instead of running it); extraction/OCaml runner; Python driver. The n-ary "
         "semantics of each chainable builtin is not part of this check (C13). Operator-position expressions other than identifiers are not generated.",
    design="6-C03")

LEVELS = {1: "1.0", 2: "2.5", 3: "7.0", -99: "(0-(1.0/0.0))", 99: "(1.0/0.0)", "nan": "(0.0/0.0)"}
HARNESS_PREC = {1: "1.0", 2: "2.5", 3: "7.0", -99: "-inf", 99: "inf", "nan": "nan"}
DOCUMENTED = ([(a, b) for a in ("==", "!=", "<", "<=", ">", ">=") for b in ("==", "!=", "<", "<=", ">", ">=")] +
              [("zip", "zip"), ("zip", "with"), ("**", "**"), ("&&&", "&&&"), ("***", "***"), ("til", "by"), ("to", "by"),
               ("fold", "from"), ("scan", "from"), ("replace", "with")])
REAL_POOL = ["+", "-", "*", "/", "//", "%", "^", ".+", "+.", "++", "==", "!=", "<", "<=", ">", ">=", "max", "min", "zip", "with",
             "**", "&&&", "***", "til", "to", "by", "fold", "scan", "from", "replace", "|", "&", "then", "<=>", "$", ".."]


def coq_string(s):
    return '"' + s.replace('"', '""') + '"'


def dump_table():
    res = common.run_harness(common.harness_bin("c03"), [{"id": 0, "mode": "table"}], timeout=60, workers=1)[0]
    if res.get("status") != "ok":
        raise RuntimeError("table dump failed: " + json.dumps(res)[:300])
    return res


def write_generated(table):
    d = common.COQ / "theories" / "Generated"
    d.mkdir(exist_ok=True)
    pairs = sorted((a, b) for a, b in table["chains"])
    txt = ("(* GENERATED on every run by driver/props/c03.py from the live environment of /repo's working tree\n"
           "   (harness/src/bin/c03.rs, mode table): the try_chain relation among all global functions. *)\n"
           "From Coq Require Import String List.\nImport ListNotations.\nOpen Scope string_scope.\n"
           "Definition chain_pairs : list (string * string) := [\n  " +
           ";\n  ".join(f"({coq_string(a)}, {coq_string(b)})" for a, b in pairs) + "\n].\n"
           f"Definition n_global_functions : nat := {len(table['funcs'])}.\n")
    f = d / "BuiltinTable.v"
    if not f.exists() or f.read_text() != txt:
        f.write_text(txt)


def pregenerate():
    ok, out = common.build_harness()
    if not ok:
        raise RuntimeError("harness build failed: " + out[-500:])
    t = dump_table()
    write_generated(t)
    return t


# ----------------------------------------------------------------------------- cases
def op_desc(label, rank, assoc, group):
    return {"label": label, "rank": rank, "assoc": assoc, "group": group, "real": None}


def real_desc(label, name, table_by_name):
    f = table_by_name[name]
    return {"label": label, "rank": None, "assoc": f["assoc"], "group": 0, "real": name, "precf": f["precf"]}


def model_line(mode, ops, ranks=None):
    parts = []
    for o in ops:
        r = o["rank"]
        parts.append("\x02".join([o["label"], "nan" if r == "nan" else str(r), o["assoc"], str(o["group"]),
                               (o["real"] or "-").replace(" ", "")]))
    return f"{mode} {len(ops)} " + " ".join(parts)


def harness_ops(ops):
    out = []
    for o in ops:
        if o["real"]:
            out.append({"real": o["real"], "name": o["label"]})
        else:
            out.append({"name": o["label"], "prec": HARNESS_PREC[o["rank"]], "assoc": o["assoc"], "group": o["group"]})
    return out


def chain_src(n, mask=None):
    if mask is None:
        return " ".join(["ev(0)"] + [f"o{i} ev({i})" for i in range(1, n + 1)])
    body = " ".join([("_" if mask[0] == "_" else "ev(0)")] + [f"o{i} " + ("_" if mask[i] == "_" else f"ev({i})") for i in range(1, n + 1)])
    args = ", ".join(f"ev({i})" for i in range(n + 1) if mask[i] == "_")
    return f"({body})({args})"


def assign_real_ranks(ops):
    """real precedences are floats: turn them into integer ranks (order-preserving) for the model"""
    vals = sorted({o["precf"] for o in ops if o["real"] and o["precf"] == o["precf"]})
    for o in ops:
        if o["real"]:
            o["rank"] = "nan" if o["precf"] != o["precf"] else vals.index(o["precf"])


def gen_cases(ctx, table):
    by_name = {f["name"]: f for f in table["funcs"]}
    cases = []
    opts = [(r, a, g) for r in (1, 2, 3) for a in "LR" for g in (0, 1)]
    maxlen = ctx.n(3, 4)
    # exhaustive synthetic chains
    for n in range(1, maxlen + 1):
        for combo in itertools.product(opts, repeat=n):
            ops = [op_desc(f"o{i + 1}", r, a, g) for i, (r, a, g) in enumerate(combo)]
            cases.append({"family": "exhaustive", "ops": ops, "mode": "chain" if n > 1 else "fast", "src": chain_src(n)})
    rng = ctx.rng
    wide = [1, 2, 3, 1, 2, 3, -99, 99, "nan"]
    def rand_ops(n, pool=wide, groups=(0, 0, 1, 2)):
        return [op_desc(f"o{i + 1}", rng.choice(pool), rng.choice("LR"), rng.choice(groups)) for i in range(n)]
    # random longer chains incl. NaN / infinities
    for _ in range(ctx.n(600, 8000)):
        n = rng.randint(2, 9)
        cases.append({"family": "random", "ops": rand_ops(n), "mode": "chain", "src": chain_src(n)})
    # underscore sections applied later
    for _ in range(ctx.n(400, 5000)):
        n = rng.randint(1, 6)
        mask = "".join(rng.choice("_x") for _ in range(n + 1))
        if "_" not in mask:
            mask = "_" + mask[1:]
        cases.append({"family": "section", "ops": rand_ops(n), "mode": "section:" + mask, "src": chain_src(n, mask)})
    # precedence reassigned in the language just before the chain runs; and swap
    for _ in range(ctx.n(300, 4000)):
        n = rng.randint(2, 6)
        ops = rand_ops(n)
        initial = [dict(o) for o in ops]
        pre = []
        for k in rng.sample(range(n), rng.randint(1, n)):
            initial[k] = dict(initial[k], rank=rng.choice([1, 2, 3]))
            pre.append(f"o{k + 1}::precedence = {LEVELS[ops[k]['rank']]}")
        cases.append({"family": "reassign", "ops": ops, "harness_ops": initial, "mode": "chain", "src": "; ".join(pre + [chain_src(n)])})
    for _ in range(ctx.n(200, 3000)):
        n = rng.randint(2, 6)
        ops = rand_ops(n)
        i, j = rng.sample(range(n), 2)
        swapped = list(ops)
        swapped[i], swapped[j] = ops[j], ops[i]   # the VALUES move; labels travel with the values
        cases.append({"family": "swap", "ops": swapped, "harness_ops": ops, "mode": "chain",
                      "src": f"swap o{i + 1}, o{j + 1}; " + chain_src(n)})
    # operator expressions are evaluated left to right, each after the operand on its left and before the operand
    # on its right: an operand that reassigns an operator variable is seen by the operators to its right only
    for _ in range(ctx.n(400, 5000)):
        n = rng.randint(1, 5)
        ops = rand_ops(n)
        spare = [op_desc(f"s{k + 1}", rng.choice([1, 2, 3]), rng.choice("LR"), rng.choice((0, 0, 1, 2))) for k in range(2)]
        env_ops = ops + spare                      # variables o1..on, o{n+1}, o{n+2}
        cur = {k + 1: env_ops[k] for k in range(n + 2)}
        assigns = {}
        for _a in range(rng.randint(1, 3)):
            k = rng.randint(0, n)                  # the operand that performs the assignment
            tgt = rng.randint(1, n)
            src_v = rng.choice([v for v in range(1, n + 3) if v != tgt])
            assigns.setdefault(k, []).append((tgt, src_v))
        # which VARIABLE stands at each operator position: often the same identifier several times in a row
        var_at = []
        for pos in range(1, n + 1):
            if var_at and rng.random() < 0.5:
                var_at.append(var_at[-1])
            else:
                var_at.append(rng.randint(1, n) if rng.random() < 0.5 else pos)
        eff = []
        for pos in range(1, n + 1):
            for tgt, src_v in assigns.get(pos - 1, []):
                cur[tgt] = cur[src_v]
            eff.append(cur[var_at[pos - 1]])
        def operand(k):
            pre = "".join(f"o{t} = o{sv}; " for t, sv in assigns.get(k, []))
            return f"({pre}ev({k}))" if pre else f"ev({k})"
        src = " ".join([operand(0)] + [f"o{var_at[i - 1]} {operand(i)}" for i in range(1, n + 1)])
        # labels travel with the VALUES: the model sees the effective operator values in chain order
        cases.append({"family": "opassign-in-operand", "ops": eff, "harness_ops": env_ops,
                      "mode": "chain" if n > 1 else "fast", "src": src})
    # chains of the real builtins (wrapped): real precedence, associativity and try_chain
    names = [x for x in REAL_POOL if x in by_name]
    chainable = sorted({a for a, b in table["chains"]} | {b for a, b in table["chains"]})
    for _ in range(ctx.n(800, 10000)):
        n = rng.randint(1, 6)
        seq = []
        for k in range(n):
            if seq and rng.random() < 0.45:
                partners = [b for a, b in table["chains"] if a == seq[-1]]
                seq.append(rng.choice(partners) if partners else rng.choice(names))
            else:
                seq.append(rng.choice(names + chainable[:0]) if rng.random() < 0.6 else rng.choice(chainable))
        ops = [real_desc(f"o{i + 1}", nm, by_name) for i, nm in enumerate(seq)]
        assign_real_ranks(ops)
        cases.append({"family": "real", "ops": ops, "mode": "chain" if n > 1 else "fast", "src": chain_src(n), "names": seq})
    return cases


def tree_key(c):
    return json.dumps([[o["rank"], o["assoc"], o["group"], o["real"]] for o in c["ops"]] + [c["mode"], c["family"]])


def evaluate(ctx, cases, runner, table):
    hcases = [{"id": i, "ops": harness_ops(c.get("harness_ops", c["ops"])), "src": c["src"]} for i, c in enumerate(cases)]
    res = common.run_harness(common.harness_bin("c03"), hcases, timeout=10.0)
    header = ["pairs " + " ".join(a.replace(" ", "") + "\x01" + b.replace(" ", "") for a, b in table["chains"])]
    lines = [model_line(c["mode"], c["ops"]) for c in cases]
    mres = common.run_model(runner, lines, header=header) if runner else [None] * len(cases)
    sres = common.run_model(runner, [model_line("spec", c["ops"]) for c in cases], header=header) if runner else [None] * len(cases)
    bad = []
    for c, r, m, s in zip(cases, res, mres, sres):
        n = len(c["ops"])
        c["impl"] = r.get("val") if r.get("status") == "ok" else r.get("status")
        c["impl_log"] = r.get("log")
        c["model"] = m
        c["spec"] = s
        want_log = [f"I{i}" for i in range(n + 1)]
        if c["mode"].startswith("section:"):
            # fixed operands are evaluated when the section is built, slot arguments when it is applied
            mask = c["mode"][8:]
            want_log = [f"I{i}" for i in range(n + 1) if mask[i] != "_"] + [f"I{i}" for i in range(n + 1) if mask[i] == "_"]
        if r.get("status") != "ok":
            bad.append(("property", c, f"chain did not evaluate: {r.get('status')} {r.get('msg', '')[:200]}"))
        elif r.get("log") != want_log:
            bad.append(("property", c, "operands were not evaluated exactly once, left to right"))
        elif m is not None and c["impl"] != m:
            bad.append(("property", c, "result tree differs from precedence grouping (Coq model = proven-equal climbing spec)"))
    return bad


def nontrivial(c):
    """>= 2 pending operators reduced by one incoming operator, or a merge happens: approximated from the predicted tree:
    a merge shows as a label containing ','; a multi-reduction needs >= 3 operators with a loosest operator not first"""
    m = c.get("model") or ""
    return ("," in m.split('"')[1] if m.count('"') >= 2 else False) or any("," in part for part in m.split('"')[1::2]) or len(c["ops"]) >= 3


def report(ctx, bad):
    seen = set()
    for kind, c, why in bad:
        key = (c["family"], why[:30])
        if key in seen:
            continue
        seen.add(key)
        ctx.violation("property", {
            "what": why, "family": c["family"], "program": c["src"],
            "operators": harness_ops(c.get("harness_ops", c["ops"])), "effective_operators": c["ops"],
            "implementation_tree": c["impl"], "implementation_operand_log": c["impl_log"],
            "coq_model_tree": c["model"], "coq_spec_tree": c["spec"], "case": {k: c[k] for k in ("family", "ops", "mode", "src") if k in c} | ({"harness_ops": c["harness_ops"]} if "harness_ops" in c else {}),
        }, found=True)


def value_level(ctx, table):
    """real programs: the value of a chain of real arithmetic/comparison operators equals the value of the
    model's tree written out as explicit calls (exercises the run2 fast path and the real builtins)"""
    rng = ctx.rng
    by_name = {f["name"]: f for f in table["funcs"]}
    pool = [x for x in ["+", "-", "*", "^", "max", "min", "<", "<=", "==", ">", "//", "%"] if x in by_name]
    progs, meta = [], []
    for _ in range(ctx.n(300, 4000)):
        n = rng.randint(1, 5)
        seq = [rng.choice(pool) for _ in range(n)]
        if seq.count("^") > 2:
            continue
        vals = [rng.randint(1, 4) for _ in range(n + 1)]
        ops = [real_desc(f"o{i + 1}", nm, by_name) for i, nm in enumerate(seq)]
        assign_real_ranks(ops)
        meta.append((seq, vals, ops))
    return meta


def tree_to_calls(tree, seq, vals):
    """L[S"o1,o2",I0,I1,L[...]] -> nested explicit calls over the real operator names"""
    pos = 0

    def parse():
        nonlocal pos
        if tree[pos] == "I":
            j = pos + 1
            while j < len(tree) and tree[j].isdigit():
                j += 1
            k = int(tree[pos + 1:j])
            pos = j
            return str(vals[k])
        assert tree.startswith('L[S"', pos), tree[pos:]
        pos += 4
        j = tree.index('"', pos)
        labels = tree[pos:j].split(",")
        pos = j + 1
        args = []
        while tree[pos] == ",":
            pos += 1
            args.append(parse())
        assert tree[pos] == "]"
        pos += 1
        names = [seq[int(l[1:]) - 1] for l in labels]
        if len(names) == 1:
            return f"({names[0]})({args[0]}, {args[1]})"
        # merged comparison chain: conjunction of adjacent comparisons (operands here are literals or pure calls)
        parts = [f"(({names[i]})({args[i]}, {args[i + 1]}))" for i in range(len(names))]
        return "(if (" + " and ".join(parts) + ") 1 else 0)"
    return parse()


def run(ctx):
    try:
        table = pregenerate()
    except Exception as e:
        ctx.proof = {"ok": False, "problems": [str(e)], "theorems": [], "obligations": 0, "discharged": 0}
        ctx.violation("harness-build-failed", {"what": str(e)}, found=False)
        return ctx.finish()
    runner = common.standard_prelude(ctx)
    cases = gen_cases(ctx, table)
    bad = evaluate(ctx, cases, runner, table)
    # table facts checked on the implementation directly
    doc_missing = [p for p in DOCUMENTED if list(p) not in table["chains"]]
    if doc_missing:
        a, b = doc_missing[0]
        ctx.violation("property", {"what": f"documented chainable pair does not chain: {a} then {b}", "missing": doc_missing,
                                   "program": f"x {a} y {b} z  (try_chain({a}, {b}) is None)"}, found=True)
    if table["onward_bad"]:
        ctx.violation("correspondence", {"what": "a merged operator does not chain onward as its left component does (model assumption)",
                                         "triples": table["onward_bad"][:20]}, found=False)
    # value level
    meta = value_level(ctx, table)
    header = ["pairs " + " ".join(a + "\x01" + b for a, b in table["chains"])]
    trees = common.run_model(runner, [model_line("chain" if len(s) > 1 else "fast", ops) for s, v, ops in meta], header=header) if runner else []
    progs = []
    for (seq, vals, ops), t in zip(meta, trees):
        chain = " ".join([str(vals[0])] + [f"{seq[i]} {vals[i + 1]}" for i in range(len(seq))])
        progs.append(chain)
        progs.append(tree_to_calls(t, seq, vals))
    vres = common.run_prog(progs, timeout=10.0)
    nval = 0
    for k in range(0, len(vres), 2):
        a, b = vres[k], vres[k + 1]
        nval += 1
        oa = a.get("val") if a.get("status") == "ok" else "raised" if a.get("status") == "err" else a.get("status")
        ob = b.get("val") if b.get("status") == "ok" else "raised" if b.get("status") == "err" else b.get("status")
        if oa != ob:
            bad.append(("property", {"family": "value", "src": progs[k], "ops": [], "mode": "chain", "impl": oa, "impl_log": None,
                                     "model": progs[k + 1] + " => " + str(ob), "spec": None},
                        "value of the chain differs from the value of its precedence grouping written as explicit calls"))
    report(ctx, bad)
    fam = {}
    for c in cases:
        fam[c["family"]] = fam.get(c["family"], 0) + 1
    nt = {tree_key(c) for c in cases if nontrivial(c)}
    merges = sum(1 for c in cases if c.get("model") and any("," in part for part in c["model"].split('"')[1::2]))
    ctx.coverage.update({
        "evaluations": len(cases) + nval, "distinct_nontrivial": len(nt),
        "rule": "all chains of length <= %d over 3 precedence levels x {left,right} x {plain, chain group} (exhaustive), random chains of length 2..9 over "
                "levels incl. +-inf and NaN with chain groups, the same as underscore sections with random slot masks, with `o::precedence = p` executed "
                "in the program before the chain, after `swap oi, oj`, random chains of wrapped REAL builtins (biased to chainable neighbours), and value-level "
                "programs over real arithmetic/comparison operators. non-trivial = >= 3 operators or a merge; distinct by operator descriptors+mode" % ctx.n(3, 4),
        "samples": [{"program": c["src"], "operators": harness_ops(c.get("harness_ops", c["ops"])), "implementation": c["impl"], "coq_model": c["model"]}
                    for c in cases[::max(1, len(cases) // 10)]][:10],
        "families": fam, "chains_with_a_merge": merges, "value_level_programs": nval,
        "global_functions_in_table": len(table["funcs"]), "chain_pairs_in_table": len(table["chains"]),
        "exhaustive": False,
    })
    ctx.assumptions += ["test operators (TOp) stand for arbitrary operator values; wrappers delegate try_chain/precedence to the real builtin",
                        "operator positions hold identifiers (evaluation order of operator expressions is then unobservable)"]
    return common.conclude(ctx)


def replay(ctx, rep):
    table = pregenerate()
    runner = common.standard_prelude(ctx)
    c = rep["case"]
    bad = evaluate(ctx, [c], runner, table)
    report(ctx, bad)
    print(json.dumps({"program": c["src"], "implementation": c.get("impl"), "model": c.get("model")}))
    return 1 if bad else 0
