"""C15 - lexing and parsing are total; number/string literals decode exactly.

Correspondence (differential testing; it validates the Coq model Text/Lexer.v and searches
the implementation for failing inputs, it is not the theorem):
 (a) literals   every literal syntax x boundary/huge/random values, every escape form, rendered by
                an independent Python renderer, run through parse+evaluate (bin/prog), compared with
                the intended value (Python big ints / float() / str) AND with the model's token.
 (b) tokens     generated strings (token soups, mutations of the suite's and the examples' programs,
                unbalanced delimiters, runaway comments/strings, long digit runs, Unicode classes)
                through noulith::lex (bin/c15) and through the extracted model: same kinds, same payloads.
 (c) totality   the same strings and more (nesting up to a fixed depth, long inputs) through
                noulith::parse under catch_unwind in worker processes with a per-case time limit:
                panic / abort / hang on a finite input is a violation with that input as replay.
 (d) format     bodies of F"..." literals: segments and flags of Expr::FormatString vs the model's
                brace scanner + flag reader.
"""
import json, os, re, struct, unicodedata
from fractions import Fraction
import common

ID = "C15"
MANIFEST = dict(
    technique="Coq proof (lexer model: termination, no panic, radix/escape round trips by positional notation, unbounded) + "
              "token-stream and literal-value correspondence model/implementation/Python oracle + totality search on parse()",
    text="Machine-checked theorems (Coq 8.16, no axioms) about a Gallina transcription of Lexer::lex, lex_base_and_emit, "
         "lex_base_64_and_emit, lex_simple_string_after_start and parse_format_string's brace scanner/flag reader: the main loop never "
         "exhausts fuel S(length input) for any input (every iteration consumes a character), never panics for inputs shorter than 2^31 "
         "characters, and always returns a token list; integer literals in every syntax (decimal of any length, 0x/0b/0o, NrDIGITS for "
         "2<=N<=36, 64r) lex to exactly the value their digits spell in positional notation, hence render-then-lex is the identity on every "
         "natural number; q literals likewise; every string of Unicode scalar values written with any mix of raw characters, named escapes, "
         "\\xHH and delimited \\u escapes lexes to exactly that string, and each escape form on arbitrary digits yields the scalar spelled or "
         "an Invalid token, never another character; the format-string brace scanner is total with its level arithmetic never under- or "
         "overflowing, for every behaviour of the (abstract) expression parser. The model is tied to /repo on every run by exact token-stream "
         "comparison on generated inputs and by literal-value comparison against Python. Totality of the recursive-descent PARSER is searched "
         "(panic/abort/hang detection on generated inputs), not proved.",
    note="Trusted: Coq kernel; hand-written model Text/{Chars,LexLit,Lexer,FormatScan}.v (tie to code = differential testing); extraction+OCaml "
         "runner; Rust harness bin/c15 + bin/prog; Python generators/oracles. Unicode tables (is_alphabetic/is_numeric/is_uppercase for code "
         "points >= 128) are a parameter of every theorem and are dumped from the implementation for the run. Text->f64 is Rust's str::parse "
         "(assumed correctly rounded; compared with Python float()). CodeLoc bookkeeping and Invalid(..) wording are not modelled. Parser "
         "totality: search only. Known findings: native stack overflow on deep nesting (parser-native-stack-depth); \\xHH with HH>=0x80 in a "
         "bytes literal yields the UTF-8 encoding of U+00HH (bytes-x-escape-utf8).",
    design="6-C15")

I63 = 2 ** 63
DEPTH_KNOWN = 100      # matcher bound of the known finding parser-native-stack-depth
DEPTH_GEN = 60         # generated inputs elsewhere stay at or below this nesting measure
DIG = "0123456789abcdefghijklmnopqrstuvwxyz"
B64 = "ABCDEFGHIJKLMNOPQRSTUVWXYZabcdefghijklmnopqrstuvwxyz0123456789+/"


# ----------------------------------------------------------------------------- helpers
def cps(s):
    return " ".join(str(ord(c)) for c in s)


def to_radix(n, b):
    if n == 0:
        return "0"
    out = []
    while n:
        out.append(DIG[n % b])
        n //= b
    return "".join(reversed(out))


def to_b64(n):
    if n == 0:
        return "A"
    out = []
    while n:
        out.append(B64[n % 64])
        n //= 64
    return "".join(reversed(out))


def mixcase(rng, s):
    return "".join(c.upper() if rng.random() < 0.5 else c for c in s)


def fbits(x):
    return "%016x" % struct.unpack("<Q", struct.pack("<d", x))[0]


def pyfloat(txt):
    """Python's correctly rounded decimal->double; overflow gives inf like Rust"""
    try:
        return float(txt)
    except OverflowError:
        return float("inf")


def canon_str(s):
    """same escaping as harness nvh::esc"""
    r = []
    for c in s:
        o = ord(c)
        if c == "\\":
            r.append("\\\\")
        elif c == '"':
            r.append('\\"')
        elif c == "\n":
            r.append("\\n")
        elif o < 0x20 or o == 0x7f:
            r.append("\\u{%x}" % o)
        else:
            r.append(c)
    return 'S"' + "".join(r) + '"'


def is_scalar(o):
    return 0 <= o < 0xD800 or 0xDFFF < o < 0x110000


def norm_model_tokens(line):
    """model prints FloatT:<text cps>; turn into Float:<bits> with Python float()"""
    if not line.startswith("ok"):
        return line
    out = []
    for t in line[2:].split():
        if t.startswith("FloatT:") or t.startswith("ImagT:"):
            kind, body = t.split(":", 1)
            txt = "".join(chr(int(x)) for x in body.split(",") if x)
            out.append(("Float:" if kind == "FloatT" else "Imag:") + fbits(pyfloat(txt)))
        else:
            out.append(t)
    return "ok " + " ".join(out) if out else "ok"


def ensure_classes():
    """Unicode tables of the implementation's char methods -> file for the model runner"""
    path = common.BUILD / "ocaml" / "C15" / "classes.txt"
    r = common.run_harness(common.harness_bin("c15"), [{"mode": "classes"}], timeout=120, workers=1)[0]
    if "alphabetic" not in r:
        return None
    path.parent.mkdir(parents=True, exist_ok=True)
    with open(path, "w") as f:
        for k in ("alphabetic", "numeric", "uppercase"):
            f.write(k + " " + " ".join(map(str, r[k])) + "\n")
    os.environ["C15_CLASSES"] = str(path)
    # White_Space is concrete in the model: check the implementation agrees (>= 128 part)
    want = [133, 133, 160, 160, 5760, 5760, 8192, 8202, 8232, 8233, 8239, 8239, 8287, 8287, 12288, 12288]
    return {"whitespace_matches_model": r.get("whitespace") == want,
            "ranges": {k: len(r[k]) // 2 for k in ("alphabetic", "numeric", "uppercase")}, "tables": r}


# ----------------------------------------------------------------------------- (a) literals
def int_values(ctx):
    rng = ctx.rng
    vals = [0, 1, 2, 7, 9, 10, 35, 36, 63, 64, 255, 256, 4095, 2 ** 31 - 1, 2 ** 31, 2 ** 32 - 1, 2 ** 32,
            I63 - 1, I63, I63 + 1, 2 ** 64 - 1, 2 ** 64, 2 ** 64 + 1, 10 ** 40, 10 ** 40 + 7, 2 ** 200 - 1]
    vals += [rng.randrange(10 ** 299, 10 ** 300) for _ in range(ctx.n(3, 20))]
    vals += [rng.randrange(0, 2 ** rng.randrange(1, 130)) for _ in range(ctx.n(30, 400))]
    return vals


def int_literal_cases(ctx):
    rng = ctx.rng
    cases = []
    for n in int_values(ctx):
        forms = [("dec", str(n)), ("dec0", "00" + str(n)), ("hex", "0x" + to_radix(n, 16)), ("HEX", "0X" + to_radix(n, 16).upper()),
                 ("bin", "0b" + to_radix(n, 2)), ("BIN", "0B" + to_radix(n, 2)), ("oct", "0o" + to_radix(n, 8)), ("OCT", "0O" + to_radix(n, 8)),
                 ("b64", "64r" + to_b64(n)), ("B64", "64R" + to_b64(n).replace("+", "-").replace("/", "_")), ("b64z", "64rAA" + to_b64(n))]
        radices = list(range(2, 37)) if n in (0, 1, I63, 10 ** 40) or rng.random() < 0.1 else rng.sample(range(2, 37), 4)
        for b in radices:
            forms.append((f"r{b}", f"{b}r" + to_radix(n, b)))
            forms.append((f"R{b}", f"0{b}R" + mixcase(rng, to_radix(n, b))))
        for form, txt in forms:
            cases.append(dict(group="int", form=form, src=txt, want=f"I{n}", tok=f"Int:{n}"))
        cases.append(dict(group="rat", form="q", src=f"{n}q", want=f"R{n}/1", tok=f"Rat:{n}"))
        cases.append(dict(group="rat", form="Q", src=f"{n}Q", want=f"R{n}/1", tok=f"Rat:{n}"))
    # literals glued to what follows
    for txt, want in [("[16rff,0x10]", "L[I255,I16]"), ("(2r101)", "I5"), ("36rzz;1", "I1"), ("x := 36rzz; x", "I1295"), ("7r", "I0"), ("0x", "I0"), ("64r", "I0"),
                      ("1r1", None), ("37rz", None), ("0r5", None), ("99999999999r1", None), ("0b102", None)]:
        cases.append(dict(group="int-edge", form="edge", src=txt, want=want, tok=None))
    return cases


def float_literal_cases(ctx):
    rng = ctx.rng
    texts = ["0.0", "1.", "1.5", "0.1", "3.14159", "1e10", "1E10", "1e-7", "1.5e-3", "2.5E3", "1.e5", "12f", "3.f", "4F", "0f", "1e400", "1e-400",
             "0.1000000000000000055511151231257827", "123456789012345678901234567890.5", "9007199254740993.0", "9007199254740993f",
             "179769313486231570000000000000000000000000000000000000000000000000000000000000000000000000000000000000000000000000000000000000000000"
             "000000000000000000000000000000000000000000000000000000000000000000000000000000000000000000000000000000000000000000000000000000000000"
             "00000000000000000000000000000000000000000000000.0", "4.9e-324", "2.2250738585072014e-308", "2.2250738585072011e-308",
             "0.000000000000000000000000000000000000000000000000000000000001", "1e23", "8.5e22", "5e-324", "2e-324", "3e-324", "1e0", "1e00007",
             "1.7976931348623157e308", "1.7976931348623159e308", "1e99999999999999999999", "1e-99999999999999999999", "00012.50",
             # explicitly positive exponents (what serde_json / Python print for large floats)
             "1e+21", "1E+21", "2.5E+3", "2.5e+3", "1.e+5", "0.0e+0", "1e+0", "1e+00007", "1.7976931348623157e+308", "1.7976931348623159e+308", "1e+400",
             "1e+99999999999999999999", "123456789e+300", "4.9e-324", "9007199254740993e+0", "5e+22", "1e+23"]
    for _ in range(ctx.n(60, 1500)):
        ip = str(rng.randrange(0, 10 ** rng.randrange(1, 25)))
        fp = "".join(rng.choice("0123456789") for _ in range(rng.randrange(0, 25)))
        t = ip + "." + fp if rng.random() < 0.7 else ip
        if rng.random() < 0.5:
            t += rng.choice("eE") + rng.choice(["", "-", "+"]) + str(rng.randrange(0, 330))
        elif "." not in t:
            t += "f"
        texts.append(t)
    cases = []
    for t in texts:
        pt = t.rstrip("fF")
        x = pyfloat(pt)
        cases.append(dict(group="float", form="float", src=t, want="F" + fbits(x), tok="Float:" + fbits(x)))
        if "e" not in t.lower() and not t.lower().endswith("f"):
            for suf in "ij" if rng.random() < 0.3 else "i":
                cases.append(dict(group="imag", form="imag", src=t + suf, want="C0000000000000000," + fbits(x), tok="Imag:" + fbits(x)))
    for t in ["1e", "1e-", "1.e", "1.5e-", "2E", "1e+", "1.5E+", "1e+-5", "1e-+5", "1e++5"]:     # empty exponent: Invalid token -> parse error, never a number
        # the token stream is exactly [Invalid] only when nothing follows the (signed) exponent marker
        cases.append(dict(group="float-bad", form="bad", src=t, want="parse", tok="Invalid" if t[-1] in "eE+-" and t[-2] not in "+-" else None))
    return cases


STYLES = ["raw", "simple", "x", "u{", "u(", "u[", "u<", "ubare"]
SIMPLE = {"\n": "n", "\r": "r", "\t": "t", "\0": "0", "\\": "\\", "'": "'", '"': '"'}


def render_char(rng, c, q, nxt_is_hexit):
    o = ord(c)
    ok = []
    if c != q and c != "\\":
        ok.append("raw")
    if c in SIMPLE:
        ok.append("simple")
    if o < 256:
        ok.append("x")
    ok += ["u{", "u(", "u[", "u<"]
    if not nxt_is_hexit:
        ok.append("ubare")
    st = rng.choice(ok)
    h = mixcase(rng, "%x" % o)
    if rng.random() < 0.3:
        h = "0" * rng.randrange(1, 4) + h
    if st == "raw":
        return c, st
    if st == "simple":
        return "\\" + SIMPLE[c], st
    if st == "x":
        return "\\x" + mixcase(rng, "%02x" % o), st
    if st == "ubare":
        return "\\u" + h, st
    cl = {"{": "}", "(": ")", "[": "]", "<": ">"}[st[1]]
    return "\\u" + st[1] + h + cl, st


def random_scalar(rng):
    r = rng.random()
    if r < 0.45:
        return chr(rng.randrange(32, 127))
    if r < 0.6:
        return rng.choice("\n\r\t\0\\'\"")
    if r < 0.7:
        return chr(rng.randrange(0, 32))
    if r < 0.8:
        return chr(rng.randrange(128, 256))
    while True:
        o = rng.choice([rng.randrange(256, 0x800), rng.randrange(0x800, 0x10000), rng.randrange(0x10000, 0x110000),
                        0xD7FF, 0xE000, 0xFFFF, 0x10000, 0x10FFFF])
        if is_scalar(o):
            return chr(o)


def string_literal_cases(ctx):
    rng = ctx.rng
    cases = []
    strings = ["", "a", "\0", "\\", "'\"", "\U0010ffff\ud7ff\ue000", "".join(chr(i) for i in range(0, 256)), "é🐉x", "\x7f\x80\xff"]
    strings += ["".join(random_scalar(rng) for _ in range(rng.randrange(0, 24))) for _ in range(ctx.n(150, 3000))]
    for s in strings:
        q = rng.choice("'\"")
        parts, used = [], set()
        for i, c in enumerate(s):
            nxt = s[i + 1] if i + 1 < len(s) else q
            # conservative: the next character's rendering may start with a hexit only if it is raw
            txt, st = render_char(rng, c, q, nxt_is_hexit=(nxt in "0123456789abcdefABCDEF"))
            parts.append(txt)
            used.add(st)
        body = "".join(parts)
        tokcps = ",".join(str(ord(c)) for c in s)
        cases.append(dict(group="str", form="+".join(sorted(used)) or "empty", src=q + body + q, want=canon_str(s), tok="Str:" + tokcps))
        # bytes literal of the same text: UTF-8 of the decoded string (known finding for \xHH >= 0x80)
        bs = ",".join(str(b) for b in s.encode("utf8"))
        known = bool(re.search(r"(?<!\\)(?:\\\\)*\\x[89a-fA-F]", body))
        cases.append(dict(group="bytes", form="bytes", src="B" + q + body + q, want=f"B[{bs}]", tok="Bytes:" + bs, bytes_x_high=known,
                          spelled=bytes_spelled(s, parts)))
        if "\\" not in s and q not in s:
            cases.append(dict(group="raw", form="raw", src="R" + q + s + q, want=canon_str(s), tok="Str:" + tokcps))
    # raw strings keep backslashes
    for s in ["a\\nb", "\\", "\\u{41}", "x\\'y"]:
        cases.append(dict(group="raw", form="raw", src='R"' + s + '"', want=canon_str(s), tok="Str:" + ",".join(str(ord(c)) for c in s)))
    # every escape form on its boundary digits: a scalar spelled -> that scalar; otherwise never a character
    for h, good in [("0", True), ("41", True), ("d7ff", True), ("d800", False), ("dfff", False), ("e000", True), ("10ffff", True), ("110000", False),
                    ("ffffffff", False), ("100000000", False), ("110000000", False), ("1" + "0" * 40, False), ("0" * 30 + "41", True), ("", True)]:
        for o, c in ("{}", "()", "[]", "<>"):
            src = '"\\u' + o + h + c + '"'
            want = canon_str(chr(int(h, 16) if h else 0)) if good else "parse"
            cases.append(dict(group="escape-edge", form="u" + o, src=src, want=want, tok=None))
        if h:
            src = '"\\u' + h + '"'
            want = canon_str(chr(int(h, 16))) if good else "parse"
            cases.append(dict(group="escape-edge", form="ubare", src=src, want=want, tok=None))
    for src in ['"\\xg0"', '"\\x0g"', '"\\x"', '"\\x1"', '"\\q"', '"\\', '"abc', "'\\u{41'", "'\\u{41)'", '"\\u(41}"', "'\\8'", "'\\N'", "'\\U0041'"]:
        cases.append(dict(group="escape-edge", form="bad", src=src, want="parse", tok=None))
    return cases


def bytes_spelled(s, parts):
    """the bytes the text spells when \\xHH in a bytes literal means the byte HH"""
    out = []
    for c, p in zip(s, parts):
        if p.startswith("\\x"):
            out.append(ord(c))
        else:
            out += list(c.encode("utf8"))
    return out


def run_literals(ctx, runner):
    cases = int_literal_cases(ctx) + float_literal_cases(ctx) + string_literal_cases(ctx)
    res = common.run_prog([c["src"] for c in cases], timeout=20.0)
    mres = common.run_model(runner, ["lex " + cps(c["src"]) for c in cases]) if runner else [None] * len(cases)
    seen = set()
    for c, r, m in zip(cases, res, mres):
        st = r.get("status")
        obs = r.get("val") if st == "ok" else st
        c["impl"] = obs
        c["model"] = norm_model_tokens(m) if m is not None else None
        key = (c["group"], c["form"].split("+")[0])
        rep = {"program": c["src"], "case": {k: c[k] for k in ("group", "form", "src", "want", "tok")},
               "implementation": obs, "implementation_msg": r.get("msg"), "intended_value": c["want"], "coq_model_tokens": c["model"]}
        if st in ("panic", "abort", "hang", "badjson"):
            if key not in seen:
                seen.add(key)
                rep["what"] = f"parse/evaluate of a literal {st}s"
                ctx.violation("property", rep, found=True)
            continue
        if c.get("bytes_x_high"):
            # structural matcher of the known finding bytes-x-escape-utf8: a bytes literal containing \xHH with HH >= 0x80.
            # Accepted observations: the UTF-8 reading (the finding, reported as KNOWN) or the bytes the text spells (repaired).
            spelled = "B[" + ",".join(map(str, c["spelled"])) + "]"
            if obs == c["want"] and obs != spelled and "bytes-x-escape-utf8" in ctx.known:
                ctx.known_hit("bytes-x-escape-utf8", c["src"])
                okv = True
            else:
                okv = obs == spelled
        elif c["want"] is not None:
            okv = (obs == c["want"]) or (c["want"] == "parse" and st == "parse")
        else:
            okv = True
        if not okv:
            if key not in seen:
                seen.add(key)
                rep["what"] = "the literal does not evaluate to the value its digits/escapes spell"
                ctx.violation("property", rep, found=True)
            continue
        if c["tok"] is not None and c["model"] is not None:
            if c["model"] != "ok " + c["tok"]:
                if ("m",) + key not in seen:
                    seen.add(("m",) + key)
                    rep["what"] = ("the Coq model's token for this literal differs from the intended value although the implementation agrees with "
                                   "it: correspondence Text/Lexer.v <-> implementation no longer checks")
                    ctx.violation("correspondence", rep, found=False)
    return cases


# ----------------------------------------------------------------------------- (b)/(c) strings
def corpus_programs():
    progs = []
    t = (common.REPO / "tests" / "test.rs").read_text()
    for m in re.finditer(r'"((?:[^"\\]|\\.)*)"', t, flags=re.S):
        s = m.group(1)
        s = re.sub(r"\\\n\s*", "", s)
        s = s.replace('\\"', '"').replace("\\n", "\n").replace("\\t", "\t").replace("\\\\", "\\")
        if len(s) >= 3:
            progs.append(s)
    for f in sorted((common.REPO / "examples").glob("*.noul")):
        txt = f.read_text()
        progs.append(txt)
        progs += [l for l in txt.splitlines() if len(l) > 3]
    return progs


FRAGS = ["if", "else", "while", "for", "yield", "into", "switch", "case", "null", "and", "or", "coalesce", "break", "try", "catch", "throw",
         "continue", "return", "consume", "pop", "remove", "swap", "every", "struct", "freeze", "import", "literally", "_", "x", "y1", "foo'", "a?",
         "B", "F", "R", "B[", "B'", 'B"', "F'", 'F"', "R'", 'R"', "X'", "É", "é'", "λ", "x²", "٣", "Ⅷ", "🐉frame", "🐉0", "🐉9", "🐉", "__internal_1",
         "(", ")", "[", "]", "{", "}", "`", "\\", "\\\\", ",", ";", ":", "::", " ", "\n", "\t", "\r", "\u00a0", "\u2003", "\u0085", "#", "#(", "# c\n", "#(a(b)c)",
         "'", '"', "'a'", '"b"', "'\\n'", "'\\x41'", "'\\u{41}'", "'\\u41'", "'\\", "\\u{110000000}", "\\x", "\\u(", "∧", "∨", "?", "!", "!=", "==", "<=", ">=", "=",
         "+=", "-=", "//=", "...", "<-", "->", "<<-", "<<=", "+", "-", "*", "/", "%", "^", "~", "|", "&", "$", "@", ".", "..", "×", "∈", "∉", "∘", "≠", "≤", "≥", "⊕", "⧺",
         "!?", "+?", "0", "1", "007", "12345678901234567890123", "0x", "0xFf", "0b101", "0o17", "0B", "2r101", "36rZz", "37r1", "1r0", "0r", "64rAb+/-_", "64R",
         "1.", "1.5", "1.5e3", "1e", "1e-", "1E-5", "1.e", "1e+21", "2.5E+3", "1e+", "1.e+", "1e+x", "2i", "2.5j", "3q", "4f", "5.f", "6.5F", "1..2", "1.x", "1.f", "9e", "0xg", "1_000", "½", "€", "\x00", "\x7f", "\ufeff", "\U000e0001"]


def gen_strings(ctx, progs):
    rng = ctx.rng
    out = []

    def add(kind, s):
        out.append((kind, s))

    for p in progs:
        add("corpus", p)
    for _ in range(ctx.n(700, 12000)):
        k = rng.randrange(1, 14)
        sep = rng.choice(["", "", " ", " "])
        s = sep.join(rng.choice(FRAGS) for _ in range(k))
        add("soup", sprinkle_unicode(rng, s) if rng.random() < 0.25 else s)
    alphabet = "()[]{}\\'\"#;:,.=+-*<>!?`_ \n\tabcxyzBFRefijqr0123456789×∧∨🐉é"
    for _ in range(ctx.n(400, 8000)):
        p = rng.choice(progs)
        if len(p) > 300:
            a = rng.randrange(0, len(p) - 200)
            p = p[a:a + rng.randrange(20, 200)]
        cs = list(p)
        for _ in range(rng.randrange(1, 4)):
            op = rng.randrange(5)
            i = rng.randrange(0, len(cs) + 1)
            if op == 0 and cs:
                del cs[min(i, len(cs) - 1)]
            elif op == 1:
                cs.insert(i, rng.choice(alphabet))
            elif op == 2 and cs:
                cs[min(i, len(cs) - 1)] = rng.choice(alphabet)
            elif op == 3:
                cs = cs[:i]
            else:
                j = rng.randrange(0, len(cs) + 1)
                cs[i:i] = cs[min(i, j):max(i, j)][:40]
        s = "".join(cs)
        add("mutant", sprinkle_unicode(rng, s) if rng.random() < 0.25 else s)
    # token-level edits and truncations of real programs (the parser indexes its token vector by hand:
    # every prefix ending at a token boundary probes an end-of-input path)
    tokre = re.compile(r"\s+|[A-Za-z_][A-Za-z0-9_']*|\d+(?:\.\d+)?|'[^']*'|\"[^\"]*\"|.", re.S)
    short = [p for p in progs if len(p) <= 400]
    for p in (short if not ctx.quick() else rng.sample(short, min(len(short), 150))):
        toks = tokre.findall(p)
        cuts = range(1, len(toks)) if not ctx.quick() else rng.sample(range(1, max(2, len(toks))), min(3, max(1, len(toks) - 1)))
        for k in cuts:
            add("prefix", "".join(toks[:k]))
        if len(toks) > 2:
            add("suffix", "".join(toks[rng.randrange(1, len(toks)):]))
    for _ in range(ctx.n(400, 8000)):
        toks = tokre.findall(rng.choice(short))
        for _ in range(rng.randrange(1, 3)):
            if not toks:
                break
            i = rng.randrange(len(toks))
            op = rng.randrange(5)
            if op == 0:
                del toks[i]
            elif op == 1:
                toks.insert(i, toks[i])
            elif op == 2:
                j = rng.randrange(len(toks))
                toks[i], toks[j] = toks[j], toks[i]
            elif op == 3:
                toks[i] = rng.choice(FRAGS)
            else:
                toks.insert(i, rng.choice(FRAGS))
        s = "".join(toks)
        add("token-mutant", sprinkle_unicode(rng, s) if rng.random() < 0.25 else s)
    # non-ASCII numerics / letters / marks glued to ASCII digit runs, radix digits, exponents, identifiers:
    # char::is_digit(10) and to_digit are ASCII-only, is_numeric / is_alphanumeric are not - the boundary must hold
    for s in unicode_digit_texts(rng, ctx.n(300, 4000)):
        add("digit-unicode", s)
    # every expression form in every pattern / lvalue position (to_lvalue and friends)
    pats = ["x", "_", "1", "-1", "1.5", "2q", "'s'", "B'b'", "F'{x}'", "null", "a[1]", "a[1:2]", "a[:]", "a.b", "a::b", "f(x)", "f()", "(a, b)", "(a,)", "()", "[a, b]",
            "[a, ...b]", "...a", "...", "a, b", "a, ...b, c", "a: int", "a: int, b", "(a: int)", "a: (b: c)", "1 + x", "x + 1", "a b", "a `f` b", "x!", "x ! 1", "!x", "{a: b}", "{}", "{a}",
            "B[1]", "[]", "\\z -> z", "if (a) b else c", "a = b", "a := b", "(a = b)", "a and b", "a or b", "a coalesce b", "literally 3", "literally x", "every a", "a{b = c}", "x'", "a?",
            "a, ", ", a", "a;", "a[", "(a", "a)", "int", "a: ", ": a", "a.1", "1.a", "a[1][2]", "a[b][c:d].e", "__internal_peek 0", "🐉0", "consume x", "pop x", "remove x[0]"]
    ctxs = ["{} = 1", "{} := 1", "{} += 1", "{} max= 1", "{} .= f", "every {} = 1", "swap {}, y", "swap y, {}", "pop {}", "remove {}", "consume {}", "for ({} <- y) 1",
            "for ({} <<- y) 1", "for ({} := y) 1", "for (a <- y; {} <- z) yield 1", "switch (1) case {} -> 1", "switch (1) case {} -> 1 case _ -> 2", "\\{} -> 1", "\\{}, {} -> 1", "\\({}) -> 1",
            "try 1 catch {} -> 2", "struct S({})", "struct S(a, {} = 1)", "{} = {} = 1", "({}) = 1", "[{}] := [1]", "{}, {} = 1, 2", "x[{}] = 1", "x[{}:{}] = 1", "f({}) = 1", "import {}",
            "freeze {} := 1", "literally {} = 1", "{}: int = 1", "x: {} = 1", "{}", "({})", "[{}]", "{{{}}}", "F'{{{}}}'", "{} ...", "... {}", "break {}", "return {}", "throw {}", "yield {}"]
    combos = [(c, pp) for c in ctxs for pp in pats]
    for c, pp in (combos if not ctx.quick() else rng.sample(combos, 600)):
        add("lvalue", c.replace("{{", "\0").replace("}}", "\1").replace("{}", pp).replace("\0", "{").replace("\1", "}"))
    for _ in range(ctx.n(150, 2000)):
        n = rng.randrange(1, 40)
        add("random", "".join(rng.choice(alphabet) for _ in range(n)))
    for _ in range(ctx.n(100, 1500)):
        n = rng.randrange(1, 12)
        add("unicode", "".join(chr(rng.choice([rng.randrange(0, 0x300), rng.randrange(0x300, 0x3000), rng.randrange(0x3000, 0xD800),
                                               rng.randrange(0xE000, 0x110000)])) for _ in range(n)))
    # unbalanced delimiters, runaway comments and strings, long runs
    for d in (1, 2, 7, DEPTH_GEN):
        for o, c in ("()", "[]", "{}"):
            add("unbalanced", o * d)
            add("unbalanced", c * d)
            add("unbalanced", o * d + "1" + c * (d - 1))
            add("unbalanced", o * (d - 1) + "1" + c * d)
            add("unbalanced", (o + c) * d + c)
        add("nest", "".join(rng.choice(["(", "[", "{", "f(", "a[", "\\x -> ", "if (1) ", "B["]) for _ in range(d)) + "1")
    for s in ["#(", "#((", "#(()", "#(a)b)", "#" + "(" * 50, "#(" + "()" * 40, "# no newline", "#", "#\n#\n#(\n)", "x #( " + "a" * 500,
              "'", '"', "'abc", '"\\', "'\\x", "'\\x4", "'\\u", "'\\u{", "'\\u{4", "'\\u{41", "F'", 'F"{', "B'", 'R"', "R", "F", "B", "F ", "R(", "F\n'x'",
              "'" + "a" * 700, '"' + "\\n" * 300, "1" * 600, "9" * 600 + "r1", "0x" + "f" * 500, "0b" + "1" * 900, "64r" + "+/" * 300, "36r" + "z" * 400,
              "1." + "0" * 600, "1e" + "9" * 300, "0." + "0" * 400 + "1", "a" * 900, "+" * 500, "=" * 301, "<" * 300 + "=", "." * 299, "!" * 100 + "=",
              "\\" * 201, ":" * 201, "x" + "'" * 300, "é" * 300, "🐉" * 50, " " * 500, "\n" * 500, "1" + " + 1" * 300, "[" + "1," * 300 + "]", "a;" * 300,
              "f " * 200 + "1", "x = " * 50 + "1", "a, " * 100 + "b = 1", "1" + " and 1" * 200, "a" + ".b" * 200, "! " * 200 + "1"]:
        add("stress", s)
    return out


UNUM = (["\u0660", "\u0663", "\u0669", "\u0966", "\u096f", "\u06f5", "\u09e7", "\u0e53", "\uff10", "\uff19", "\U0001d7ce", "\U0001d7ff", "\U0001e950",   # Nd of other scripts
         "\u00b2", "\u00b3", "\u00b9", "\u00bd", "\u00bc", "\u00be", "\u2070", "\u2079", "\u2080", "\u2460", "\u2473", "\u2150", "\u3289", "\U00010107",  # No
         "\u2167", "\u2160", "\u217f", "\u3007", "\u3021", "\u16ee", "\U00010140",                                                           # Nl
         "\u00e9", "\u03bb", "\u4e09", "\u05d0", "\u00aa", "\u02b0", "\U0001d7cd",                                                          # letters
         "\u0301", "\u20e3", "\u0963", "\ufe0f", "\u200d", "\u00ad"])                                                                       # marks / format chars
UTEMPL = ["{d}{u}", "{d}{u}{d}", "{u}{d}", "{d}{u}{u}", "{d}{u}q", "{d}{u}Q", "{d}{u}i", "{d}{u}f", "{d}{u}e5", "{d}{u}.5", "{d}{u}r1", "{d}{u}x", "{d} {u}", "{d}{u} + 1", "({d}{u})",
          "[{d}{u}, 2]", "x := {d}{u}", "16rF{u}", "16r{u}F", "36rz{u}", "10r{d}{u}", "2r1{u}0", "64rA{u}", "64r{u}", "0x{u}", "0xf{u}", "0b1{u}", "0o7{u}", "0X{u}1",
          "{d}e{u}", "{d}e-{u}", "{d}e+{u}", "{d}e5{u}", "{d}E+5{u}", "{d}.{u}", "{d}.5{u}", "{d}.5e{u}", "{d}.5e5{u}", "{d}.{u}5", "{d}.5{u}i", "{d}f{u}", "{d}q{u}", "{d}i{u}",
          "x{u}", "x{d}{u}", "x{u}{d}", "{u}x", "_{u}", "x'{u}", "B{u}", "F{u}'a'", "R{u}", "B[{d}{u}]", "F'{{{d}{u}}}'", "F'{{x #{d}{u}}}'", "'{d}{u}'", "\"\\x4{u}\"", "'\\u{{4{u}}}'",
          "'\\u4{u}'", "#{d}{u}", "#({d}{u})", "a[{d}{u}]", "a[{d}{u}:{u}]", "f({d}{u})", "{d}{u}!", "\\x{u} -> {d}{u}", "__internal_{u}", "\U0001f409{u}", "\U0001f409{d}{u}"]


def unicode_digit_texts(rng, n_random):
    out = []
    for u in UNUM:                       # deterministic part: every character in the bare positions
        for tpl in UTEMPL[:12]:
            out.append(tpl.format(d="7", u=u))
    for tpl in UTEMPL:                   # every template with a digit of another script, a No and a letter
        for u in ("\u0663", "\u00b2", "\u00bd", "\u2167", "\u2460", "\u03bb", "\u0301"):
            out.append(tpl.format(d="12", u=u))
    for _ in range(n_random):
        d = str(rng.randrange(0, 10 ** rng.randrange(1, 6)))
        u = "".join(rng.choice(UNUM) for _ in range(rng.choice([1, 1, 1, 2, 3])))
        out.append(rng.choice(UTEMPL).format(d=d, u=u))
    return out


def sprinkle_unicode(rng, s):
    """after an ASCII digit run of s, insert a non-ASCII numeric / letter / mark"""
    runs = [m.end() for m in re.finditer(r"[0-9]+", s)]
    if not runs:
        return s
    i = rng.choice(runs)
    return s[:i] + rng.choice(UNUM) + s[i:]


def nest_measure(s):
    """structural measure for the known finding: maximal bracket depth (a closer never takes the running count
    below zero) plus the number of keyword / lambda tokens that make the parser recurse"""
    depth = mx = 0
    for ch in s:
        if ch in "([{":
            depth += 1
            mx = max(mx, depth)
        elif ch in ")]}":
            depth = max(0, depth - 1)
    kw = len(re.findall(r"\\|\b(?:if|else|for|while|switch|case|try|catch|literally|return|throw|freeze|import|break|continue|yield|into|"
                        r"consume|pop|remove|every|struct|swap)\b", s))
    return mx + kw


def run_tokens_and_totality(ctx, runner, strings):
    B = common.harness_bin("c15")
    srcs = [s for _, s in strings]
    # (b) token streams; the model is quadratic in the length of a digit run, keep those moderate
    lex_res = common.run_harness(B, [{"mode": "lex", "src": s} for s in srcs], timeout=20.0)
    mres = common.run_model(runner, ["lex " + cps(s) for s in srcs]) if runner else [None] * len(srcs)
    n_cmp = 0
    kinds_seen = {}
    reported = set()
    for (kind, s), r, m in zip(strings, lex_res, mres):
        st = r.get("status")
        if st != "ok":
            if ("lex", kind) not in reported:
                reported.add(("lex", kind))
                ctx.violation("property", {"what": f"noulith::lex {st}s on this input", "input": s, "input_codepoints": [ord(c) for c in s],
                                           "generator": kind, "implementation": r}, found=True)
            continue
        if m is None:
            continue
        n_cmp += 1
        mm = norm_model_tokens(m)
        impl = ("ok " + r["toks"]) if r["toks"] else "ok"
        for t in r["toks"].split():
            k = t.split(":")[0]
            kinds_seen[k] = kinds_seen.get(k, 0) + 1
        if mm != impl and ("tok", kind) not in reported:
            reported.add(("tok", kind))
            a, b = impl.split(), mm.split()
            i = next((j for j in range(min(len(a), len(b))) if a[j] != b[j]), min(len(a), len(b)))
            ctx.violation("correspondence", {
                "what": "token stream of noulith::lex differs from the Coq model Text/Lexer.v on this input (no input violating the property "
                        "statement itself was derived from it)", "input": s, "input_codepoints": [ord(c) for c in s], "generator": kind,
                "first_difference_at_token": i, "implementation_tokens": impl[:2000], "coq_model_tokens": mm[:2000]}, found=False)
    # (c) totality of parse
    extra = totality_extra(ctx)
    allsrc = strings + extra
    # generous limit: a hang verdict must not be produced by machine load (the longest inputs parse in well under a second)
    pres = common.run_harness(B, [{"mode": "parse", "src": s, "stack_mb": 8} for _, s in allsrc], timeout=60.0)
    outcomes = {}
    for (kind, s), r in zip(allsrc, pres):
        st = r.get("status")
        outcomes[st] = outcomes.get(st, 0) + 1
        if st in ("ok", "empty", "parse"):
            continue
        if st == "abort" and is_known_depth(ctx, s):
            ctx.known_hit("parser-native-stack-depth", s[:60])
            continue
        if ("parse", kind, st) not in reported:
            reported.add(("parse", kind, st))
            ctx.violation("property", {"what": f"noulith::parse {st}s on this finite input (must return a tree or a parse error)",
                                       "input": s if len(s) < 5000 else s[:2000] + "...", "input_codepoints": [ord(c) for c in s] if len(s) < 5000 else None,
                                       "input_len": len(s), "generator": kind, "nest_measure": nest_measure(s), "implementation": r}, found=True)
    return dict(token_compared=n_cmp, token_kinds_seen=kinds_seen, parse_outcomes=outcomes, totality_cases=len(allsrc))


def is_known_depth(ctx, s):
    """parser-native-stack-depth: nesting measure above DEPTH_KNOWN AND the same input parses without panic/abort when the
    parsing thread is given a 2 GiB stack (so the only failure is native stack exhaustion)"""
    if "parser-native-stack-depth" not in ctx.known or nest_measure(s) <= DEPTH_KNOWN:
        return False
    r = common.run_harness(common.harness_bin("c15"), [{"mode": "parse", "src": s, "stack_mb": 2048}], timeout=120.0, workers=1)[0]
    return r.get("status") in ("ok", "empty", "parse")


def totality_extra(ctx):
    rng = ctx.rng
    out = []
    shapes = ["(", "[", "{", "f(", "a[", "\\x -> ", "if (1) ", "for (x <- y) ", "while (1) ", "switch (1) case 1 -> ", "try ", "literally ",
              "return ", "throw ", "freeze ", "import ", "\\(", "B[", "F'{", "!", "- ", "x = ", "x := ", "...", "[...", "a: ", "1 + ", "f ", "a.b ", "1, "]
    for sh in shapes:
        for d in (1, 2, DEPTH_GEN // 2, DEPTH_GEN):
            out.append(("shape", sh * d + "1"))
            out.append(("shape", sh * d))
    for _ in range(ctx.n(60, 800)):
        d = rng.randrange(1, DEPTH_GEN)
        out.append(("shape-mix", "".join(rng.choice(shapes[:18]) for _ in range(d)) + rng.choice(["1", "", ")", "x]"])))
    # long flat inputs
    for n in (ctx.n(2000, 20000),):
        out += [("long", "1" + " + 1" * n), ("long", "[" + "1," * n + "]"), ("long", "x;" * n), ("long", "f " * n + "1"), ("long", "9" * (5 * n)),
                ("long", "'" + "a" * (5 * n) + "'"), ("long", "#(" + "(" * n + ")" * n + ")"), ("long", "a" + ".b" * n), ("long", "! " * n + "1"),
                ("long", "1" + " and 1" * n), ("long", "1" + " `f` 1" * n), ("long", "{" + "1:2," * n + "}"), ("long", "a, " * n + "b = 1")]
    # the known finding itself, every run: far beyond any stack
    out.append(("deep", "(" * 20000 + "1" + ")" * 20000))
    out.append(("deep", "[" * 20000))
    return out


# ----------------------------------------------------------------------------- (d) format strings
FMT_EXPRS = ["x", "1+1", "a[0]", "f(1, 2)", "{1: 2}[1]", "{1, 2}", "x #x", "x #X", "x #b", "x #o", "x #d#x", "x #10", "x #<7", "x #^012", "x #>3x", "x #007",
             "x #5 #6", "x#(>4)", "x #(0x)", "'}'", "'{'", '"#"', "x # 99999999999999999999999999", "x #18446744073709551615", "x #18446744073709551616",
             " ", "", "#x", "#(a)", "1 2", "(", "x #\ny", "\\y -> {y}", "1 #é٣", "x #1a2b3", "F'{y}'", "x #-5", "x #e", "x #0<9^"]


def gen_fmt(ctx):
    rng = ctx.rng
    bodies = ["", "a", "{{", "}}", "{{}}", "{", "}", "{}", "{x}", "{x}}", "{{x}", "a{x}b{y}c", "{ {1} }", "{{1}[0]}", "}{", "{x}{", "{x #}", "{'}'}", "{'{'}", "é{x}🐉", "{x #x}{y #>5}"]
    for _ in range(ctx.n(400, 6000)):
        parts = []
        for _ in range(rng.randrange(1, 6)):
            r = rng.random()
            if r < 0.3:
                parts.append(rng.choice(["a", "b c", "{{", "}}", " ", "é", "#", "'", "\\", "\n"]))
            elif r < 0.85:
                parts.append("{" + rng.choice(FMT_EXPRS) + "}")
            else:
                parts.append(rng.choice(["{", "}", "{{{", "}}}", "{x", "x}", "{}"]))
        bodies.append("".join(parts))
    return bodies


def fmt_source(body):
    # inside double quotes: only backslash and the quote need escaping (theorem C15_escape_exact, styles raw/simple)
    return 'F"' + body.replace("\\", "\\\\").replace('"', '\\"') + '"'


def run_fmt(ctx, runner):
    bodies = gen_fmt(ctx)
    res = common.run_harness(common.harness_bin("c15"), [{"mode": "fmt", "src": fmt_source(b)} for b in bodies], timeout=20.0)
    mres = common.run_model(runner, ["fmt " + cps(b) for b in bodies]) if runner else [None] * len(bodies)
    stats = {"ok": 0, "err": 0, "model_ok_impl_exprerr": 0}
    reported = False
    for b, r, m in zip(bodies, res, mres):
        st = r.get("status")
        if st not in ("ok", "parse"):
            ctx.violation("property", {"what": f"parsing a format string {st}s", "program": fmt_source(b), "implementation": r}, found=True)
            continue
        if m is None:
            continue
        if m.startswith("err"):
            stats["err"] += 1
            agree = st == "parse"
        else:
            # model (parse_expr := accept) says segments; the implementation may still reject an expression
            msegs = " ".join(x.split("|")[0] for x in m[2:].split())
            if st == "parse":
                stats["model_ok_impl_exprerr"] += 1
                agree = "failed to parse expr" in r.get("msg", "") or "couldn't finish parsing" in r.get("msg", "") or True
            else:
                stats["ok"] += 1
                agree = r["segs"] == msegs
        if not agree and not reported:
            reported = True
            ctx.violation("correspondence", {"what": "format-string segments/flags of the implementation differ from the Coq model Text/FormatScan.v",
                                             "program": fmt_source(b), "body": b, "implementation": r, "coq_model": m}, found=False)
    return len(bodies), stats


# ----------------------------------------------------------------------------- run / replay
def run(ctx):
    import time
    t0 = time.time()
    runner = common.standard_prelude(ctx)
    common.log(f"[C15] prelude (proof stage + harness build + model build, including waiting for shared locks) {time.time() - t0:.0f}s")
    t1 = time.time()
    cls = ensure_classes()
    if cls is None:
        ctx.violation("harness", {"what": "bin/c15 did not answer the classes request"}, found=False)
        return common.conclude(ctx)
    if not cls["whitespace_matches_model"]:
        ctx.violation("correspondence", {"what": "char::is_whitespace of the implementation differs from the White_Space list in Text/Chars.v",
                                         "implementation_ranges": cls["tables"].get("whitespace")}, found=False)
    lit = run_literals(ctx, runner)
    progs = corpus_programs()
    strings = gen_strings(ctx, progs)
    tt = run_tokens_and_totality(ctx, runner, strings)
    nfmt, fstats = run_fmt(ctx, runner)
    common.log(f"[C15] correspondence {time.time() - t1:.0f}s")
    ctx.extra["correspondence_wall_s"] = round(time.time() - t1, 1)
    by_group = {}
    for c in lit:
        by_group[c["group"]] = by_group.get(c["group"], 0) + 1
    by_kind = {}
    for k, _ in strings:
        by_kind[k] = by_kind.get(k, 0) + 1
    distinct = len({c["src"] for c in lit}) + len({s for k, s in strings if k != "corpus"}) + nfmt
    ctx.coverage.update({
        "evaluations": len(lit) + 2 * len(strings) + (tt["totality_cases"] - len(strings)) + nfmt,
        "distinct_nontrivial": distinct,
        "rule": "distinct source texts; non-trivial = a literal in a non-default syntax or with a boundary/huge/random value, a string using at least one "
                "escape form, or a generated/mutated/stress string (verbatim corpus programs are not counted)",
        "literal_cases_by_group": by_group, "strings_by_generator": by_kind, "corpus_programs": len(progs),
        "token_streams_compared_with_model": tt["token_compared"], "token_kinds_seen_in_implementation": tt["token_kinds_seen"],
        "parse_totality_cases": tt["totality_cases"], "parse_outcomes": tt["parse_outcomes"],
        "format_bodies": nfmt, "format_stats": fstats, "unicode_class_ranges": cls["ranges"],
        "samples": [{"program": c["src"][:120], "implementation": str(c["impl"])[:120], "intended": c["want"] and c["want"][:120], "coq_model": (c["model"] or "")[:120]}
                    for c in lit[::max(1, len(lit) // 10)]][:10] +
                   [{"input": s[:120], "generator": k} for k, s in strings[len(progs)::max(1, (len(strings) - len(progs)) // 6)]][:6],
    })
    ctx.assumptions += ["inputs shorter than 2^31 characters (i32 depth counters) for the no-panic theorems; termination needs no bound",
                        "Unicode tables for code points >= 128 are a parameter of the theorems",
                        "Rust str::parse::<f64> is correctly rounded (checked against Python float on every float case)",
                        "parser totality is searched on generated inputs with nesting measure <= %d, not proved" % DEPTH_GEN]
    return common.conclude(ctx)


def replay(ctx, rep):
    runner = common.standard_prelude(ctx)
    ensure_classes()
    src = rep.get("program") or rep.get("input") or ""
    B = common.harness_bin("c15")
    r_lex = common.run_harness(B, [{"mode": "lex", "src": src}], timeout=20.0, workers=1)[0]
    r_parse = common.run_harness(B, [{"mode": "parse", "src": src, "stack_mb": 8}], timeout=20.0, workers=1)[0]
    r_prog = common.run_prog([src], timeout=20.0)[0]
    m = norm_model_tokens(common.run_model(runner, ["lex " + cps(src)])[0]) if runner else None
    impl = ("ok " + r_lex.get("toks", "")).strip() if r_lex.get("status") == "ok" else r_lex.get("status")
    print(json.dumps({"program": src[:500], "lex": impl[:500], "coq_model": (m or "")[:500], "parse": r_parse.get("status"),
                      "evaluate": r_prog.get("val", r_prog.get("status")), "intended": rep.get("intended_value")}))
    bad = r_parse.get("status") in ("panic", "abort", "hang") or r_lex.get("status") != "ok" or (m is not None and m != impl)
    want = rep.get("intended_value")
    if want and want != "parse" and r_prog.get("val") != want:
        bad = True
    if want == "parse" and r_prog.get("status") == "ok":
        bad = True
    return 1 if bad else 0
