"""C07 - rationals are exact, the numeric tower coerces upward only as needed, vectorisation is element-wise.

Correspondence: a pool of numbers over the four levels (int, rational, float, complex) is combined in
all pairs with every arithmetic operator, every unary rounding/part function and conversion, and in
scalar/vector shapes; each case is run through the implementation (bin/prog), through the extracted Coq
model (Num/Tower.v, floats instantiated with OCaml doubles) and through an independent Python oracle
(ints, fractions.Fraction, IEEE doubles) written from the property statement, not from the model.
"""
import json, math, struct
from fractions import Fraction
import common

ID = "C07"
MANIFEST = dict(
    technique="Coq proof (level dispatch, exact Q arithmetic, rounding, vectorisation; unbounded) + all-pairs correspondence model/implementation/Python Fraction oracle",
    text="Machine-checked theorems (Coq 8.16, no axioms) about a Gallina transcription of NNum's binary_match! level dispatch, `/`, div_floor/mod_floor, "
         "pow_num with integer exponents, the rounding family, numerator/denominator, int()/rational()/float() and the expect_nums_and_vectorize_* wrappers: "
         "on ints and rationals every operator returns the exact Q result in lowest terms at the stated level (`/` always rational, zero divisor -> float fallback), "
         "the floor-mod identity and range hold on rationals, the result level of + - * % // %% is the maximum of the operand levels and the operation commutes "
         "with upward coercion, rounding equals its Q definition (also on decoded float bit patterns), vectorisation is pointwise with broadcast and rejects "
         "unequal lengths. Float and complex arithmetic are abstract parameters the theorems quantify over. The model is tied to /repo on every run by an "
         "all-pairs sweep of a ~75-number pool x 8 operators plus unary/conversion/vector-shape cases through implementation, model and a Fraction/IEEE oracle.",
    note="Trusted: Coq kernel; hand-written model Num/Tower.v (tie to code is the correspondence run, i.e. differential testing); extraction + OCaml runner "
         "(floats = OCaml doubles, complex = num-complex formulas, exact->float conversions supplied by the driver's correctly rounded Python division); Rust harness; "
         "Python oracle. num-bigint/num-rational/num-complex are modelled by their mathematical meaning (Z, reduced Q, formulas over doubles). Float-level `^` "
         "(powf/powi, complex pow) is delegated: only checked not to crash. `%` with an exact zero divisor raises (F9, fixed by C06); were that fix reverted, C07 only counts the panics.",
    design="6-C07")

INF = math.inf
NAN = math.nan


# ----------------------------------------------------------------------------- numbers
# a number is (kind, value): ('I', int) | ('R', Fraction) | ('F', float) | ('C', (float, float))
def f2b(f):
    return struct.unpack(">Q", struct.pack(">d", f))[0]


def b2f(b):
    return struct.unpack(">d", struct.pack(">Q", b))[0]


def fhex(f):
    return "nan" if f != f else f"{f2b(f):016x}"


def canon(x):
    k, v = x
    if k == "I":
        return f"I{v}"
    if k == "R":
        return f"R{v.numerator}/{v.denominator}"
    if k == "F":
        return "F" + fhex(v)
    return "C" + fhex(v[0]) + "," + fhex(v[1])


def hexf(s):
    return NAN if s == "nan" else b2f(int(s, 16))


def parse_canon(s):
    """canonical scalar -> number.  `J<n>` is the integer n held in BIG representation (NInt::Big, rendered
    as `n // 1`); `I<n>` is a machine word whenever n fits i64.  Value-wise they are the same number."""
    k, body = s[0], s[1:]
    if k in "IJ":
        return ("I", int(body))
    if k == "R":
        n, d = body.split("/")
        return ("R", Fraction(int(n), int(d)))
    if k == "F":
        return ("F", hexf(body))
    if k == "C":
        a, b = body.split(",")
        return ("C", (hexf(a), hexf(b)))
    raise ValueError(s)


def split_vec(s):
    """'V[I1,C..,..,R1/2]' -> list of canonical scalars (a complex spans two comma fields)"""
    inner = s[2:-1]
    if not inner:
        return []
    parts, out, i = inner.split(","), [], 0
    while i < len(parts):
        if parts[i].startswith("C"):
            out.append(parts[i] + "," + parts[i + 1])
            i += 2
        else:
            out.append(parts[i])
            i += 1
    return out


LEVEL = {"I": 0, "R": 1, "F": 2, "C": 3}


def i2f(n):
    try:
        return float(n)
    except OverflowError:
        return INF if n > 0 else -INF


def q2f(q):
    try:
        return q.numerator / q.denominator          # CPython: correctly rounded
    except OverflowError:
        return INF if q > 0 else -INF


def to_f(x):
    k, v = x
    return i2f(v) if k == "I" else q2f(v) if k == "R" else v


def to_c(x):
    return x[1] if x[0] == "C" else (to_f(x), 0.0)


def to_q(x):
    return Fraction(x[1])


# IEEE double operations Python traps on
def fdiv(a, b):
    try:
        return a / b
    except ZeroDivisionError:
        if a != a or a == 0:
            return NAN
        return math.copysign(INF, a) * math.copysign(1.0, b)


def frem(a, b):
    try:
        return math.fmod(a, b)
    except ValueError:
        return NAN


def ftrunc(a):
    return a if (a != a or a in (INF, -INF)) else math.copysign(float(math.trunc(a)), a)


def ffloor(a):
    return a if (a != a or a in (INF, -INF)) else math.copysign(float(math.floor(a)), a)


def fdiv_euclid(a, b):
    q = ftrunc(fdiv(a, b))
    if frem(a, b) < 0.0:
        return q - 1.0 if b > 0.0 else q + 1.0
    return q


def frem_euclid(a, b):
    r = frem(a, b)
    return r + abs(b) if r < 0.0 else r


def cadd(x, y): return (x[0] + y[0], x[1] + y[1])
def csub(x, y): return (x[0] - y[0], x[1] - y[1])
def cmul(x, y): return (x[0] * y[0] - x[1] * y[1], x[0] * y[1] + x[1] * y[0])


def cdiv(x, y):
    ns = y[0] * y[0] + y[1] * y[1]
    return (fdiv(x[0] * y[0] + x[1] * y[1], ns), fdiv(x[1] * y[0] - x[0] * y[1], ns))


def crem(x, m):
    re, im = cdiv(x, m)
    g = (re - frem(re, 1.0), im - frem(im, 1.0))
    return csub(x, cmul(m, g))


def cdiv_floor(x, y):
    re, im = cdiv(x, y)
    return (ffloor(re), ffloor(im))


def nonzero(x):
    k, v = x
    if k == "C":
        return v[0] != 0.0 or v[1] != 0.0       # NaN != 0.0 is True, as in Rust
    return v != 0


def qtrunc(q):
    return math.trunc(q)


def qround(q):
    """half away from zero"""
    r = math.floor(abs(q) + Fraction(1, 2))
    return r if q >= 0 else -r


# ----------------------------------------------------------------------------- rendering to Noulith / to the model runner
def lit(n):
    if n == -2 ** 63:
        return "((0-9223372036854775807)-1)"      # stays a machine word (0-2^63 would be a BigInt subtraction)
    return str(n) if n >= 0 else f"(0-{-n})"


# ways of holding a small integer in big representation; run() picks the first one that does so on this tree
# (which operators normalise their result is an implementation detail, not part of the property)
BIG_FORMS = ["({} // 1)", "(2^64 - 2^64 + {})", "({} << 0)", "({} * 2^64 // 2^64)"]
BIG_FORM = [BIG_FORMS[0]]


def choose_big_form(ctx):
    res = common.run_prog([f"is_big({f.format('1')})" for f in BIG_FORMS])
    ok_forms = [f for f, r in zip(BIG_FORMS, res) if r.get("status") == "ok" and r.get("val") == "I1"]
    BIG_FORM[0] = ok_forms[0] if ok_forms else BIG_FORMS[0]
    ctx.coverage["big_representation_form"] = BIG_FORM[0] if ok_forms else "none of " + ", ".join(BIG_FORMS) + " is held big on this tree: J tokens repeat the machine-word cases"


def render_scalar(s):
    if s[0] == "J":
        return BIG_FORM[0].format(lit(int(s[1:])))
    return render_num(parse_canon(s))


def render_num(x):
    k, v = x
    if k == "I":
        return lit(v)
    if k == "R":
        n, d = v.numerator, v.denominator
        if d == 1:
            n, d = 2 * n, 2           # an integral-valued rational: 4/2 stays at level rational
        return f"({lit(n)}/{d})"
    if k == "F":
        return f"bits_to_float({f2b(v)})"
    re, im = v
    # re + im * 1i = (re + (im*0.0 - 0.0*1.0), 0.0 + im): exact for a finite im; negative zeros are not constructible this way
    assert f2b(re) != f2b(-0.0) and f2b(im) != f2b(-0.0) and im == im and abs(im) != INF, x
    return f"(bits_to_float({f2b(re)}) + bits_to_float({f2b(im)}) * 1i)"


def render_arg(a):
    if isinstance(a, list):
        return "V(" + ", ".join(render_scalar(e) for e in a) + ")"
    if a.startswith("X:"):
        return a[2:]
    return render_scalar(a)


def model_num(x):
    k, v = x
    if k == "I":
        return f"I{v}:{f2b(i2f(v)):016x}"
    if k == "R":
        return f"R{v.numerator}/{v.denominator}:{f2b(q2f(v)):016x}"
    if k == "F":
        return f"F{f2b(v):016x}"
    return f"C{f2b(v[0]):016x},{f2b(v[1]):016x}"


def model_arg(a):
    if isinstance(a, list):
        return "V[" + ";".join(model_num(parse_canon(e)) for e in a) + "]"
    if a.startswith("X:"):
        return "X"
    return model_num(parse_canon(a))


BINOPS = {"add": "+", "sub": "-", "mul": "*", "rem": "%", "divfloor": "//", "modfloor": "%%", "div": "/", "pow": "^"}
UNOPS = {"neg": "-", "abs": "abs", "floor": "floor", "ceil": "ceil", "round": "round",
         "numerator": "numerator", "denominator": "denominator"}
CONVS = ["int", "rational", "float"]
VARIANT = "fix"     # the model follows the repaired code (fix: commits for F6, F10, F16)


def render_case(c):
    k, op, a = c["kind"], c["op"], c["args"]
    if k == "b":
        return f"{render_arg(a[0])} {BINOPS[op]} {render_arg(a[1])}"
    if k == "u":
        return f"{UNOPS[op]}({render_arg(a[0])})"
    return f"{op}({render_arg(a[0])})"


def model_case(c):
    k, op, a = c["kind"], c["op"], c["args"]
    if k == "b":
        return f"b {VARIANT} {op} {model_arg(a[0])} {model_arg(a[1])}"
    if k == "u":
        return f"u {op} {model_arg(a[0])}"
    return f"c {VARIANT} {op} {model_arg(a[0])}"


# ----------------------------------------------------------------------------- the oracle (from the property statement)
# An expectation is a dict: accept = list of acceptable outcome strings, or the markers below;
# strength = "property" (the property statement fixes the answer) | "code" (the statement is silent; the
# oracle follows the code, a disagreement is a correspondence problem, not a failing input).
ANYNUM = "<any number, no crash>"
NOCRASH = "<an error or any number, no crash>"


def exp(vals, strength="property"):
    return {"accept": vals if isinstance(vals, list) else [vals], "strength": strength}


def ok(x):
    return "ok " + canon(x)


def at_level(L, op_i, op_q, op_f, op_c, a, b):
    if L == 0:
        return ("I", op_i(a[1], b[1]))
    if L == 1:
        return ("R", Fraction(op_q(to_q(a), to_q(b))))
    if L == 2:
        return ("F", op_f(to_f(a), to_f(b)))
    return ("C", op_c(to_c(a), to_c(b)))


def oracle_bin(op, a, b):
    L = max(LEVEL[a[0]], LEVEL[b[0]])
    exact = L <= 1
    if op == "add":
        return exp(ok(at_level(L, lambda x, y: x + y, lambda x, y: x + y, lambda x, y: x + y, cadd, a, b)))
    if op == "sub":
        return exp(ok(at_level(L, lambda x, y: x - y, lambda x, y: x - y, lambda x, y: x - y, csub, a, b)))
    if op == "mul":
        return exp(ok(at_level(L, lambda x, y: x * y, lambda x, y: x * y, lambda x, y: x * y, cmul, a, b)))
    if op == "rem":
        if not nonzero(b):
            if exact:      # F9 (owned by C06): today a panic, to become a raised error
                return exp("err")
            # the statement: the result "equals the operation carried out at that level on the converted operands";
            # at the float/complex level a zero divisor gives NaN, whatever the level the zero itself came from
            r = at_level(L, None, None, frem, crem, a, b)
            return exp(ok(r))
        tr = lambda x, y: x - y * qtrunc(Fraction(x) / Fraction(y))
        return exp(ok(at_level(L, tr, tr, frem, crem, a, b)))
    if op in ("divfloor", "modfloor"):
        if not nonzero(b):
            return exp("err")
        if op == "divfloor":
            return exp(ok(at_level(L, lambda x, y: x // y, lambda x, y: math.floor(x / y), fdiv_euclid, cdiv_floor, a, b)))
        fm = lambda x, y: x - y * math.floor(Fraction(x) / Fraction(y))
        return exp(ok(at_level(L, fm, fm, frem_euclid, crem, a, b)))
    if op == "div":
        if exact:
            if b[1] != 0:
                return exp(ok(("R", to_q(a) / to_q(b))))
            return exp(ok(("F", fdiv(to_f(a), to_f(b)))))     # zero divisor: float infinity / NaN
        if L == 2:
            return exp(ok(("F", fdiv(to_f(a), to_f(b)))), "code")
        if a[0] == "C" and b[0] == "C":
            return exp(ok(("C", cdiv(a[1], b[1]))), "code")
        if a[0] == "C":
            f = to_f(b)
            return exp(ok(("C", (fdiv(a[1][0], f), fdiv(a[1][1], f)))), "code")
        f, (c, d) = to_f(a), b[1]
        ns = c * c + d * d
        return exp(ok(("C", (fdiv(f * c, ns), 0.0 - fdiv(f * d, ns)))), "code")
    if op == "pow":
        if LEVEL[a[0]] <= 1 and b[0] == "I":
            e = b[1]
            if e >= 0:
                return exp(ok((a[0], a[1] ** e if a[0] == "I" else Fraction(a[1]) ** e)))
            if a[1] != 0:
                return exp(ok(("R", Fraction(a[1]) ** e)))
            return exp(NOCRASH)       # 0 ^ negative: the statement does not fix a value; it must not crash (F10)
        return exp(ANYNUM, "code")
    raise ValueError(op)


def oracle_un(op, a):
    k, v = a
    if op == "neg":
        if k == "I":
            return exp(ok(("I", -v)))
        if k == "R":
            return exp(ok(("R", -v)))
        if k == "F":
            return exp(ok(("F", b2f(f2b(v) ^ (1 << 63)))))
        return exp(ok(("C", (b2f(f2b(v[0]) ^ (1 << 63)), b2f(f2b(v[1]) ^ (1 << 63))))))
    if op == "abs":
        if k in "IR":
            return exp(ok((k, abs(v))))
        if k == "F":
            return exp(ok(("F", abs(v))))
        return exp(ok(("F", math.hypot(v[0], v[1]))), "code")
    if op in ("floor", "ceil", "round", "trunc"):
        fn = {"floor": math.floor, "ceil": math.ceil, "round": qround, "trunc": qtrunc}[op]
        if k == "I":
            return exp(ok(a))
        if k == "R":
            return exp(ok(("I", fn(v))))
        if k == "F":
            if v != v or abs(v) == INF:
                return exp(ok(a), "code")       # no exact integer exists; the code hands the float back
            return exp(ok(("I", fn(Fraction(v)))))
        return exp("err")
    if op == "numerator":
        return exp(ok(("I", v if k == "I" else v.numerator))) if k in "IR" else exp("err")
    if op == "denominator":
        return exp(ok(("I", 1 if k == "I" else v.denominator))) if k in "IR" else exp("err")
    raise ValueError(op)


def oracle_conv(op, a):
    k, v = a
    if op == "int":
        if k == "C" or (k == "F" and (v != v or abs(v) == INF)):
            return exp("err")          # no integer equals inf/NaN: int() must not hand back a float (F16)
        return exp(ok(("I", qtrunc(Fraction(v)))))
    if op == "rational":
        if k == "C" or (k == "F" and (v != v or abs(v) == INF)):
            return exp("err")
        return exp(ok(("R", Fraction(v))))
    if op == "float":
        return exp("err") if k == "C" else exp(ok(("F", to_f(a))))
    raise ValueError(op)


def oracle(c):
    """expectation for a whole (possibly vectorised) case"""
    k, op, args = c["kind"], c["op"], c["args"]
    if any(isinstance(a, str) and a.startswith("X:") for a in args):
        return exp("err")
    if k == "c":
        if isinstance(args[0], list):
            return exp("err")          # call_type1 does not vectorise
        return oracle_conv(op, parse_canon(args[0]))
    if k == "u":
        if isinstance(args[0], list):
            return combine([oracle_un(op, parse_canon(e)) for e in args[0]])
        return oracle_un(op, parse_canon(args[0]))
    a, b = args
    if isinstance(a, list) and isinstance(b, list):
        if len(a) != len(b):
            return exp("err")
        return combine([oracle_bin(op, parse_canon(x), parse_canon(y)) for x, y in zip(a, b)])
    if isinstance(a, list):
        y = parse_canon(b)
        return combine([oracle_bin(op, parse_canon(x), y) for x in a])
    if isinstance(b, list):
        x = parse_canon(a)
        return combine([oracle_bin(op, x, parse_canon(y)) for y in b])
    return oracle_bin(op, parse_canon(a), parse_canon(b))


def combine(es):
    """pointwise expectations -> expectation for the vector result"""
    return {"vector": es, "strength": "property" if all(e["strength"] == "property" for e in es) else "code",
            "accept": None}


def accepts(e, obs):
    """does the observed outcome string satisfy expectation e?  returns (bool, rem_zero_pending)"""
    if obs in ("panic", "hang", "abort", "parse", "badjson", "sig", "empty"):
        return False
    if e.get("vector") is not None:
        es = e["vector"]
        if obs == "err":
            # an error is right iff some element may raise (collect stops at the first Err)
            return any("err" in x["accept"] or NOCRASH in x["accept"] for x in es)
        if not obs.startswith("ok V["):
            return False
        els = split_vec(obs[3:])
        if len(els) != len(es):
            return False
        return all(accepts(x, "ok " + el) for x, el in zip(es, els))
    acc = e["accept"]
    if ANYNUM in acc:
        return obs.startswith("ok ") and obs[3] in "IRFC"
    if NOCRASH in acc:
        return obs == "err" or (obs.startswith("ok ") and obs[3] in "IRFC")
    return obs in acc


CRASH = ("panic", "hang", "abort", "parse", "badjson", "sig", "empty")


def verdict(e, obs):
    """'ok' | 'property' (an answer the property statement fixes is wrong, or a crash) | 'code' (only an
    answer on which the statement is silent differs from what the code is known to compute)"""
    if obs in CRASH:
        return "property"
    if e.get("vector") is not None:
        es = e["vector"]
        if obs == "err":
            if any("err" in x["accept"] or NOCRASH in x["accept"] for x in es):
                return "ok"
            return "property" if all(x["strength"] == "property" for x in es) else "code"
        if not obs.startswith("ok V["):
            return "property"
        els = split_vec(obs[3:])
        if len(els) != len(es):
            return "property"
        vs = [verdict(x, "ok " + el) for x, el in zip(es, els)]
        return "property" if "property" in vs else "code" if "code" in vs else "ok"
    return "ok" if accepts(e, obs) else e["strength"]


def definite(e):
    """the single outcome the oracle demands, if it demands exactly one (for reports)"""
    if e.get("vector") is not None:
        ds = [definite(x) for x in e["vector"]]
        if any(d is None for d in ds):
            return None
        if any(d == "err" for d in ds):
            return "err"
        return "ok V[" + ",".join(d[3:] for d in ds) + "]"
    acc = e["accept"]
    return acc[0] if len(acc) == 1 and acc[0] not in (ANYNUM, NOCRASH) else None


def rem_zero_kind(c):
    """'exact' / 'float' when the case is `%` and some divisor element is zero (F9 territory), else None"""
    if c["kind"] != "b" or c["op"] != "rem":
        return None
    a, b = c["args"]
    if any(isinstance(x, str) and x.startswith("X:") for x in (a, b)):
        return None
    if isinstance(a, list) and isinstance(b, list):
        if len(a) != len(b):
            return None
        pairs = list(zip(a, b))
    elif isinstance(a, list):
        pairs = [(x, b) for x in a]
    elif isinstance(b, list):
        pairs = [(a, y) for y in b]
    else:
        pairs = [(a, b)]
    kinds = set()
    for x, y in pairs:
        px, py = parse_canon(x), parse_canon(y)
        if not nonzero(py):
            kinds.add("exact" if max(LEVEL[px[0]], LEVEL[py[0]]) <= 1 else "float")
    return "exact" if "exact" in kinds else "float" if kinds else None


# ----------------------------------------------------------------------------- pool and case generation
def pool(ctx):
    I = lambda n: ("I", n)
    R = lambda n, d: ("R", Fraction(n, d))
    F = lambda f: ("F", f)
    C = lambda a, b: ("C", (a, b))
    ints = [0, 1, -1, 2, -2, 3, 7, -7, 10, 2 ** 31, -2 ** 31, 2 ** 32, -2 ** 32, 3037000500, -3037000500, 2 ** 53 - 1, 2 ** 53,
            2 ** 53 + 1, -(2 ** 53 + 1), 2 ** 62, -2 ** 62, 2 ** 63 - 1, -2 ** 63 + 1, 2 ** 63, -2 ** 63, 2 ** 64, 10 ** 30, -10 ** 30,
            3 ** 200, 10 ** 400, -10 ** 400]
    bigrep = [-2 ** 63, -1, 0, 1, 2]      # the same values again, held in big representation
    rats = [(0, 1), (4, 2), (-3, 1), (1, 2), (-1, 2), (1, 3), (-1, 3), (2, 3), (7, 2), (-7, 2), (5, 2), (-5, 2), (22, 7),
            (-22, 7), (1, 10 ** 30), (2 ** 64 + 1, 3), (-10 ** 30, 7), (1, 10 ** 400), (10 ** 400, 3), (2 ** 53 + 1, 2),
            (2 ** 60, 1), (-1, 10 ** 400)]
    flts = [0.0, -0.0, 1.0, -1.0, 0.5, -0.5, 1.5, 2.5, -2.5, 0.1, 3.0, -7.0, 1e300, -1e300, 5e-324, 2.0 ** 53, 2.0 ** 53 + 2,
            1e16, 2.0 ** 63, INF, -INF, NAN]
    cpxs = [(0.0, 0.0), (1.0, 0.0), (2.5, 0.0), (0.0, 1.0), (2.5, -1.5), (-3.0, 4.0), (INF, 1.0), (NAN, 1.0), (1e300, 1e300)]
    p = [I(n) for n in ints] + [R(n, d) for n, d in rats] + [F(f) for f in flts] + [C(a, b) for a, b in cpxs]
    if not ctx.quick():
        rng = ctx.rng
        for _ in range(12):
            p.append(I(rng.getrandbits(rng.choice([70, 200, 1100])) * rng.choice([1, -1])))
        for _ in range(16):
            p.append(R(rng.getrandbits(rng.choice([8, 70, 300])) * rng.choice([1, -1]), rng.getrandbits(rng.choice([8, 64, 300])) + 1))
        for _ in range(16):
            f = b2f(rng.getrandbits(64))
            if f == f and f2b(f) != f2b(-0.0):
                p.append(F(f))
        for _ in range(6):
            a, b = b2f(rng.getrandbits(64)), b2f(rng.getrandbits(62))
            if a == a and b == b and abs(b) != INF and f2b(a) != f2b(-0.0):
                p.append(C(a, b))
    seen, out = set(), []
    for x in p:
        s = canon(x)
        if s not in seen:
            seen.add(s)
            out.append(s)
    k = len(ints)
    return out[:k] + [f"J{n}" for n in bigrep] + out[k:]


EXPONENTS = [0, 1, 2, 3, 5, -1, -2, -3, 10, -10, 64, -64]


def bitlen(s):
    x = parse_canon(s)
    if x[0] == "I":
        return abs(x[1]).bit_length()
    if x[0] == "R":
        return max(abs(x[1].numerator).bit_length(), x[1].denominator.bit_length())
    return 0


def gen_cases(ctx):
    P = pool(ctx)
    cases = []
    for op in BINOPS:
        for a in P:
            for b in P:
                if op == "pow":
                    # exponents: a small signed set for exact bases (keeps a^b small), plus every pool pair
                    # whose exponent is not a big integer (F23: huge exponents do not return)
                    xb = parse_canon(b)
                    if xb[0] == "I" and (abs(xb[1]) > 64 or bitlen(a) * max(1, abs(xb[1])) > 6000):
                        continue
                cases.append(dict(kind="b", op=op, args=[a, b]))
    for a in P:
        for e in EXPONENTS:
            if bitlen(a) * max(1, abs(e)) <= 6000:
                cases.append(dict(kind="b", op="pow", args=[a, f"I{e}"]))
    for op in UNOPS:
        for a in P:
            cases.append(dict(kind="u", op=op, args=[a]))
    for op in CONVS:
        for a in P:
            cases.append(dict(kind="c", op=op, args=[a]))
    # vector shapes: scalar/vector x lengths 0..3, elements drawn from the pool
    rng = ctx.rng
    small = [s for s in P if bitlen(s) <= 80]
    fills = ctx.n(4, 20)
    others = ['X:"a"', "X:[1, 2]", "X:null"]
    for op in BINOPS:
        for n in range(4):
            for m in range(4):
                for _ in range(fills if (n and m) else 1):
                    va = [rng.choice(small) for _ in range(n)]
                    vb = [rng.choice(small) for _ in range(m)]
                    if op == "pow":
                        vb = [f"I{rng.choice(EXPONENTS[:10])}" for _ in range(m)]
                    cases.append(dict(kind="b", op=op, args=[va, vb]))
            for _ in range(fills):
                s = rng.choice(small)
                e = f"I{rng.choice(EXPONENTS[:10])}"
                va = [rng.choice(small) for _ in range(n)]
                cases.append(dict(kind="b", op=op, args=[va, e if op == "pow" else s]))
                vb = [rng.choice(small) for _ in range(n)] if op != "pow" else [f"I{rng.choice(EXPONENTS[:10])}" for _ in range(n)]
                cases.append(dict(kind="b", op=op, args=[s, vb]))
        for o in others:
            cases.append(dict(kind="b", op=op, args=[o, "I1"]))
            cases.append(dict(kind="b", op=op, args=["I1", o]))
            cases.append(dict(kind="b", op=op, args=[["I1", "I2"], o]))
            cases.append(dict(kind="b", op=op, args=[o, ["I1", "I2"]]))
    # the i64 boundary as machine words and in big representation, inside vectors and against broadcast scalars
    B = [f"I{-2 ** 63}", f"I{-2 ** 63 + 1}", f"I{2 ** 63 - 1}", f"I{2 ** 62}", f"I{-2 ** 62}", "I3037000500", "I-3037000500",
         f"I{2 ** 32}", f"I{-2 ** 31}", "I-1", "I0", "I1", "I2", f"J{-2 ** 63}", "J-1", "J2"]
    partners = ["I-1", "I0", "I1", "I2", "J-1", f"I{-2 ** 63}", f"I{2 ** 63 - 1}", "I3037000500"]
    for op in BINOPS:
        for p_ in partners:
            if op == "pow" and abs(int(p_[1:])) > 64:
                continue
            cases.append(dict(kind="b", op=op, args=[B, p_]))
            cases.append(dict(kind="b", op=op, args=[B, [p_] * len(B)]))
            if op != "pow":
                cases.append(dict(kind="b", op=op, args=[p_, B]))
    for op in UNOPS:
        cases.append(dict(kind="u", op=op, args=[B]))
    for op in UNOPS:
        for n in range(4):
            for _ in range(fills):
                cases.append(dict(kind="u", op=op, args=[[rng.choice(small) for _ in range(n)]]))
        for o in others:
            cases.append(dict(kind="u", op=op, args=[o]))
    for op in CONVS:
        for n in range(3):
            cases.append(dict(kind="c", op=op, args=[[rng.choice(small) for _ in range(n)]]))
    return P, cases


# ----------------------------------------------------------------------------- evaluation
def observed(r):
    st = r.get("status")
    if st == "ok":
        return "ok " + r["val"]
    return st          # err / panic / hang / abort / parse ...


def is_delegated(c):
    """float-level `^`: the model answers `deleg`"""
    if c["kind"] != "b" or c["op"] != "pow":
        return False
    a, b = c["args"]
    if any(isinstance(x, str) and x.startswith("X:") for x in (a, b)):
        return False
    fl = lambda x: x if isinstance(x, list) else [x]
    return not (all(s[0] in "IJR" for s in fl(a)) and all(s[0] in "IJ" for s in fl(b)))


def evaluate(ctx, cases, runner, rem_pending):
    for c in cases:
        c["src"] = render_case(c)
        c["model"] = model_case(c)
    res = common.run_prog([c["src"] for c in cases], timeout=20.0)
    mres = common.run_model(runner, [c["model"] for c in cases]) if runner else [None] * len(cases)
    bad = []
    stats = {"rem_zero_exact_pending_fix_by_C06": 0, "rem_zero_exact_raised": 0, "rem_zero_float": 0, "delegated_pow": 0,
             "model_compared": 0}
    for c, r, m in zip(cases, res, mres):
        obs = observed(r)
        c["impl"], c["impl_msg"] = obs, (r.get("msg") or "")[:200]
        e = oracle(c)
        c["oracle"] = definite(e) or (json.dumps(e["accept"]) if e.get("accept") else "pointwise")
        c["model_says"] = m
        rz = rem_zero_kind(c)
        if rz is not None:
            # F9 (C06, fixed by 2a751e6): `%` by zero.  exact: a raised error; float: the IEEE answer (or an error).
            # Should that fix be absent (`5 % 0` panics), the exact-zero panics are C06's to report: counted, not raised.
            if obs == "panic" and rz == "exact" and rem_pending:
                stats["rem_zero_exact_pending_fix_by_C06"] += 1
                continue
            stats["rem_zero_exact_raised" if rz == "exact" else "rem_zero_float"] += 1
        v = verdict(e, obs)
        if v == "property":
            bad.append(("property", c, r))
            continue
        if is_delegated(c):
            stats["delegated_pow"] += 1
            if m is not None and m != "deleg":
                bad.append(("correspondence", c, r))
            continue
        if v == "code":
            bad.append(("correspondence", c, r))
            continue
        if m is not None:
            stats["model_compared"] += 1
            if m != obs:
                bad.append(("correspondence", c, r))
    return bad, stats


def case_class(c):
    def lv(a):
        if isinstance(a, list):
            return "V" + str(len(a))
        return "X" if a.startswith("X:") else a[0]
    return (c["kind"], c["op"], tuple(lv(a) for a in c["args"]))


def report(ctx, bad):
    seen = {}
    for kind, c, r in bad:
        key = (kind, c["kind"], c["op"], tuple((a[0] if isinstance(a, str) else "V") for a in c["args"]), c["impl"].split(" ")[0])
        seen[key] = seen.get(key, 0) + 1
        if seen[key] > 1 or len(seen) > 12:
            continue
        replay = {"case": {k: c[k] for k in ("kind", "op", "args")}, "program": c["src"], "implementation": c["impl"],
                  "implementation_msg": c["impl_msg"], "python_oracle": c["oracle"], "coq_model": c["model_says"], "model_input": c["model"]}
        if kind == "property":
            replay["what"] = ("the implementation's answer differs from exact arithmetic / the level rule / element-wise vectorisation "
                              "(independent Python oracle: ints, fractions.Fraction, IEEE doubles), or it crashed")
            ctx.violation("property", replay, found=True)
        else:
            replay["what"] = ("correspondence Num/Tower.v <-> implementation no longer checks on this input; the Python oracle accepts "
                              "the implementation's answer (or is silent here), so no input violating the property statement was found")
            ctx.violation("correspondence", replay, found=False)
    return seen


def nontrivial(c):
    """trivial = a scalar + - * of two integers below 2^31"""
    if c["kind"] == "b" and c["op"] in ("add", "sub", "mul"):
        a, b = c["args"]
        if all(isinstance(x, str) and x[0] == "I" and abs(int(x[1:])) < 2 ** 31 for x in (a, b)):
            return False
    return True


def check_pool(ctx, P):
    """each pool element's Noulith rendering must evaluate to exactly the intended value, and every integer
    must be held in the intended representation (machine word when it fits i64, big for the J tokens)"""
    res = common.run_prog([render_scalar(s) for s in P])
    badp = []
    for s, r in zip(P, res):
        want = "ok " + (("I" + s[1:]) if s[0] == "J" else s)
        if observed(r) != want:
            badp.append((s, observed(r)))
    ints = [s for s in P if s[0] in "IJ"]
    rep = common.run_prog([f"is_big({render_scalar(s)})" for s in ints])
    # how an integer is held is not an observable of the property: a token that is not in the intended
    # representation only lowers coverage, and is recorded as such
    offrep = []
    for s, r in zip(ints, rep):
        big = s[0] == "J" or not (-2 ** 63 <= int(s[1:]) < 2 ** 63)
        if r.get("status") == "ok" and r.get("val") != ("I1" if big else "I0"):     # is_big absent: representation unchecked
            offrep.append(s)
    ctx.coverage["pool_tokens_not_in_intended_representation"] = offrep[:20]
    if badp:
        ctx.violation("correspondence", {"what": "pool rendering: a number's source form does not evaluate to the intended value "
                                                 "(the generator or bits_to_float / literal / `/` / `// 1` changed meaning)", "pool_mismatches": badp[:10]}, found=False)
    return not badp


def rem_fix_pending():
    """F9 is C06's: while `5 % 0` still panics, exact zero-divisor `%` panics are counted, not raised"""
    r = common.run_prog(["5 % 0"])[0]
    return r.get("status") == "panic"


def run(ctx):
    runner = common.standard_prelude(ctx)
    choose_big_form(ctx)
    P, cases = gen_cases(ctx)
    check_pool(ctx, P)
    pending = rem_fix_pending()
    bad, stats = evaluate(ctx, cases, runner, pending)
    classes = report(ctx, bad)
    nt = {(c["kind"], c["op"], json.dumps(c["args"])) for c in cases if nontrivial(c)}
    lv = {}
    for c in cases:
        k = "/".join(case_class(c)[2])
        lv[k] = lv.get(k, 0) + 1
    step = max(1, len(cases) // 14)
    ctx.coverage.update({
        "evaluations": len(cases), "distinct_nontrivial": len(nt),
        "rule": "pool of %d numbers over int/rational/float/complex (0, +-1, 2^53+-1, 2^63, 2^64, 10^30, 3^200, 10^400; integral-valued rationals 0/1 4/2 -3/1, "
                "negative fractions, 1/10^400, 10^400/3; +-0.0, subnormal, 2^53, 1e300, +-inf, NaN; complex with zero imaginary part, inf/NaN parts); all ordered pairs x "
                "{+ - * %% // %%%% / ^} (big-integer exponents > 64 skipped: F23), every number x exponents %s, every number x {unary -, abs, floor, ceil, round, numerator, "
                "denominator, int, rational, float}; vector shapes scalar/vector x lengths 0..3 with random pool elements, non-number arguments. "
                "non-trivial = anything but a scalar + - * of two integers below 2^31; distinct by (operator, operands)" % (len(P), EXPONENTS),
        "samples": [{"program": c["src"], "implementation": c["impl"], "coq_model": c["model_says"], "oracle": c["oracle"]} for c in cases[::step]][:14],
        "pool_size": len(P),
        "by_op": {op: sum(1 for c in cases if c["op"] == op) for op in sorted({c["op"] for c in cases})},
        "by_operand_shape": dict(sorted(lv.items(), key=lambda kv: -kv[1])[:40]),
        "impl_outcomes": {o: sum(1 for c in cases if c["impl"].split(" ")[0] == o) for o in ("ok", "err", "panic", "hang", "abort")},
        "result_levels": {k: sum(1 for c in cases if c["impl"].startswith("ok " + k)) for k in "IRFCV"},
        "rem_by_zero_F9_fix_pending": pending,
        "disagreement_classes": {str(k): v for k, v in classes.items()},
    })
    ctx.coverage.update(stats)
    ctx.assumptions += [
        "float and complex arithmetic, and the exact->f64 conversions, are abstract parameters of the model (record float_ops); the theorems hold for every instantiation",
        "num-bigint / num-rational / num-complex are modelled by their mathematical meaning (Z, reduced Q with positive denominator, the crate's formulas over doubles)",
        "`%` with an exact zero divisor must raise (C06's fix 2a751e6 for F9; if that fix is absent the panic is C06's to report and is only counted here); a float zero divisor gives the IEEE answer",
        "float-level `^` is delegated (only required not to crash)",
    ]
    return common.conclude(ctx)


def replay(ctx, rep):
    runner = common.standard_prelude(ctx)
    choose_big_form(ctx)
    c = dict(rep["case"])
    bad, _ = evaluate(ctx, [c], runner, rem_fix_pending())
    report(ctx, bad)
    print(json.dumps({"program": c["src"], "implementation": c.get("impl"), "oracle": c.get("oracle"), "model": c.get("model_says")}))
    return 1 if bad else 0
