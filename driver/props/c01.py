"""C01 - collections have value semantics: mutation never leaks through an alias.

Correspondence: random (and, in the thorough tier, exhaustive short) histories of mutation
statements over heavily aliased nested values are rendered to Noulith and run statement by
statement in one Env of the implementation (bin/prog); after every statement every variable is
dumped canonically.  The same history is run through the value-semantics SPEC extracted from
Coq (Rc/ValueSem.v -> ocaml/c01.ml).  The spec is the oracle: pure trees, no sharing.  A
difference (a variable's value, or raised/not-raised) is a failing input for C01; the history
is shrunk (delta debugging over the statement list) before it is reported.
"""
import json, os, subprocess, sys
from pathlib import Path
import common

ID = "C01"
MANIFEST = dict(
    technique="Coq proof (Rc copy-on-write heap machine refines the value-semantics spec, for every statement list of the proved "
              "fragment) + history correspondence implementation vs extracted spec after every statement",
    text="Machine-checked theorems (Coq 8.16, no axioms) about a Gallina model of the Rc ownership discipline of eval.rs/core.rs/lib.rs "
         "(heap of cells with explicit strong counts; clone, recursive drop, make_mut, in-place write; set_index, modify_existing_index, "
         "op-assign with drop_lhs, consuming builtins, update expressions, calls that mutate their parameter): the count/handle invariant "
         "is preserved and the machine refines the pure-tree value semantics Rc/ValueSem.v after every prefix of every statement list "
         "(values of all variables and raised/not-raised), for arbitrary nesting, arbitrary non-slice index paths and all payload kinds, "
         "with the corollaries alias_unaffected, call_leaves_argument, closure_sees_variable_not_value. The spec is tied to /repo on "
         "every run by random and exhaustive-short histories over aliased lists, dicts (with/without default), strings, vectors, bytes "
         "and struct instances, compared after every statement; the machine is tied to /repo by C02's Rc-graph comparison.",
    note="Theorems cover the fragment `frag` (slot assignment, `every` assignment through slices, op-assign with append/++/+/|./-./||/|.. also with a default `(x[p][k] = d) f= e`, "
         "pop/remove/consume, swap, for-loops, update expressions, mutating calls, getter closures), i.e. every form of the statement "
         "language except non-`every` slice assignment (todo!() in the interpreter, F11) and the form `every x[p] f= e` "
         "(modify_every), which is NOT covered by the theorems, only by the correspondence and C02's graph comparison; the and-pattern "
         "op-assign `(x and y) f= e` is covered. Trusted: Coq kernel; hand-written machine "
         "Rc/Cow.v and spec Rc/ValueSem.v (tie to the code is differential testing on generated histories + C02's graph isomorphism); "
         "extraction + OCaml runner; Rust harness; Python generator/renderer. Builtins other than the consuming ones are outside the model.",
    design="6-C01")

NSTRUCT = {0: 2, 1: 3}          # struct id -> number of fields
BOPS = {"append": "append", "concat": "++", "plus": "+", "addkey": "|.", "delkey": "-.", "union": "||", "update": "|.."}


# ----------------------------------------------------------------------------- s-expressions for the spec runner
def sx_val(v):
    t = v[0]
    if t == "N":
        return "N"
    if t == "I":
        return f"(I {v[1]})"
    if t == "L":
        return "(L " + " ".join(sx_val(x) for x in v[1]) + ")"
    if t in ("S", "V", "B"):
        return f"({t} " + " ".join(str(z) for z in v[1]) + ")"
    if t == "D":
        d = "_" if v[1] is None else sx_val(v[1])
        return "(D " + d + " " + " ".join(f"({sx_key(k)} {sx_val(x)})" for k, x in v[2]) + ")"
    if t == "X":
        return f"(X {v[1]} " + " ".join(sx_val(x) for x in v[2]) + ")"
    raise ValueError(v)


def sx_key(k):
    return f"(i {k[1]})" if k[0] == "i" else "(s " + " ".join(map(str, k[1])) + ")"


def sx_pe(pe):
    t = pe[0]
    if t == "i":
        return f"(i {pe[1]})"
    if t == "s":
        return "(s " + " ".join(map(str, pe[1])) + ")"
    if t == "f":
        return f"(f {pe[1]} {pe[2]})"
    if t == "sl":
        return "(sl " + ("_" if pe[1] is None else str(pe[1])) + " " + ("_" if pe[2] is None else str(pe[2])) + ")"
    raise ValueError(pe)


def sx_path(p):
    return "(p " + " ".join(sx_pe(x) for x in p) + ")" if p else "(p)"


def sx_lop(m):
    t = m[0]
    if t in ("lset", "levery"):
        return f"({t} {sx_path(m[1])} {sx_val(m[2])})"
    if t == "lop":
        return f"(lop {sx_path(m[1])} {m[2]} {sx_val(m[3])})"
    if t in ("lpop", "lconsume"):
        return f"({t} {sx_path(m[1])})"
    if t == "lremove":
        return f"(lremove {sx_path(m[1])} {sx_pe(m[2])})"
    raise ValueError(m)


def sx_expr(e):
    t = e[0]
    if t == "lit":
        return f"(lit {sx_val(e[1])})"
    if t == "read":
        return f"(read {e[1]} {sx_path(e[2])})"
    if t == "get":
        return f"(get {e[1]})"
    if t == "list":
        return "(list " + " ".join(sx_expr(x) for x in e[1]) + ")"
    if t == "upd":
        return f"(upd {sx_expr(e[1])} {sx_pe(e[2])} {sx_expr(e[3])})"
    if t == "call":
        return f"(call {sx_lop(e[1])} {sx_expr(e[2])})"
    raise ValueError(e)


def sx_stmt(s):
    t = s[0]
    if t in ("assign", "every"):
        return f"({t} {s[1]} {sx_path(s[2])} {sx_expr(s[3])})"
    if t == "op":
        return f"(op {s[1]} {sx_path(s[2])} {s[3]} {sx_expr(s[4])})"
    if t == "mod":
        d = "_" if s[1] is None else f"({s[1][0]} {sx_path(s[1][1])})"
        return f"(mod {d} {s[2]} {sx_lop(s[3])})"
    if t == "swap":
        return f"(swap {s[1]} {sx_path(s[2])} {s[3]} {sx_path(s[4])})"
    if t == "opmod":
        return f"(opmod {s[1]} {sx_path(s[2])} {s[3]} {1 if s[4] else 0} {s[5]} {sx_lop(s[6])})"
    if t == "opdef":
        return f"(opdef {s[1]} {sx_path(s[2])} {sx_val(s[3])} {s[4]} {sx_expr(s[5])})"
    if t == "refuse":
        # a statement the language refuses (a declaration whose target is an index expression ..): in the spec AND in the Rc
        # machine it is the canonical no-op - a failing one (`it = it[f]` with f a field of a struct type that does not exist:
        # the read fails on every value, the clone taken for it is released, nothing is written; NOT a failing *write* through
        # such a field: set_index calls make_mut before it looks at the index, which copies a shared cell of `it` in the machine
        # although the refused statement never touches `it`) or, for the forms that complete without matching, `it = it`
        if s[1] in REFUSE_OK:
            return "(assign 0 (p) (read 0 (p)))"
        return "(assign 0 (p) (read 0 (p (f 99 0))))"
    if t == "everyop":
        return f"(everyop {s[1]} {sx_path(s[2])} {s[3]} {sx_expr(s[4])})"
    if t == "andop":
        return "(andop (" + " ".join(f"({x} {sx_path(q)})" for x, q in s[1]) + f") {s[2]} {sx_expr(s[3])})"
    if t == "for":
        return f"(for {s[1]} {sx_path(s[2])} " + " ".join(sx_stmt(x) for x in s[3]) + ")"
    raise ValueError(s)


def sx_hist(nvars, stmts):
    return f"(hist {nvars} " + " ".join(sx_stmt(s) for s in stmts) + ")"


# ----------------------------------------------------------------------------- rendering to Noulith
def nm(x):
    return "it" if x == 0 else f"v{x}"


def r_int(z):
    return str(z) if z >= 0 else f"(0-{-z})"


def r_str(bs):
    out = []
    for b in bs:
        c = chr(b)
        out.append("\\" + c if c in '"\\' else c)
    return '"' + "".join(out) + '"'


def r_val(v):
    t = v[0]
    if t == "N":
        return "null"
    if t == "I":
        return r_int(v[1])
    if t == "L":
        return "[" + ", ".join(r_val(x) for x in v[1]) + "]"
    if t == "S":
        return r_str(v[1])
    if t == "V":
        return "V(" + ", ".join(r_int(z) for z in v[1]) + ")"
    if t == "B":
        return "B[" + ", ".join(r_int(z) for z in v[1]) + "]"
    if t == "D":
        parts = ([":" + r_val(v[1])] if v[1] is not None else []) + [f"{r_key(k)}: {r_val(x)}" for k, x in v[2]]
        return "{" + ", ".join(parts) + "}"
    if t == "X":
        return f"S{v[1]}(" + ", ".join(r_val(x) for x in v[2]) + ")"
    raise ValueError(v)


def r_key(k):
    return r_int(k[1]) if k[0] == "i" else r_str(k[1])


def r_pe(pe):
    t = pe[0]
    if t == "i":
        return "[" + r_int(pe[1]) + "]"
    if t == "s":
        return "[" + r_str(pe[1]) + "]"
    if t == "f":
        return f"[f{pe[1]}_{pe[2]}]"
    if t == "sl":
        return "[" + ("" if pe[1] is None else r_int(pe[1])) + ":" + ("" if pe[2] is None else r_int(pe[2])) + "]"
    raise ValueError(pe)


def r_path(p):
    return "".join(r_pe(x) for x in p)


def r_pe_bare(pe):
    return r_pe(pe)[1:-1]


def r_lop(m, a):
    t = m[0]
    if t == "lset":
        return f"{a}{r_path(m[1])} = {r_val(m[2])}"
    if t == "levery":
        return f"every {a}{r_path(m[1])} = {r_val(m[2])}"
    if t == "lop":
        return f"{a}{r_path(m[1])} {BOPS[m[2]]}= {r_val(m[3])}"
    if t == "lpop":
        return f"pop {a}{r_path(m[1])}"
    if t == "lconsume":
        return f"consume {a}{r_path(m[1])}"
    if t == "lremove":
        return f"remove {a}{r_path(m[1])}{r_pe(m[2])}"
    raise ValueError(m)


def r_expr(e):
    t = e[0]
    if t == "lit":
        return r_val(e[1])
    if t == "read":
        return nm(e[1]) + r_path(e[2])
    if t == "get":
        return f"get_{e[1]}()"
    if t == "list":
        return "[" + ", ".join(r_expr(x) for x in e[1]) + "]"
    if t == "upd":
        return f"({r_expr(e[1])}){{{r_pe_bare(e[2])} = {r_expr(e[3])}}}"
    if t == "call":
        return f"(\\a -> ({r_lop(e[1], 'a')}; a))({r_expr(e[2])})"
    raise ValueError(e)


# statements that must be REFUSED: a declaring position (:=, typed declaration, for-loop target, switch case, catch pattern, lambda
# parameter) whose target is an index expression x[p] of an existing variable.  They declare nothing and must not write into x.
REFUSE = {
    "decl": lambda t, e: f"{t} := {e}",
    "typed-decl": lambda t, e: f"{t}: int = {e}",
    "typed-decl-list": lambda t, e: f"{t}: list = [{e}]",
    "decl-pair": lambda t, e: f"zq_a, {t} := 1, {e}",
    "for-target": lambda t, e: f"for ({t} <- [{e}, {e}]) null",
    "for-target-pair": lambda t, e: f"for (zq_b, {t} <- [[1, {e}]]) null",
    "switch-case": lambda t, e: f"switch ({e}) case {t} -> null",
    "switch-case-fallthrough": lambda t, e: f"switch ([{e}, 0]) case {t}, zq_c -> null case _ -> null",
    "catch-pattern": lambda t, e: f"try (throw {e}) catch {t} -> null",
    "lambda-parameter": lambda t, e: f"(\\{t} -> null)({e})",
}
REFUSE_OK = {"switch-case-fallthrough"}


def r_stmt(s):
    t = s[0]
    if t == "assign":
        return f"{nm(s[1])}{r_path(s[2])} = {r_expr(s[3])}"
    if t == "every":
        return f"every {nm(s[1])}{r_path(s[2])} = {r_expr(s[3])}"
    if t == "op":
        return f"{nm(s[1])}{r_path(s[2])} {BOPS[s[3]]}= {r_expr(s[4])}"
    if t == "mod":
        body = r_lop(s[3], nm(s[2]))
        return body if s[1] is None else f"{nm(s[1][0])}{r_path(s[1][1])} = {body}"
    if t == "swap":
        return f"swap {nm(s[1])}{r_path(s[2])}, {nm(s[3])}{r_path(s[4])}"
    if t == "opmod":
        rhs = r_lop(s[6], nm(s[5]))
        return f"{nm(s[1])}{r_path(s[2])} {BOPS[s[3]]}= " + (f"[{rhs}]" if s[4] else f"({rhs})")
    if t == "opdef":
        return f"({nm(s[1])}{r_path(s[2])} = {r_val(s[3])}) {BOPS[s[4]]}= {r_expr(s[5])}"
    if t == "refuse":
        return REFUSE[s[1]](f"{nm(s[2])}{r_path(s[3])}", r_val(s[4]))
    if t == "everyop":
        return f"every {nm(s[1])}{r_path(s[2])} {BOPS[s[3]]}= {r_expr(s[4])}"
    if t == "andop":
        return "(" + " and ".join(f"{nm(x)}{r_path(q)}" for x, q in s[1]) + f") {BOPS[s[2]]}= {r_expr(s[3])}"
    if t == "for":
        return f"for (it <- {nm(s[1])}{r_path(s[2])}) (" + "; ".join(r_stmt(x) for x in s[3]) + ")"
    raise ValueError(s)


def prelude(nvars):
    ps = [f"struct S{sid} (" + ", ".join(f"f{sid}_{k}" for k in range(n)) + ")" for sid, n in NSTRUCT.items()]
    ps += [f"{nm(x)} := null" for x in range(nvars)]
    ps += [f"get_{x} := \\-> {nm(x)}" for x in range(nvars)]
    return ps


def dump_stmt(nvars):
    return "[" + ", ".join(nm(x) for x in range(nvars)) + "]"


def render_history(nvars, stmts, wraps):
    """list of Noulith statements: prelude, then statement / dump pairs"""
    out = list(prelude(nvars))
    d = dump_stmt(nvars)
    for s, w in zip(stmts, wraps):
        src = r_stmt(s)
        if w == "lambda":
            src = f"(\\-> ({src}))()"
        out.append(src)
        out.append(d)
    return out


# ----------------------------------------------------------------------------- canonical text -> python value
def parse_canon(s):
    pos = [0]

    def peek():
        return s[pos[0]] if pos[0] < len(s) else ""

    def eat(c):
        assert s.startswith(c, pos[0]), (s, pos[0], c)
        pos[0] += len(c)

    def num():
        j = pos[0]
        if peek() == "-":
            pos[0] += 1
        while peek().isdigit():
            pos[0] += 1
        return int(s[j:pos[0]])

    def string():
        eat('"')
        out = []
        while peek() != '"':
            c = peek()
            if c == "\\":
                pos[0] += 1
                c2 = peek()
                if c2 == "n":
                    out.append(10)
                    pos[0] += 1
                elif c2 == "u":
                    eat("u{")
                    j = pos[0]
                    while peek() != "}":
                        pos[0] += 1
                    out.append(int(s[j:pos[0]], 16))
                    eat("}")
                else:
                    out.append(ord(c2))
                    pos[0] += 1
            else:
                out += list(c.encode("utf8"))
                pos[0] += 1
        eat('"')
        return out

    def seq(close):
        items = []
        while peek() != close:
            items.append(val())
            if peek() == ",":
                eat(",")
        eat(close)
        return items

    def val():
        c = peek()
        if c == "N":
            eat("N")
            return ("N",)
        if c == "I":
            eat("I")
            return ("I", num())
        if c == "L":
            eat("L[")
            return ("L", seq("]"))
        if c == "S":
            eat("S")
            return ("S", string())
        if c == "V":
            eat("V[")
            return ("V", [x[1] for x in seq("]")])
        if c == "B":
            eat("B[")
            zs = []
            while peek() != "]":
                zs.append(num())
                if peek() == ",":
                    eat(",")
            eat("]")
            return ("B", zs)
        if c == "D":
            eat("D{")
            kvs, d = [], None
            while peek() not in ("}", "|"):
                k = val()
                eat(":")
                kvs.append((("i", k[1]) if k[0] == "I" else ("s", k[1]), val()))
                if peek() == ",":
                    eat(",")
            if peek() == "|":
                eat("|")
                d = val()
            eat("}")
            return ("D", d, kvs)
        if c == "X":
            eat("XS")
            sid = num()
            eat("(")
            return ("X", sid, seq(")"))
        raise ValueError(f"cannot parse canonical text at {pos[0]}: {s[:80]}")

    v = val()
    assert pos[0] == len(s), (s, pos[0])
    return v


# ----------------------------------------------------------------------------- the spec process
class Spec:
    """persistent ocaml/c01 runner: history in, per-statement (ok, dump) out"""

    def __init__(self, runner):
        self.p = subprocess.Popen([runner], stdin=subprocess.PIPE, stdout=subprocess.PIPE, text=True, bufsize=1)

    def run(self, nvars, stmts):
        if not stmts:
            return []
        self.p.stdin.write(sx_hist(nvars, stmts) + "\n")
        self.p.stdin.flush()
        line = self.p.stdout.readline().rstrip("\n")
        out = []
        for part in line.split(" ;; "):
            st, _, dump = part.partition(" ")
            if st not in ("ok", "err"):
                raise RuntimeError("spec runner: " + line[:300])
            out.append((st, dump))
        return out

    def close(self):
        try:
            self.p.stdin.close()
            self.p.wait(timeout=5)
        except Exception:
            self.p.kill()


# ----------------------------------------------------------------------------- generator
def size_of(v):
    t = v[0]
    if t == "L":
        return 1 + sum(size_of(x) for x in v[1])
    if t in ("S", "V", "B"):
        return 1 + len(v[1])
    if t == "D":
        return 1 + sum(size_of(x) for _, x in v[2]) + (size_of(v[1]) if v[1] is not None else 0)
    if t == "X":
        return 1 + sum(size_of(x) for x in v[2])
    return 1


def is_cont(v):
    return v[0] in ("L", "D", "X", "S", "V", "B")


def nitems(v):
    return len(v[2]) if v[0] in ("D", "X") else len(v[1]) if v[0] in ("L", "S", "V", "B") else 0


class Gen:
    """statement generator; `st` is the current state (python values parsed from the spec's dump)"""

    def __init__(self, rng):
        self.r = rng

    # --- literals
    def lit(self, depth, scalar_bias=0.35):
        r = self.r
        if depth <= 0 or r.random() < scalar_bias:
            return r.choice([("I", r.randrange(-3, 10)), ("I", r.randrange(0, 4)), ("N",), ("S", self.bytes_(r.randrange(0, 4)))])
        k = r.random()
        n = r.randrange(0, 5)
        if k < 0.45:
            return ("L", [self.lit(depth - 1) for _ in range(max(n, 1) if r.random() < 0.8 else n)])
        if k < 0.65:
            d = self.lit(depth - 1, 0.6) if r.random() < 0.4 else None
            keys = []
            for _ in range(n):
                kk = self.key()
                if kk not in keys:
                    keys.append(kk)
            return ("D", d, [(kk, self.lit(depth - 1)) for kk in keys])
        if k < 0.75:
            return ("V", [r.randrange(-2, 9) for _ in range(n)])
        if k < 0.83:
            return ("B", [r.choice([0, 1, 7, 200, 255]) for _ in range(n)])
        if k < 0.90:
            return ("S", self.bytes_(n))
        sid = r.choice(list(NSTRUCT))
        return ("X", sid, [self.lit(depth - 1) for _ in range(NSTRUCT[sid])])

    def biglit(self):
        return self.lit(self.r.randrange(2, 4), 0.0)

    def bytes_(self, n):
        return [self.r.choice(b"abcxyz") for _ in range(n)]

    def key(self):
        r = self.r
        return ("i", r.randrange(0, 5)) if r.random() < 0.7 else ("s", self.bytes_(r.randrange(1, 3)))

    # --- paths into an existing value
    def children(self, v):
        """(pelem, child) for the slots of v that can be descended into / assigned"""
        t = v[0]
        if t == "L":
            n = len(v[1])
            return [(("i", i if self.r.random() < 0.7 else i - n), x) for i, x in enumerate(v[1])]
        if t == "D":
            return [(k, x) for k, x in v[2]]
        if t == "X":
            return [(("f", v[1], i), x) for i, x in enumerate(v[2])]
        return []

    def nodes(self, v, p=(), out=None, limit=80):
        if out is None:
            out = []
        out.append((list(p), v))
        if len(out) < limit:
            for pe, c in self.children(v):
                self.nodes(c, p + (pe,), out, limit)
        return out

    def pick(self, v, pred):
        c = [(p, n) for p, n in self.nodes(v) if pred(n)]
        return self.r.choice(c) if c else None

    def anynode(self, v, stop=0.45):
        p, cur = [], v
        while True:
            ch = self.children(cur)
            if not ch or self.r.random() < stop:
                return p, cur
            pe, cur = self.r.choice(ch)
            p.append(pe)

    def slot_of(self, node):
        """an assignable slot of a container node: (pelem, typed literal or None)"""
        r = self.r
        t = node[0]
        if t in ("S", "V", "B"):
            n = len(node[1])
            i = r.randrange(0, n)
            lit = {"S": ("S", self.bytes_(1)), "V": ("I", r.randrange(0, 9)), "B": ("I", r.choice([0, 9, 255]))}[t]
            return ("i", i if r.random() < 0.7 else i - n), lit
        ch = self.children(node)
        if t == "D" and (not ch or r.random() < 0.35):
            return self.key(), None
        return r.choice(ch)[0], None

    def node_at(self, v, p):
        cur = v
        for pe in p:
            nxt = None
            if cur[0] == "L" and pe[0] == "i":
                n = len(cur[1])
                i = pe[1] if pe[1] >= 0 else pe[1] + n
                if 0 <= i < n:
                    nxt = cur[1][i]
            elif cur[0] == "D":
                for k, x in cur[2]:
                    if k == pe:
                        nxt = x
            elif cur[0] == "X" and pe[0] == "f" and pe[1] == cur[1] and pe[2] < len(cur[2]):
                nxt = cur[2][pe[2]]
            if nxt is None:
                return None
            cur = nxt
        return cur

    def bad_pe(self):
        # never a slice: a slice in a non-`every` assignment position is todo!() in set_index (F11), not C01's business
        r = self.r
        return r.choice([("i", 9), ("i", -9), ("s", [113]), ("f", 0, 0), ("f", 1, 2), ("i", 0), ("i", -1)])

    def var_with(self, st, pred, lo=0):
        c = [y for y in range(lo, len(st)) if pred(st[y])]
        return self.r.choice(c) if c and self.r.random() < 0.9 else self.r.randrange(lo, len(st))

    # --- expressions (always evaluate without raising when wf, up to best effort)
    def expr(self, st, depth=2):
        r = self.r
        k = r.random()
        nv = len(st)
        have = any(is_cont(v) for v in st)
        if k < 0.28 or depth <= 0 or not have:
            return ("lit", self.lit(r.randrange(1, 4), 0.15))
        if k < 0.62:
            y = self.var_with(st, is_cont)
            if r.random() < 0.12 and st[y][0] in ("L", "S", "V", "B"):
                n = len(st[y][1])
                return ("read", y, [("sl", r.choice([None, 0, 1, -1]), r.choice([None, n, 1, -1]))])
            p, _ = self.anynode(st[y], stop=0.5)
            return ("read", y, p)
        if k < 0.68:
            return ("get", self.var_with(st, is_cont, lo=1 if nv > 1 else 0))   # never get_0: inside a loop `it` is a new variable
        if k < 0.80:
            return ("list", [self.expr(st, depth - 1) for _ in range(r.randrange(1, 4))])
        y = self.var_with(st, is_cont)
        if k < 0.90:
            got = self.pick(st[y], lambda n: n[0] in ("L", "D", "X") and (n[0] == "D" or nitems(n) > 0))
            if got is None:
                return ("lit", self.biglit())
            p, node = got
            pe, _ = self.slot_of(node)
            return ("upd", ("read", y, p), pe, self.expr(st, depth - 1))
        got = self.pick(st[y], lambda n: n[0] in ("L", "D", "X", "V", "B"))
        if got is None:
            return ("lit", self.biglit())
        p, node = got
        return ("call", self.lop(node), ("read", y, p))

    def lop(self, v, only_mod=False):
        """a (well-formed when possible) mutation of value v"""
        r = self.r
        forms = []
        c_slot = self.pick(v, lambda n: (n[0] in ("L", "X", "S", "V", "B") and nitems(n) > 0) or n[0] == "D")
        c_op = self.pick(v, lambda n: n[0] in ("L", "V", "B", "D", "I"))
        c_pop = self.pick(v, lambda n: n[0] == "L" and nitems(n) > 0)
        c_rem = self.pick(v, lambda n: n[0] in ("L", "D") and nitems(n) > 0)
        if not only_mod:
            if c_slot:
                forms += ["lset"] * 3
            if c_op:
                forms += ["lop"] * 3
            if self.pick(v, lambda n: n[0] in ("L", "D")):
                forms += ["levery"]
        if c_pop:
            forms += ["lpop"] * 3
        if c_rem:
            forms += ["lremove"] * 3
        forms += ["lconsume"]
        f = r.choice(forms)
        if f == "lset":
            p, node = c_slot
            pe, lit = self.slot_of(node)
            return ("lset", p + [pe], lit if lit is not None else self.lit(2))
        if f == "lop":
            p, node = c_op
            b = self.bop_for(node)
            return ("lop", p, b, self.arg_for(node, b))
        if f == "levery":
            p, node = self.pick(v, lambda n: n[0] in ("L", "D"))
            return ("levery", p + [self.slice_for(node)], self.lit(1))
        if f == "lpop":
            return ("lpop", c_pop[0])
        if f == "lremove":
            p, node = c_rem
            if node[0] == "L" and r.random() < 0.2:
                n = len(node[1])
                return ("lremove", p, ("sl", r.choice([None, 0, 1]), r.choice([None, n, -1, 1])))
            return ("lremove", p, r.choice(self.children(node))[0])
        p, _ = self.anynode(v)
        return ("lconsume", p)

    def slice_for(self, node):
        r = self.r
        if node[0] == "D":
            return ("sl", None, None)
        n = len(node[1])
        return ("sl", r.choice([None, None, 0, 1, -2]), r.choice([None, None, n, -1, 2]))

    def bop_for(self, node):
        t = node[0]
        r = self.r
        if t == "L":
            return r.choice(["append", "append", "concat", "update"])
        if t in ("V", "B"):
            return r.choice(["append", "concat", "plus"] if t == "V" else ["append", "concat"])
        if t == "D":
            return r.choice(["addkey", "delkey", "union", "update"])
        if t == "I":
            return "plus"
        return r.choice(list(BOPS))

    def arg_for(self, node, f):
        """a literal right operand for `node f= arg`.  The spec models to_key for integers and strings only and does not
        iterate dicts, so operands that would be used as keys / iterated are kept to those shapes (C09 covers keys)."""
        r = self.r
        t = node[0]
        if f in ("addkey", "delkey"):
            return r.choice([("I", r.randrange(0, 5)), ("S", self.bytes_(r.randrange(1, 3)))]) if t == "D" else self.lit(1)
        if f == "update":
            if t == "D":
                return r.choice([("L", [r.choice([("I", r.randrange(0, 5)), ("S", self.bytes_(1))]), self.lit(1)])] * 4 +
                                [("L", [("I", 1)]), ("I", 5), ("S", self.bytes_(2)), ("V", [r.randrange(0, 4), 7])])
            n = len(node[1]) if t == "L" else 2
            return r.choice([("L", [("I", r.randrange(-n, n) if n else 0), self.lit(1)])] * 4 + [("V", [r.randrange(0, 3), 5]),
                            ("L", [("S", [97]), ("I", 1)]), ("L", [("I", 0)]), ("I", 3)])
        if f == "union":
            return r.choice([("D", None, [(self.key(), self.lit(1)) for _ in range(r.randrange(0, 3))][:1] + [(("i", 7), self.lit(1))])] * 3 + [self.lit(1)])
        if f == "plus":
            if t == "V":
                return r.choice([("I", r.randrange(0, 5)), ("V", [r.randrange(0, 3) for _ in range(len(node[1]))]), ("V", [1])])
            return r.choice([("I", r.randrange(0, 4)), ("I", 1), ("I", 2), self.lit(1)])
        if f == "concat":
            if t == "V":
                return ("V", [r.randrange(0, 3) for _ in range(r.randrange(0, 3))])
            if t == "B":
                return ("B", [1, 2][: r.randrange(0, 3)])
            return r.choice([("L", [self.lit(1) for _ in range(r.randrange(0, 3))])] * 3 + [self.lit(2)])
        # append
        if t == "V":
            return r.choice([("I", r.randrange(0, 5)), ("I", 2), ("I", 3), self.lit(1)])
        if t == "B":
            return r.choice([("I", r.choice([0, 5, 255])), ("I", 7), ("I", 256), self.lit(1)])
        return self.lit(2)

    # --- statements
    def sstmt(self, st, wellformed=True, in_loop=False):
        r = self.r
        nv = len(st)
        lo = 1 if nv > 1 else 0
        total = sum(size_of(u) for u in st)
        if total > 250 and r.random() < 0.6:
            return ("assign", r.randrange(lo, nv), [], ("lit", self.lit(2)))
        x = self.var_with(st, is_cont, lo=lo)
        v = st[x]
        if not wellformed:
            return self.malformed(st, x)
        if not is_cont(v):
            if r.random() < 0.5:
                return ("assign", x, [], ("lit", self.biglit()))
            return ("assign", x, [], self.expr(st))
        k = r.random()
        if k < 0.10:
            return ("assign", x, [], self.expr(st))
        if k < 0.36:
            # slot assignment: x[p][i] = e   (store a variable inside another, overwrite, dict insert)
            got = self.pick(v, lambda n: (n[0] in ("L", "X", "S", "V", "B") and nitems(n) > 0) or n[0] == "D")
            if got is None:
                return ("assign", x, [], ("lit", self.biglit()))
            p, node = got
            pe, lit = self.slot_of(node)
            e = ("lit", lit) if lit is not None and r.random() < 0.9 else self.expr(st)
            return ("assign", x, p + [pe], e)
        if k < 0.44:
            # op-assign whose right-hand side MUTATES (usually the target itself): x[p] ++= [pop x[p]], x append= pop x ...
            got = self.pick(v, lambda n: n[0] == "L" and nitems(n) > 0)
            if got is not None:
                p, node = got
                y = x if r.random() < 0.75 else self.var_with(st, lambda u: u[0] == "L", lo=lo)
                vy = st[y]
                if y == x:
                    # mutate the target slot itself, a part of it, or the container around it
                    c = r.random()
                    mp = p if c < 0.5 else (p[:-1] if p and c < 0.7 else p)
                    mnode = node if mp == p else None
                else:
                    mp, mnode = [], None
                if mnode is None:
                    g2 = self.pick(vy, lambda n: n[0] == "L" and nitems(n) > 0)
                    if g2 is None:
                        mp, mnode = [], vy
                    else:
                        mp, mnode = g2 if y != x else (mp, self.node_at(vy, mp))
                kind = r.random()
                if mnode is not None and mnode[0] == "L" and nitems(mnode) > 0 and kind < 0.45:
                    m = ("lpop", mp)
                elif mnode is not None and mnode[0] == "L" and nitems(mnode) > 0 and kind < 0.8:
                    m = ("lremove", mp, ("i", r.randrange(0, nitems(mnode))))
                else:
                    m = ("lconsume", mp)
                wrap = r.random() < 0.6
                f = "concat" if wrap else r.choice(["append", "append", "concat"])
                return ("opmod", x, p, f, wrap, y, m)
        if k < 0.455:
            got = self.refuse(st, x)
            if got is not None:
                return got
        if k < 0.47:
            got = self.everyop(st, x) if r.random() < 0.55 else self.andop(st, x, lo)
            if got is not None:
                return got
        if k < 0.50:
            # op-assign with a default: (x[p][k] = d) f= e  - the slot is a key of a dictionary (without default) reached through
            # one or more indices; when the key is missing the operator starts from d
            got = self.opdef(st, x)
            if got is not None:
                return got
        if k < 0.58:
            p, node = self.pick(v, lambda n: n[0] in ("L", "V", "B", "D", "I")) or ([], v)
            f = self.bop_for(node)
            if r.random() < 0.5 or f in ("addkey", "delkey", "update"):
                e = ("lit", self.arg_for(node, f))
            elif f == "concat" and node[0] == "L":
                e = r.choice([("list", [self.expr(st, 1) for _ in range(r.randrange(0, 3))]),
                              ("read", self.var_with(st, lambda u: u[0] == "L"), [])])
            elif f == "union":
                e = ("read", self.var_with(st, lambda u: u[0] == "D"), [])
            else:
                e = self.expr(st)
            return ("op", x, p, f, e)
        if k < 0.66:
            got = self.pick(v, lambda n: n[0] in ("L", "D"))
            if got is None:
                return ("assign", x, [], ("lit", self.biglit()))
            p, node = got
            tail = []
            if r.random() < 0.25 and node[0] == "L" and node[1]:
                ch = self.children(node[1][0])
                if ch:
                    tail = [r.choice(ch)[0]]
            return ("every", x, p + [self.slice_for(node)] + tail, self.expr(st))
        if k < 0.92:
            m = self.lop(v, only_mod=True)
            dst = None
            if r.random() < 0.5:
                y = r.randrange(lo, nv)
                q = []
                if r.random() < 0.3:
                    got = self.pick(st[y], lambda n: (n[0] in ("L", "X") and nitems(n) > 0) or n[0] == "D")
                    if got is not None:
                        q = got[0] + [self.slot_of(got[1])[0]]
                dst = (y, q)
            return ("mod", dst, x, m)
        y = self.var_with(st, is_cont, lo=lo)
        p, _ = self.anynode(v)
        q, _ = self.anynode(st[y])
        return ("swap", x, p, y, q)

    def refuse(self, st, x):
        """a refused declaration into an existing slot x[p] of a (usually aliased) container"""
        r = self.r
        got = self.pick(st[x], lambda n: (n[0] in ("L", "X", "S", "V", "B") and nitems(n) > 0) or (n[0] == "D" and nitems(n) > 0))
        if got is None:
            return None
        p, node = got
        ch = self.children(node)
        if ch:
            pe, child = r.choice(ch)
        else:
            pe, child = ("i", r.randrange(0, len(node[1]))), None
        # a value that would be accepted by a plain assignment to that slot
        lit = {"S": ("S", self.bytes_(1)), "V": ("I", r.randrange(0, 9)), "B": ("I", r.choice([0, 9, 255]))}.get(node[0]) or r.choice([("I", 9), self.lit(1)])
        return ("refuse", r.choice(sorted(REFUSE)), x, list(p) + [pe], lit)

    def everyop(self, st, x):
        """every x[p] f= e : through index paths and list slices; about a third of the time the operator fails on some element
        (an element of another kind in the slice): the variable must keep its old value"""
        r = self.r
        v = st[x]
        if r.random() < 0.7:
            got = self.pick(v, lambda n: n[0] == "L" and nitems(n) > 0)
            if got is None:
                return None
            q, node = got
            n = len(node[1])
            sl = ("sl", r.choice([None, None, 0, 1, -2]), r.choice([None, None, n, -1, 2]))
            elems = node[1]
            tail = []
            if r.random() < 0.3 and elems and elems[0][0] in ("L", "D", "X"):
                ch = self.children(elems[0])
                if ch:
                    tail = [r.choice(ch)[0]]
                    elems = [c for e in elems for pe, c in self.children(e) if pe == tail[0]] or [ch[0][1]]
            el = r.choice(elems)
            if el[0] not in ("L", "V", "B", "D", "I"):
                el = ("L", [])
            f = self.bop_for(el)
            return ("everyop", x, list(q) + [sl] + tail, f, ("lit", self.arg_for(el, f)))
        p, node = self.anynode(v, stop=0.4)
        if node[0] not in ("L", "V", "B", "D", "I"):
            return None
        f = self.bop_for(node)
        e = ("lit", self.arg_for(node, f)) if r.random() < 0.7 or f in ("addkey", "delkey", "update", "union") else self.expr(st, 1)
        return ("everyop", x, p, f, e)

    def andop(self, st, x, lo):
        """(x[p] and y[q] [and z[s]]) f= e : targets of one kind (so that the same operator applies), possibly the same variable,
        overlapping or aliased"""
        r = self.r
        kind = r.choice(["L", "L", "L", "I", "D", "V"])
        cands = [(y, q, n) for y in range(lo, len(st)) for q, n in self.nodes(st[y]) if n[0] == kind]
        mine = [c for c in cands if c[0] == x]
        if not mine or len(cands) < 2:
            return None
        ts = [r.choice(mine)] + [r.choice(cands) for _ in range(r.choice([1, 1, 2]))]
        r.shuffle(ts)
        node = ts[0][2]
        f = self.bop_for(node)
        if f in ("update",):
            f = "append" if kind == "L" else "addkey"
        e = ("lit", self.arg_for(node, f)) if r.random() < 0.6 or f in ("addkey", "delkey", "union") else self.expr(st, 1)
        return ("andop", [(y, list(q)) for y, q, _ in ts], f, e)

    def opdef(self, st, x):
        r = self.r
        v = st[x]
        cands = [(q, n) for q, n in self.nodes(v) if n[0] == "D"]
        deep = [(q, n) for q, n in cands if len(q) >= 1 and n[1] is None]
        nodef = [(q, n) for q, n in cands if n[1] is None]
        pool = deep if deep and r.random() < 0.8 else (nodef if nodef and r.random() < 0.85 else cands)
        if not pool:
            return None
        q, node = r.choice(pool)
        ch = self.children(node)
        if ch and r.random() < 0.5:
            key, child = r.choice(ch)
            if child[0] in ("L", "V", "B", "D", "I"):
                f = self.bop_for(child)
                d = self.lit(1)
                return ("opdef", x, list(q) + [key], d, f, ("lit", self.arg_for(child, f)))
        key = self.key()
        d, f = r.choice([(("L", []), "append"), (("L", [("I", 1)]), "concat"), (("I", 0), "plus"), (("I", 100), "plus"),
                         (("D", None, []), "addkey"), (("V", [1, 2]), "append"), (("L", []), "append")])
        if r.random() < 0.5 or f == "addkey":       # (keys: integers and strings only, see arg_for)
            e = ("lit", self.arg_for(d, f))
        else:
            e = self.expr(st, 1)
        return ("opdef", x, list(q) + [key], d, f, e)

    def malformed(self, st, x):
        r = self.r
        v = st[x]
        p, node = self.anynode(v, stop=0.3)
        k = r.random()
        if k < 0.18:
            # a FAILING element assignment on a string / vector / bytes (top level or nested): index out of range with a
            # well-typed value, or a valid index with an ill-typed value - the payload must be left exactly as it was
            cands = [(y, q, n) for y in range(1 if len(st) > 1 else 0, len(st)) for q, n in self.nodes(st[y])
                     if n[0] in ("S", "V", "B")] if r.random() < 0.9 else []
            if cands:
                y, q, n = r.choice(cands)
                ln = len(n[1])
                good = {"S": ("S", self.bytes_(1)), "V": ("I", r.randrange(0, 9)), "B": ("I", r.choice([0, 9, 255]))}[n[0]]
                if r.random() < 0.7 or ln == 0:
                    return ("assign", y, q + [("i", r.choice([ln, ln + 3, -ln - 1, -ln - 4]))], ("lit", good))
                bad = {"S": r.choice([("S", self.bytes_(2)), ("S", []), ("I", 1), ("N",)]), "V": r.choice([("S", self.bytes_(1)), ("N",), ("L", [])]),
                       "B": r.choice([("I", 256), ("I", -1), ("S", self.bytes_(1)), ("N",)])}[n[0]]
                return ("assign", y, q + [("i", r.randrange(0, ln))], ("lit", bad))
        if k < 0.25:
            return ("assign", x, p + [self.bad_pe()] + ([self.bad_pe()] if r.random() < 0.3 else []), self.expr(st))
        if k < 0.45:
            f = r.choice(["append", "concat", "plus", "addkey", "delkey", "union", "update"])
            c = r.random()
            if c < 0.12:
                got = self.refuse(st, x)
                if got is not None:
                    return got
            if c < 0.2:
                return ("everyop", x, p + ([("sl", None, None)] if r.random() < 0.6 else [self.bad_pe()]), f, ("lit", self.arg_for(node, f)))
            if c < 0.35:
                y = r.randrange(0, len(st))
                q, _ = self.anynode(st[y], stop=0.5)
                return ("andop", [(x, p), (y, q)] + ([(x, p)] if r.random() < 0.3 else []), f, ("lit", self.arg_for(node, f)))
            if r.random() < 0.3:
                # with-default read on something that is not a key of a default-less dictionary
                pe = r.choice([self.key(), self.key(), ("i", 0), self.bad_pe()])
                return ("opdef", x, p + [pe], self.lit(1), f, ("lit", self.arg_for(node, f)))
            return ("op", x, p, f, ("lit", self.arg_for(node, f)))
        if k < 0.7:
            m = r.choice([("lpop", p), ("lpop", p + [self.bad_pe()]), ("lremove", p, self.bad_pe()), ("lconsume", p + [self.bad_pe()])])
            return ("mod", None if r.random() < 0.5 else (r.randrange(0, len(st)), [self.bad_pe()] if r.random() < 0.5 else []), x, m)
        if k < 0.8:
            return ("swap", x, p + [self.bad_pe()], r.randrange(0, len(st)), [])
        if k < 0.9:
            return ("every", x, p + [("sl", None, None), self.bad_pe()], self.expr(st))
        return ("assign", x, p, ("read", r.randrange(0, len(st)), [self.bad_pe(), self.bad_pe()]))

    def stmt(self, st, wellformed=True):
        r = self.r
        if r.random() < 0.08:
            # for-loop over a list/vector/bytes/string while mutating (a copy of) it
            cands = []
            for y, v in enumerate(st):
                if y == 0:
                    continue
                if v[0] in ("L", "V", "B", "S") and 0 < len(v[1]) <= 4:
                    cands.append((y, []))
                if v[0] == "L":
                    for i, sub in enumerate(v[1]):
                        if sub[0] in ("L", "V", "B") and 0 < len(sub[1]) <= 3:
                            cands.append((y, [("i", i)]))
            if cands:
                y, p = r.choice(cands)
                body = []
                for _ in range(r.randrange(1, 3)):
                    c = r.random()
                    z = r.randrange(1, len(st))
                    if c < 0.35:
                        body.append(("op", z if st[z][0] == "L" else y, [], "append", ("read", 0, [])))
                    elif c < 0.55:
                        body.append(("assign", y, p + [("i", 0)], ("read", 0, [])))
                    elif c < 0.7:
                        body.append(("mod", None, y, ("lpop", p)))
                    else:
                        body.append(self.sstmt(st, True, in_loop=True))
                return ("for", y, p, body)
        return self.sstmt(st, wellformed)


def safe_keys(s, rng):
    """the spec models to_key for integers and strings only (C09 covers keys): whatever stream produced the statement, the
    literal right operand of `|.` / `-.` is an integer or a string"""
    t = s[0]
    if t == "for":
        return (t, s[1], s[2], [safe_keys(b, rng) for b in s[3]])
    pos = {"op": (3, 4), "everyop": (3, 4), "andop": (2, 3), "opdef": (4, 5)}.get(t)
    if pos and s[pos[0]] in ("addkey", "delkey"):
        e = s[pos[1]]
        if not (e[0] == "lit" and e[1][0] in ("I", "S")):
            e = ("lit", ("I", rng.randrange(0, 5)))
            s = s[:pos[1]] + (e,) + s[pos[1] + 1:]
    return s


def gen_history(rng, spec, nvars=None, length=None, p_bad=0.3):
    """generate one history guided by the spec's current state; returns (nvars, stmts, wraps)"""
    g = Gen(rng)
    nvars = nvars or rng.randrange(4, 8)        # `it` + 3..6 variables
    length = length or rng.randrange(5, 41)
    stmts, wraps = [], []
    st = [("N",)] * nvars
    for _ in range(length):
        s = safe_keys(g.stmt(st, wellformed=rng.random() >= p_bad), rng)
        stmts.append(s)
        wraps.append("lambda" if (s[0] != "for" and rng.random() < 0.12) else "plain")
        tr = spec.run(nvars, stmts)
        st = parse_canon(tr[-1][1])[1]
    return nvars, stmts, wraps


# ----------------------------------------------------------------------------- comparison
def observe(nvars, results):
    """harness results -> list of (status, dump) per history statement, or a crash marker"""
    np_ = len(prelude(nvars))
    for r in results[:np_]:
        if r.get("status") != "ok":
            return ("prelude-failed", r)
    out = []
    body = results[np_:]
    i = 0
    while i < len(body):
        s = body[i]
        st = s.get("status")
        if st in ("panic", "hang", "abort", "parse", "badjson", "sig"):
            out.append((st, s.get("msg", "")))
            return out
        if i + 1 >= len(body):
            out.append(("missing-dump", ""))
            return out
        d = body[i + 1]
        if d.get("status") != "ok":
            out.append(("dump-" + str(d.get("status")), d.get("msg", "")))
            return out
        out.append(("ok" if st == "ok" else "err", d["val"]))
        i += 2
    return out


def first_diff(spec_tr, impl_tr):
    for i, (a, b) in enumerate(zip(spec_tr, impl_tr)):
        if a != b:
            return i
    if len(spec_tr) != len(impl_tr):
        return min(len(spec_tr), len(impl_tr))
    return None


def run_impl(histories):
    progs = [render_history(n, s, w) for (n, s, w) in histories]
    res = common.run_prog(progs, timeout=20.0)
    out = []
    for (n, s, w), r in zip(histories, res):
        if "results" not in r:
            out.append([(r.get("status", "abort"), r.get("msg", ""))])
        else:
            out.append(observe(n, r["results"]))
    return out


def check_one(spec, h):
    n, s, w = h
    sp = spec.run(n, s)
    im = run_impl([h])[0]
    return first_diff(sp, im), sp, im


def shrink(spec, h):
    """delta debugging over the statement list: keep a history on which spec and implementation differ"""
    n, s, w = h
    d, _, _ = check_one(spec, h)
    if d is None:
        return h
    s, w = s[: d + 1], w[: d + 1]
    changed = True
    while changed and len(s) > 1:
        changed = False
        for i in range(len(s) - 1, -1, -1):
            s2, w2 = s[:i] + s[i + 1:], w[:i] + w[i + 1:]
            if not s2:
                continue
            try:
                d2, _, _ = check_one(spec, (n, s2, w2))
            except Exception:
                continue
            if d2 is not None:
                s, w = s2[: d2 + 1], w2[: d2 + 1]
                changed = True
                break
    w = ["plain" if check_one(spec, (n, s, w[:i] + ["plain"] + w[i + 1:]))[0] is not None else w[i] for i in range(len(w))]
    return n, s, w


def is_mutation(s):
    if s[0] == "for":
        return True
    if s[0] in ("assign", "every"):
        return len(s[2]) > 0
    return s[0] in ("op", "mod", "swap", "opmod", "opdef", "everyop", "andop")


def containers(v, acc):
    t = v[0]
    if t == "L":
        if v[1]:
            acc.append(json.dumps(v))
        for x in v[1]:
            containers(x, acc)
    elif t == "D":
        if v[2]:
            acc.append(json.dumps(v))
        for _, x in v[2]:
            containers(x, acc)
    elif t in ("V", "B", "S"):
        if len(v[1]) > 1:
            acc.append(json.dumps(v))
    elif t == "X":
        for x in v[2]:
            containers(x, acc)


def aliased_mutations(stmts, spec_tr):
    """number of successful mutation statements executed while the state held two structurally equal
    non-empty containers (the generator only produces equal containers by copying, so this is the proxy for
    'an alias of a cell was live'), at least one of them inside the mutated variable"""
    cnt = 0
    prev = None
    for s, (st, dump) in zip(stmts, spec_tr):
        if prev is not None and st == "ok" and is_mutation(s):
            vals = parse_canon(prev)[1]
            x = s[2] if s[0] == "mod" else (s[1][0][0] if s[0] == "andop" else s[1])
            mine = []
            containers(vals[x], mine)
            others = []
            for y, v in enumerate(vals):
                if y != x:
                    containers(v, others)
            if set(mine) & set(others) or len(mine) != len(set(mine)):
                if dump != prev:
                    cnt += 1
        prev = dump
    return cnt


# ----------------------------------------------------------------------------- corpus / exhaustive
def corpus_histories():
    out = []
    d = common.ROOT / "corpus"
    for f in sorted(d.glob("C01-*.json")):
        j = json.loads(f.read_text())
        out.append((j["nvars"], [tuplify(s) for s in j["stmts"]], j.get("wraps") or ["plain"] * len(j["stmts"])))
    return out


def tuplify(x):
    if isinstance(x, list):
        return tuple(tuplify_inner(y) for y in x)
    return x


def tuplify_inner(y):
    # statements/exprs/vals are tuples whose first element is a tag string; payload lists (paths, item lists) stay lists
    if isinstance(y, list):
        if y and isinstance(y[0], str) and y[0] in TAGS:
            return tuple(tuplify_inner(z) for z in y)
        return [tuplify_inner(z) for z in y]
    return y


TAGS = {"N", "I", "L", "S", "V", "B", "D", "X", "i", "s", "f", "sl", "lit", "read", "get", "list", "upd", "call", "lset", "levery", "lop",
        "lpop", "lremove", "lconsume", "assign", "every", "op", "mod", "swap", "for", "opmod", "opdef", "everyop", "andop", "refuse"}

ALPHABET = [
    ("assign", 1, [], ("lit", ("L", [("L", [("I", 1), ("I", 2)]), ("I", 3)]))),
    ("assign", 2, [], ("read", 1, [])),
    ("assign", 2, [], ("read", 1, [("i", 0)])),
    ("assign", 1, [("i", 0), ("i", 0)], ("lit", ("I", 9))),
    ("assign", 1, [("i", 1)], ("read", 2, [])),
    ("op", 1, [("i", 0)], "append", ("read", 2, [])),
    ("op", 2, [], "append", ("lit", ("I", 7))),
    ("mod", (2, []), 1, ("lpop", [])),
    ("every", 1, [("sl", None, None)], ("read", 2, [])),
    ("swap", 1, [("i", 0)], 2, []),
    ("assign", 2, [], ("call", ("lset", [("i", 0)], ("I", 5)), ("read", 1, []))),
    ("for", 1, [], [("op", 2, [], "append", ("read", 0, [])), ("mod", None, 1, ("lpop", []))]),
]


def exhaustive_histories(maxlen):
    import itertools
    out = []
    for n in range(1, maxlen + 1):
        for combo in itertools.product(range(len(ALPHABET)), repeat=n):
            out.append((3, [ALPHABET[i] for i in combo], ["plain"] * n))
    return out


# ----------------------------------------------------------------------------- swap of ==-equal, distinguishable values
# Noulith's == is coarser than identity of values (1 == 1.0 == 2/2, [1] == [1.0], 0.0 == -0.0, dictionaries are compared
# without their default).  The value semantics says swap exchanges the two slots whatever they hold.  The modelled values
# have integers only, so this family is checked against the statement of the property directly: after
# `swap s, t` the first slot holds what the literal B evaluates to, the second what A evaluates to (canonical serialiser,
# which tells all of these apart), and an alias taken before still shows A, B.
EQ_PAIRS = [
    ("1", "1.0"), ("1.0", "1"), ("2", "4/2"), ("0.0", "-0.0"), ("0", "-0.0"), ("[1]", "[1.0]"), ("[1, [2]]", "[1, [2.0]]"),
    ("V(1, 2)", "V(1.0, 2.0)"), ("[V(1, 2)]", "[V(1.0, 2)]"), ("{:0}", "{:1}"), ("{1: 2}", "{:5, 1: 2}"), ("{1: 2}", "{1: 2.0}"),
    ("[{:0}]", "[{:[]}]"), ("S0(1, 2)", "S0(1.0, 2)"), ("{1: [1]}", "{1.0: [1]}"), ("3", "3"), ("[1]", "[1]"), ("1", "2"),
]


def swap_equal_cases():
    pre = ["struct S0 (f0_0, f0_1)"]
    cases = []
    for a, b in EQ_PAIRS:
        cases.append(("variables", pre + [f"a := {a}", f"b := {b}", "swap a, b"], "[a, b]", f"[{b}, {a}]"))
        cases.append(("list slots, aliased", pre + [f"x := [{a}, {b}, 0]", "keep := x", "swap x[0], x[1]"], "[x, keep]",
                      f"[[{b}, {a}, 0], [{a}, {b}, 0]]"))
        cases.append(("last/first slot", pre + [f"x := [{a}, 0, {b}]", "keep := x", "swap x[-1], x[0]"], "[x, keep]",
                      f"[[{b}, 0, {a}], [{a}, 0, {b}]]"))
        cases.append(("nested list slot and dict key, aliased", pre + [f"p := [[{a}], 7]", f"q := {{\"k\": {b}}}", "keep := p", "keep2 := q",
                      "swap p[0][0], q[\"k\"]"], "[p, q, keep, keep2]",
                      f"[[[{b}], 7], {{\"k\": {a}}}, [[{a}], 7], {{\"k\": {b}}}]"))
        cases.append(("struct fields", pre + [f"s := S0({a}, {b})", "keep := s", "swap s[f0_0], s[f0_1]"], "[s, keep]",
                      f"[S0({b}, {a}), S0({a}, {b})]"))
        cases.append(("variable and slot", pre + [f"a := {a}", f"x := [0, [{b}]]", "keep := x", "swap a, x[1][0]"], "[a, x, keep]",
                      f"[{b}, [0, [{a}]], [0, [{b}]]]"))
        cases.append(("slot with itself", pre + [f"x := [{a}, {b}]", "keep := x", "swap x[0], x[0]"], "[x, keep]",
                      f"[[{a}, {b}], [{a}, {b}]]"))
    return cases


def swap_equal_check(ctx, stats):
    cases = swap_equal_cases()
    progs = [st + [obs] for (_, st, obs, _) in cases] + [pre_exp for pre_exp in [["struct S0 (f0_0, f0_1)", exp] for (_, _, _, exp) in cases]]
    res = common.run_prog(progs, timeout=20.0)
    n = len(cases)
    for i, (what, st, obs, exp) in enumerate(cases):
        got, want = res[i], res[n + i]
        stats["swap_equal_cases"] = stats.get("swap_equal_cases", 0) + 1
        g = [(r.get("status"), r.get("val")) for r in got.get("results", [])] if "results" in got else [(got.get("status"), None)]
        w = want.get("results", [{}])[-1] if "results" in want else {}
        if w.get("status") != "ok":
            ctx.violation("correspondence", {"what": "swap family: the expected-value expression did not evaluate", "expr": exp, "result": want}, found=False)
            continue
        ok = len(g) == len(st) + 1 and all(s == "ok" for s, _ in g) and g[-1][1] == w.get("val")
        if not ok:
            stats["diffs"] += 1
            ctx.violation("property", {
                "what": f"swap of two values that compare equal with == but are distinguishable ({what}): the slots were not exchanged "
                        "(or an alias changed)",
                "program": st + [obs], "observed": g[-1], "expected_value_of": exp, "expected": w.get("val")}, found=True)
    return n


# ----------------------------------------------------------------------------- run
def cow_events(machine_runner, hists):
    """per history: number of statements during which the Coq machine's make_mut found a shared cell (copied grew) -
    i.e. a mutation executed while an alias of the mutated cell was live"""
    if not machine_runner or not hists:
        return [None] * len(hists)
    out = []
    lines = common.run_model(machine_runner, [sx_hist(n, s) for (n, s, w) in hists])
    for line in lines:
        try:
            tr = json.loads(line)
            prev, ev = 0, 0
            for st in tr:
                if st["copied"] > prev:
                    ev += 1
                prev = st["copied"]
            out.append(ev)
        except Exception:
            out.append(None)
    return out


def compare_batch(ctx, spec, hists, stats, label, machine_runner=None):
    impl = run_impl(hists)
    cows = cow_events(machine_runner, hists)
    for c in cows:
        if c:
            stats["cow_histories"] += 1
            stats["cow_events"] += c
    for h, im in zip(hists, impl):
        n, s, w = h
        sp = spec.run(n, s)
        stats["histories"] += 1
        stats["statements"] += len(s)
        stats["raised"] += sum(1 for a, _ in sp if a == "err")
        for x in s:
            stats["forms"][x[0]] = stats["forms"].get(x[0], 0) + 1
        am = aliased_mutations(s, sp)
        stats["aliased_mutations"] += am
        if am:
            stats["nontrivial"] += 1
        d = first_diff(sp, im)
        if d is None:
            continue
        stats["diffs"] += 1
        if stats["diffs"] > 3:
            continue
        hs = shrink(spec, h)
        d2, sp2, im2 = check_one(spec, hs)
        if d2 is None:           # flaky: report the unshrunk one
            hs, d2, sp2, im2 = h, d, sp, im
        n2, s2, w2 = hs
        ctx.violation("property", {
            "what": "after this statement history the implementation's variables (or raised/not-raised) differ from what copy-on-assignment "
                    "value semantics (Coq spec Rc/ValueSem.v, extracted) prescribes",
            "source": label, "nvars": n2, "stmts": s2, "wraps": w2,
            "program": render_history(n2, s2, w2),
            "first_difference_at_statement": d2,
            "statement": r_stmt(s2[d2]) if d2 < len(s2) else None,
            "spec_says": sp2[d2] if d2 < len(sp2) else None,
            "implementation_says": im2[d2] if d2 < len(im2) else None,
        }, found=True)


def run(ctx):
    runner = common.standard_prelude(ctx)
    stats = {"histories": 0, "statements": 0, "raised": 0, "forms": {}, "aliased_mutations": 0, "nontrivial": 0, "diffs": 0,
             "cow_histories": 0, "cow_events": 0}
    samples = []
    okm, machine = common.build_model("C02")
    if not okm:
        machine = None
    if runner:
        spec = Spec(runner)
        try:
            compare_batch(ctx, spec, corpus_histories(), stats, "corpus", machine)
            swap_equal_check(ctx, stats)
            nh = ctx.n(400, 12000)
            bsz = ctx.n(400, 2000)
            batch = []
            for i in range(nh):
                h = gen_history(ctx.rng, spec, p_bad=0.3 if i % 5 else 0.75)
                batch.append(h)
                if len(samples) < 6 and i % 50 == 0:
                    samples.append({"program": render_history(*h)[len(prelude(h[0])):][:12]})
                if len(batch) >= bsz:
                    compare_batch(ctx, spec, batch, stats, "random", machine)
                    batch = []
            compare_batch(ctx, spec, batch, stats, "random", machine)
            ex = exhaustive_histories(ctx.n(2, 4))
            for i in range(0, len(ex), 2000):
                compare_batch(ctx, spec, ex[i:i + 2000], stats, "exhaustive", machine)
            stats["exhaustive_histories"] = len(ex)
        finally:
            spec.close()
    ctx.coverage.update({
        "evaluations": stats["statements"],
        "distinct_nontrivial": stats["cow_histories"] if machine else stats["nontrivial"],
        "rule": "evaluations = statements executed and compared (all variables + raised/not-raised after each); distinct_nontrivial = "
                "histories in which, according to the Coq Rc machine run on the same history, at least one statement mutated through a "
                "cell whose strong count was > 1 (make_mut copied: an alias of the mutated cell was live) - the machine's counts are "
                "checked against the real Rc graph by C02. Secondary proxy (histories_with_equal_container_mutated): a successful "
                "state-changing mutation executed while the mutated variable held a non-empty container structurally equal to one "
                "elsewhere in the state",
        "copy_on_write_statements": stats["cow_events"], "histories_with_equal_container_mutated": stats["nontrivial"],
        "samples": samples, "histories": stats["histories"], "raised_statements": stats["raised"],
        "statement_forms": stats["forms"], "aliased_mutation_statements": stats["aliased_mutations"],
        "exhaustive_histories": stats.get("exhaustive_histories", 0), "differences": stats["diffs"],
        "swap_of_equal_distinguishable_values_cases": stats.get("swap_equal_cases", 0),
    })
    ctx.assumptions += ["dict keys are integers and ASCII strings; strings are ASCII (C09/C16 cover keys and UTF-8)",
                        "for-loops iterate lists/vectors/bytes/strings only (dict iteration order is the hash map's)",
                        "non-`every` slice assignment (todo!() in set_index) is not generated"]
    return common.conclude(ctx)


def replay(ctx, rep):
    runner = common.standard_prelude(ctx)
    spec = Spec(runner)
    h = (rep["nvars"], [tuplify(s) for s in rep["stmts"]], rep.get("wraps") or ["plain"] * len(rep["stmts"]))
    d, sp, im = check_one(spec, h)
    spec.close()
    print(json.dumps({"program": render_history(*h), "first_difference": d, "spec": sp, "implementation": im}, indent=1))
    return 1 if d is not None else 0
