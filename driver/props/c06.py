"""C06 - integer arithmetic is exact at every magnitude and in either representation.

Correspondence, three layers, every case through (1) the implementation, (2) the Coq model
Num/NInt.v extracted to OCaml, (3) Python integers / Fractions as the independent oracle:

  A  operand producers: every pool value x every in-language way of producing it (literal,
     0-literal, int("..") parse, 2^k+c, difference of big values, x // 1, (2^64-2^64)+x, x << 0)
     is evaluated; value and representation (via the hook re-export of NInt) are checked.
  B  language level: for all ordered pairs of (value, representation) operands, every operator of
     the property as Noulith statements (bin/c06 "prog" mode reports value and representation).
  C  NInt level through `noulith::verif_hooks::NInt`: the same pairs, operands built directly as
     NInt::Small / NInt::Big, all four owned/borrowed variants of + - * / % & | ^, plus neg, not,
     abs, signum, div_floor, mod_floor, gcd, lcm, pow, pow_maybe_recip, shl, shr, eq, cmp, hash,
     to_i64, to_usize, sqrt, lte.
  D  is_prime / factorize: exhaustive small range in both representations, pool values and
     semiprimes whose trial division terminates quickly.

Verdicts use VALUES only (decimal value, raised / not raised, never the representation of a
result, which is an internal detail: agreement of representations with the model is recorded
in the evidence as a statistic).
"""
import json, math
from fractions import Fraction
import common

ID = "C06"
MANIFEST = dict(
    technique="Coq proof (NInt model = exact Z arithmetic in either representation, unbounded) + all-pairs boundary-pool correspondence model/implementation/Python integers",
    text="Machine-checked theorems (Coq 8.16, no axioms) about a Gallina transcription of src/nint.rs (Small i64 | Big BigInt, checked fast path "
         "with fallback, 64-bit bit operators, neg/not/abs/signum/pow/gcd/lcm/shifts/div_floor/mod_floor/eq/cmp/hash, lazy_is_prime) and of the "
         "integer builtins' zero-divisor guards: for all operands satisfying the representation invariant every operator returns the exact Z result "
         "(so the result cannot depend on the representation), results satisfy the invariant, no panic except NInt-level division by zero which "
         "the builtins guard, floor/mod identity and sign rules, bit operators = infinite two's complement, shifts = * 2^k and floor / 2^k, eq/cmp/hash "
         "representation independent, lazy_is_prime n <-> prime n, lazy_factorize returns prime powers in increasing order whose product is the argument (both total, with explicit fuel). The model is tied to /repo on every run by an all-pairs sweep of a boundary pool "
         "(0, +-1, +-2^31, +-2^32, +-(2^62..2^64) and neighbours, random values up to 2000 bits, each in both representations) x every operator, "
         "at the language level and at the NInt level (four owned/borrowed variants), against the model and against Python integers.",
    note="Trusted: Coq kernel; num-bigint modelled by Z (BigInt + - * / % & | ^ ! << >> sqrt gcd lcm pow div_floor mod_floor mean Z's); the hand-written "
         "model Num/NInt.v (tie to the code is the correspondence run, i.e. differential testing on the pool); extraction + OCaml runner; Rust harness "
         "bin/c06; Python oracle. The "
         "int x int arms of NNum's dispatch macros are one line each and covered by correspondence only. Shift counts and exponents are kept small (huge counts are the separate class F23).",
    design="6-C06")

I63 = 2 ** 63
U64 = 2 ** 64


def in_i64(v):
    return -I63 <= v < I63


# ----------------------------------------------------------------------------- pool
def base_values():
    vs = [0, 1, 2, 3, 5, 6, 7, 10, 12, 63, 64, 65, 97, 255, 360, 1000]
    for p in (2 ** 31, 2 ** 32, 2 ** 62, 2 ** 63, 2 ** 64):
        vs += [p - 1, p, p + 1]
    vs += [2 ** 63 - 2, 2 ** 63 + 2, 2 ** 64 - 2, 3 * 2 ** 62, 2 ** 61 - 1, 2 ** 65, 2 ** 66 + 12345, 2 ** 127 - 1, 2 ** 128]
    out = []
    for v in vs:
        out += [v, -v]
    return sorted(set(out))


def random_values(rng, count, maxbits, sizes=(65, 96, 130, 256, 511, 1000, 2000)):
    out = []
    for i in range(count):
        bits = sizes[i % len(sizes)] if i < len(sizes) else rng.randint(33, maxbits)
        bits = min(bits, maxbits)
        v = rng.getrandbits(bits) | (1 << (bits - 1))
        if rng.random() < 0.5:
            v = -v
        out.append(v)
    # a few random machine-word sized ones and sparse/dense bit patterns
    for _ in range(max(2, count // 2)):
        out.append(rng.randint(-I63, I63 - 1))
    out.append((1 << 200) - 1)
    out.append(-(1 << 200))
    return out


def quick_pool(rng):
    core = [0, 1, -1, 2, -2, 3, -3, 7, -7, 10, 64, 97, -360,
            2 ** 31 - 1, 2 ** 31, -2 ** 31, -2 ** 31 - 1, 2 ** 32, -2 ** 32, 2 ** 32 + 1,
            2 ** 62, -2 ** 62, 2 ** 63 - 1, 2 ** 63, 2 ** 63 + 1, -2 ** 63 + 1, -2 ** 63, -2 ** 63 - 1,
            2 ** 64 - 1, 2 ** 64, 2 ** 64 + 1, -2 ** 64, -2 ** 64 - 1]
    return core + random_values(rng, 4, 2000, sizes=(65, 130, 700, 2000))


# ----------------------------------------------------------------------------- rendering operands in the language
def lit(v):
    """an expression whose value is v, built from literals that fit the lexer (non-negative)"""
    if v >= 0:
        return str(v)
    if v == -I63:
        return "(0-9223372036854775807-1)"   # stays Small: 0 - (2^63-1) - 1 by checked i64 ops
    return f"(0-{-v})"


def producers(v, rep):
    """(name, expression) pairs that should produce value v in representation rep"""
    out = []
    if rep == "S":
        assert in_i64(v)
        out.append(("literal", lit(v)))
        out.append(("parse", f'int("{v}")'))
        if v != -I63:
            out.append(("unary-minus", f"(-{lit(-v)})" if v <= 0 else f"(-(0-{v}))"))
        if abs(v) < 2 ** 62:
            out.append(("small-arith", f"({lit(v - 1)} + 1)"))
    else:
        if not in_i64(v):
            out.append(("literal", lit(v)))
            out.append(("parse", f'int("{v}")'))
        if v == -I63:
            out.append(("0-bigliteral", "(0-9223372036854775808)"))
        # near a power of two: result of ^
        a = abs(v)
        if a >= 4:
            k = a.bit_length() - 1
            for kk in (k, k + 1):
                c = a - 2 ** kk
                if abs(c) <= 3:
                    e = f"(2^{kk} + {lit(c)})" if c else f"(2^{kk})"
                    out.append(("pow", e if v > 0 else f"(0 - {e})"))
                    break
        out.append(("diff-of-big", f"((2^70 + {lit(v)}) - 2^70)"))
        out.append(("floor-div-1", f"({lit(v)} // 1)"))
        out.append(("bigzero-plus", f"((2^64 - 2^64) + {lit(v)})"))
        out.append(("shl-0", f"({lit(v)} << 0)"))
    return out


def operands(values):
    ops = []
    for v in values:
        if in_i64(v):
            ops.append((v, "S"))
        ops.append((v, "B"))
    return ops


# ----------------------------------------------------------------------------- canonical observations
# value-level observation strings: "v <int>", "b0"/"b1", "lt/eq/gt", "r <num>/<den>", "nan", "err", "panic", "none", other text
def parse_canon(val):
    """canonical harness text -> python value (ints, lists of), Fraction, 'nan'"""
    val = val.strip()
    if val.startswith("I"):
        return int(val[1:])
    if val.startswith("R"):
        n, d = val[1:].split("/")
        return ("R", int(n), int(d))
    if val == "Fnan":
        return "nan"
    if val.startswith("L["):
        body = val[2:-1]
        items, depth, cur = [], 0, ""
        for ch in body:
            if ch == "[":
                depth += 1
            if ch == "]":
                depth -= 1
            if ch == "," and depth == 0:
                items.append(cur)
                cur = ""
            else:
                cur += ch
        if cur:
            items.append(cur)
        return [parse_canon(x) for x in items]
    return ("?", val)


def obs_of_prog(r):
    st = r.get("status")
    if st == "ok":
        return parse_canon(r["val"])
    return st  # err / panic / parse / hang / abort


def nint_obs(s):
    """'S 5' / 'B 5' -> (5, 'S')"""
    if s and s[0] in "SB" and s[1:2] == " ":
        return int(s[2:]), s[0]
    return s, None


def model_num(s):
    """model builtin-level answer -> (value-level observation, rep)"""
    if s.startswith("ok R "):
        v, rp = nint_obs(s[5:])
        return ("recip", v), rp
    if s == "ok nan":
        return "nan", None
    if s.startswith("ok "):
        v, rp = nint_obs(s[3:])
        return v, rp
    return s, None   # err / panic / fuel


# ----------------------------------------------------------------------------- Python oracle
def tquot(a, b):
    q = abs(a) // abs(b)
    return q if (a >= 0) == (b >= 0) else -q


def trem(a, b):
    return a - b * tquot(a, b)


def sgn(a):
    return (a > 0) - (a < 0)


def lcm(a, b):
    return 0 if a == 0 or b == 0 else abs(a * b) // math.gcd(a, b)


def recip_obs(r):
    """observation for 1/r as the harness prints a BigRational"""
    f = Fraction(1, r)
    return ("R", f.numerator, f.denominator)


def shift_ok(b):
    return 0 <= b <= 4096


def pow_ok(a, b):
    if a == 0 and b < 0:
        return False          # reciprocal of zero: F10 (C14), mathematically undefined
    if abs(a) <= 1:
        return abs(b) < 2 ** 70
    return abs(b) * a.bit_length() <= 6000 and abs(b) < 2 ** 31


LANG_BIN = [  # (key, source template, model key)
    ("+", "a + b", "bi_add"), ("-", "a - b", "bi_sub"), ("*", "a * b", "bi_mul"), ("%", "a % b", "bi_rem"),
    ("//", "a // b", "bi_div_floor"), ("%%", "a %% b", "bi_mod_floor"), ("/!", "a /! b", "bi_div_exact"),
    ("&", "a & b", "bi_and"), ("|", "a | b", "bi_or"), ("~", "a ~ b", "bi_xor"),
    ("gcd", "a gcd b", "bi_gcd"), ("lcm", "lcm(a, b)", "bi_lcm"),
    ("==", "a == b", "eq"), ("!=", "a != b", "ne"), ("<", "a < b", "lt"), ("<=", "a <= b", "le"),
    (">", "a > b", "gt"), (">=", "a >= b", "ge"), ("<=>", "a <=> b", "cmp"),
    ("min", "min(a, b)", "min"), ("max", "max(a, b)", "max"),
    ("identity", "(a // b) * b + (a %% b) == a", "identity"),
    ("^", "a ^ b", "bi_pow"), ("<<", "a << b", "bi_shl"), (">>", "a >> b", "bi_shr"),
]


def lang_oracle(key, a, b):
    if key == "+":
        return a + b
    if key == "-":
        return a - b
    if key == "*":
        return a * b
    if key == "%":
        return "err" if b == 0 else trem(a, b)
    if key == "//":
        return "err" if b == 0 else a // b
    if key == "%%":
        return "err" if b == 0 else a % b
    if key == "/!":
        return "err" if b == 0 or a % b != 0 else a // b
    if key == "&":
        return a & b
    if key == "|":
        return a | b
    if key == "~":
        return a ^ b
    if key == "gcd":
        return math.gcd(a, b)
    if key == "lcm":
        return lcm(a, b)
    if key == "==":
        return int(a == b)
    if key == "!=":
        return int(a != b)
    if key == "<":
        return int(a < b)
    if key == "<=":
        return int(a <= b)
    if key == ">":
        return int(a > b)
    if key == ">=":
        return int(a >= b)
    if key == "<=>":
        return sgn(a - b)
    if key == "min":
        return min(a, b)
    if key == "max":
        return max(a, b)
    if key == "identity":
        return "err" if b == 0 else 1
    if key == "^":
        return a ** b if b >= 0 else recip_obs(a ** (-b))
    if key == "<<":
        return a << b if b >= 0 else "any"
    if key == ">>":
        return a >> b if b >= 0 else "any"
    raise KeyError(key)


def lang_model(key, mkey, m, a, b):
    """value-level answer of the Coq model for a language-level statement"""
    if mkey.startswith("bi_"):
        if mkey not in m:
            return None, None
        o, rp = model_num(m[mkey])
        if isinstance(o, tuple) and o[0] == "recip":
            o = recip_obs(o[1]) if o[1] != 0 else "undef"
        return o, rp
    tr = {"b0": 0, "b1": 1}
    if mkey in ("eq", "lt", "le", "gt", "ge"):
        return tr[m[mkey]], "S"
    if mkey == "ne":
        return 1 - tr[m["eq"]], "S"
    if mkey == "cmp":
        return {"lt": -1, "eq": 0, "gt": 1}[m["cmp"]], "S"
    if mkey == "min":   # NNum::min: other when self > other
        return (b if m["cmp"] == "gt" else a), None
    if mkey == "max":   # NNum::max: self when self > other
        return (a if m["cmp"] == "gt" else b), None
    if mkey == "identity":
        q, _ = model_num(m["bi_div_floor"])
        r, _ = model_num(m["bi_mod_floor"])
        if q == "err" or r == "err":
            return "err", None
        return int(q * b + r == a), "S"
    return None, None


LANG_UN = [("neg", "-a", "bi_neg"), ("neg2", "0 - a", None), ("not", "~a", "bi_not"), ("abs", "abs(a)", "bi_abs"),
           ("signum", "signum(a)", "bi_signum"), ("even", "even(a)", "bi_even"), ("odd", "odd(a)", "bi_odd")]


def un_oracle(key, a):
    return {"neg": -a, "neg2": -a, "not": ~a, "abs": abs(a), "signum": sgn(a), "even": int(a % 2 == 0), "odd": int(a % 2 == 1)}[key]


def direct_pair_oracle(key, a, b):
    base = key.split("/")[0]
    if base in ("div", "rem", "div_floor", "mod_floor") and b == 0:
        return "any"        # NInt-level contract: callers guard (the builtins do); the model says Panic
    if base == "add":
        return a + b
    if base == "sub":
        return a - b
    if base == "mul":
        return a * b
    if base == "div":
        return tquot(a, b)
    if base == "rem":
        return trem(a, b)
    if base == "and":
        return a & b
    if base == "or":
        return a | b
    if base == "xor":
        return a ^ b
    if base == "eq":
        return "b1" if a == b else "b0"
    if base in ("cmp", "pcmp"):
        return ["lt", "eq", "gt"][sgn(a - b) + 1]
    if base == "lt":
        return "b1" if a < b else "b0"
    if base == "gt":
        return "b1" if a > b else "b0"
    if base == "div_floor":
        return a // b
    if base == "mod_floor":
        return a % b
    if base == "gcd":
        return math.gcd(a, b)
    if base == "lcm":
        return lcm(a, b)
    if base == "powr":
        return ("powr", int(b < 0), a ** abs(b))
    if base == "shl":
        return a << b
    if base == "shr":
        return a >> b
    raise KeyError(key)


def le_hex(v):
    return (v % U64).to_bytes(8, "little").hex()


def direct_un_oracle(key, a):
    base = key.split("/")[0]
    b01 = lambda x: "b1" if x else "b0"
    if base == "neg":
        return -a
    if base == "not":
        return ~a
    if base == "abs":
        return abs(a)
    if base == "signum":
        return sgn(a)
    if base == "sign":
        return ["Minus", "NoSign", "Plus"][sgn(a) + 1]
    if base == "is_zero":
        return b01(a == 0)
    if base == "is_positive":
        return b01(a > 0)
    if base == "is_negative":
        return b01(a < 0)
    if base == "to_i64":
        return str(a) if in_i64(a) else "none"
    if base == "to_usize":
        return str(a) if 0 <= a < U64 else "none"
    if base == "lte1":
        return b01(a <= 1)
    if base == "lte3":
        return b01(a <= 3)
    if base == "of_big":
        return a
    if base == "hash":
        return "any"      # the byte layout is internal; what the property needs is checked across representations (hash_streams)
    if base == "sqrt":
        return math.isqrt(a) if a >= 0 else "any"
    if base == "is_prime":
        return b01(py_is_prime(a))
    if base == "factorize":
        return " ".join(f"{p}^{e}" for p, e in py_factorize(a))
    if base.startswith("pow"):
        return a ** int(base[3:])
    raise KeyError(key)


# primality / factorisation oracle (independent of the model: Miller-Rabin + trial division)
def py_is_prime(n):
    if n < 2:
        return False
    small = (2, 3, 5, 7, 11, 13, 17, 19, 23, 29, 31, 37)
    for p in small:
        if n % p == 0:
            return n == p
    d, s = n - 1, 0
    while d % 2 == 0:
        d //= 2
        s += 1
    for a in small:          # deterministic below 3.3e24; beyond that a strong probable-prime test
        x = pow(a, d, n)
        if x in (1, n - 1):
            continue
        for _ in range(s - 1):
            x = x * x % n
            if x == n - 1:
                break
        else:
            return False
    return True


def py_factorize(n, bound=None):
    """[(p, e)] in the order the implementation lists them (-1 first, then increasing primes); None if not fully factored below bound"""
    out = []
    if n == 0:
        return out
    if n < 0:
        out.append((-1, 1))
        n = -n
    f = 2
    while f * f <= n:
        if bound is not None and f > bound:
            return None
        e = 0
        while n % f == 0:
            n //= f
            e += 1
        if e:
            out.append((f, e))
        f += 1 if f == 2 else 2
    if n > 1:
        out.append((n, 1))
    return out


def prime_testable(v, bound):
    """does lazy_is_prime(v) / lazy_factorize(v) terminate within ~bound trial divisions?"""
    n = abs(v)
    if v <= 3:
        ip = True
    else:
        ip = n <= bound * bound or any(n % p == 0 for p in range(2, 2000)) or smallest_factor(n, bound) is not None
    fz = py_factorize(v, bound) is not None
    return ip, fz


def smallest_factor(n, bound):
    f = 2
    while f <= bound and f * f <= n:
        if n % f == 0:
            return f
        f += 1 if f == 2 else 2
    return None


# ----------------------------------------------------------------------------- running
def run_c06(cases, timeout=30.0):
    for i, c in enumerate(cases):
        c["id"] = i
    return common.run_harness(common.harness_bin("c06"), cases, timeout=timeout)


def run_three(runner, dcases, pcases, mlines, timeout=30.0):
    """the NInt-level cases, the language-level cases and the model lines, concurrently"""
    import threading
    out = {}
    def w(k, f):
        out[k] = f()
    ts = [threading.Thread(target=w, args=("d", lambda: run_c06(dcases, timeout))),
          threading.Thread(target=w, args=("p", lambda: run_c06(pcases, timeout))),
          threading.Thread(target=w, args=("m", lambda: common.run_model(runner, mlines, shards=min(common.NPROC, max(1, len(mlines) // 20))) if runner else [None] * len(mlines)))]
    [t.start() for t in ts]
    [t.join() for t in ts]
    return out["d"], out["p"], out["m"]


def parse_model_line(line):
    out = {}
    for kv in line.split(";"):
        if "=" in kv:
            k, v = kv.split("=", 1)
            out[k] = v
    if not out:
        out["_raw"] = line
    return out


class Tally:
    def __init__(self, ctx):
        self.ctx = ctx
        self.evals = 0
        self.nontrivial = set()
        self.by_op = {}
        self.rep_seen = 0
        self.rep_mismatch = []
        self.bad = []            # (kind, replay dict)
        self.samples = []
        self.outcomes = {}
        self.seen_keys = set()
        self.hash_model_seen = 0
        self.hash_model_agree = 0

    def judge(self, layer, op, args, impl, model, oracle, replay, impl_rep=None, model_rep=None, nontrivial=True, msg=None):
        """impl/model/oracle are value-level observations; oracle 'any' = no opinion; model None = not modelled"""
        self.evals += 1
        self.by_op[op] = self.by_op.get(op, 0) + 1
        kind = impl if isinstance(impl, str) and impl in ("err", "panic", "nan", "none", "hang", "abort", "parse", "b0", "b1", "lt", "eq", "gt") else \
            ("text" if isinstance(impl, str) else "value")
        lo = self.outcomes.setdefault(layer, {})
        lo[kind] = lo.get(kind, 0) + 1
        if nontrivial:
            self.nontrivial.add((op.split("/")[0], args))
        if impl_rep is not None and model_rep is not None and impl_rep in "SB" and len(impl_rep) == 1:
            self.rep_seen += 1
            if impl_rep != model_rep and len(self.rep_mismatch) < 20:
                self.rep_mismatch.append({"layer": layer, "op": op, "args": [str(x) for x in args], "impl": impl_rep, "model": model_rep})
        crashed = impl in ("panic", "hang", "abort", "parse", "badjson", "badcase", "empty")
        verdict = None
        if oracle != "any" and impl != oracle:
            verdict = "property"
        elif crashed and not (oracle == "any" and model == "panic" and impl == "panic"):
            verdict = "property"
        elif model is not None and model != "fuel" and impl != model:
            verdict = "correspondence"
        if verdict:
            key = (verdict, layer, op.split("/")[0])
            rec = dict(replay)
            rec.update({"layer": layer, "operator": op, "operands": [str(x) for x in args], "implementation": repr(impl),
                        "implementation_msg": msg, "coq_model": repr(model), "python_oracle": repr(oracle)})
            if key not in self.seen_keys:
                self.seen_keys.add(key)
                self.bad.append((verdict, rec))
        elif len(self.samples) < 400 and self.evals % 997 == 0:
            self.samples.append({"layer": layer, "operator": op, "operands": [str(x)[:80] for x in args],
                                 "implementation": str(impl)[:120], "coq_model": str(model)[:120], "python_oracle": str(oracle)[:120]})


def nontriv(*ops):
    """an operand tuple is non-trivial when some operand is in Big representation or lies outside [-2^31, 2^31)"""
    return any(r == "B" or not (-2 ** 31 <= v < 2 ** 31) for v, r in ops)


def model_pair_line(a, ra, b, rb, pw, sh):
    return f"pair {ra} {a} {rb} {b} {int(pw)} {int(sh)}"


def do_pairs(ctx, runner, T, pairs, prod_ok):
    """layers B and C for a list of ((a,ra),(b,rb))"""
    rng = ctx.rng
    dcases, pcases, mlines, meta = [], [], [], []
    for (a, ra), (b, rb) in pairs:
        pw, sh = pow_ok(a, b), shift_ok(b)
        dcases.append({"mode": "pair", "a": str(a), "ra": ra, "b": str(b), "rb": rb, "pow": pw, "shift": sh})
        pa = rng.choice(prod_ok[(a, ra)]) if prod_ok.get((a, ra)) else None
        pb = rng.choice(prod_ok[(b, rb)]) if prod_ok.get((b, rb)) else None
        stmts, keys = [], []
        if pa and pb:
            stmts = [f"a := {pa[1]}", f"b := {pb[1]}"]
            for key, src, mkey in LANG_BIN:
                if key == "^" and not pw:
                    continue
                if key in ("<<", ">>") and not sh and not b < 0:
                    continue
                stmts.append(src)
                keys.append((key, src, mkey))
        pcases.append({"mode": "prog", "stmts": stmts})
        # Coq's Z.pow iterates |b| times: the model evaluates `^` only for |b| <= 4096 (larger exponents, reached for |a| <= 1, go to the oracle only)
        mlines.append(model_pair_line(a, ra, b, rb, pw and abs(b) <= 4096, sh or b < 0))
        meta.append((a, ra, b, rb, pa, pb, keys))
    dres, pres, mres = run_three(runner, dcases, pcases, mlines)
    for (a, ra, b, rb, pa, pb, keys), dr, pr, ml, dc, pc in zip(meta, dres, pres, mres, dcases, pcases):
        m = parse_model_line(ml) if ml is not None else None
        nt = nontriv((a, ra), (b, rb))
        args = (a, ra, b, rb)
        # layer C
        if dr.get("status") != "ok":
            T.judge("nint", "harness", args, dr.get("status"), None, "any", {"case": dc}, msg=dr.get("msg"))
        else:
            for k, s in sorted(dr["r"].items()):
                base = k.split("/")[0]
                orc = direct_pair_oracle(k, a, b)
                if base == "powr":
                    f, rest = s.split(" ", 1) if s != "panic" else ("", "panic")
                    v, rp = nint_obs(rest)
                    impl = ("powr", int(f), v) if rest != "panic" else "panic"
                    mo, mrp = None, None
                    if m and "powr" in m:
                        mf, mrest = m["powr"].split(" ", 1)
                        mv, mrp = nint_obs(mrest)
                        mo = ("powr", int(mf), mv)
                else:
                    impl, rp = nint_obs(s)
                    mo, mrp = (None, None)
                    mk_ = "cmp" if base == "pcmp" else base
                    if m and mk_ in m:
                        mo, mrp = nint_obs(m[mk_])
                T.judge("nint", k, args, impl, mo, orc, {"case": dc, "model_line": ml}, rp, mrp, nt)
        # layer B
        rs = pr.get("results") if isinstance(pr, dict) else None
        if stmts_failed(pr, rs, 2 + len(keys)):
            if pa and pb:
                T.judge("lang", "harness", args, pr.get("status", "short"), None, "any", {"case": pc}, msg=pr.get("msg"))
            continue
        if not keys:
            continue
        for j, (key, src, mkey) in enumerate(keys):
            r = rs[2 + j]
            impl = obs_of_prog(r)
            orc = lang_oracle(key, a, b)
            mo, mrp = lang_model(key, mkey, m, a, b) if m else (None, None)
            T.judge("lang", key, args, impl, mo, orc,
                    {"case": {"mode": "prog", "stmts": [pc["stmts"][0], pc["stmts"][1], src]}, "model_line": ml,
                     "program": f"{pc['stmts'][0]}; {pc['stmts'][1]}; {src}"},
                    r.get("rep"), mrp, nt, msg=r.get("msg"))


def stmts_failed(pr, rs, want):
    return rs is None or len(rs) != want or (want >= 2 and any(r.get("status") != "ok" for r in rs[:2]))


def do_unary(ctx, runner, T, ops, prod_ok, bound):
    dcases, pcases, mlines, meta = [], [], [], []
    rng = ctx.rng
    for (a, ra) in ops:
        ip, fz = prime_testable(a, bound)
        pows = [0, 1, 2, 3, 5, 17] if a.bit_length() <= 400 else [0, 1, 2]
        dcases.append({"mode": "un", "a": str(a), "ra": ra, "prime": bool(ip), "factorize": bool(fz), "pows": pows})
        prods = prod_ok.get((a, ra)) or []
        stmts, keys = [], []
        if prods:
            pa = rng.choice(prods)
            stmts = [f"a := {pa[1]}"]
            for key, src, mkey in LANG_UN:
                stmts.append(src)
                keys.append((key, src, mkey))
            if ip:
                stmts.append("is_prime(a)")
                keys.append(("is_prime", "is_prime(a)", "bi_is_prime"))
            if fz:
                stmts.append("factorize(a)")
                keys.append(("factorize", "factorize(a)", "factorize"))
        pcases.append({"mode": "prog", "stmts": stmts})
        mlines.append(f"un {ra} {a} {int(ip)} {int(fz)} {bound} " + ",".join(map(str, pows)))
        meta.append((a, ra, keys, ip, fz))
    dres, pres, mres = run_three(runner, dcases, pcases, mlines, timeout=60.0)
    hash_streams = {}
    for (a, ra, keys, ip, fz), dr, pr, ml, dc, pc in zip(meta, dres, pres, mres, dcases, pcases):
        m = parse_model_line(ml) if ml is not None else None
        nt = nontriv((a, ra))
        args = (a, ra)
        if dr.get("status") != "ok":
            T.judge("nint", "harness", args, dr.get("status"), None, "any", {"case": dc}, msg=dr.get("msg"))
        else:
            for k, s in sorted(dr["r"].items()):
                base = k.split("/")[0]
                orc = direct_un_oracle(k, a)
                impl, rp = nint_obs(s)
                mo, mrp = None, None
                if m and base in m:
                    mo, mrp = nint_obs(m[base])
                if base == "hash":
                    impl = ("hash", s)
                    hash_streams.setdefault(a, {})[ra] = s
                    if mo is not None and mo.startswith("i64:"):
                        T.hash_model_seen += 1
                        T.hash_model_agree += int(s == le_hex(int(mo[4:])))   # statistic only: the model writes one i64
                    mo = None
                T.judge("nint", k, args, impl, mo, orc, {"case": dc, "model_line": ml}, rp, mrp, nt)
        rs = pr.get("results") if isinstance(pr, dict) else None
        if not keys:
            continue
        if rs is None or len(rs) != 1 + len(keys) or rs[0].get("status") != "ok":
            T.judge("lang", "harness", args, pr.get("status", "short") if isinstance(pr, dict) else "short", None, "any", {"case": pc}, msg=str(pr)[:300])
            continue
        for j, (key, src, mkey) in enumerate(keys):
            r = rs[1 + j]
            impl = obs_of_prog(r)
            mo, mrp = None, None
            if key == "is_prime":
                orc = int(py_is_prime(a))
                if m and "bi_is_prime" in m:
                    mo, mrp = model_num(m["bi_is_prime"])
            elif key == "factorize":
                orc = [[p, e] for p, e in py_factorize(a)]
                if m and "factorize" in m and m["factorize"] not in ("fuel", "panic"):
                    mo = [[int(x.split("^")[0]), int(x.split("^")[1])] for x in m["factorize"].split()]
            else:
                orc = un_oracle(key, a)
                if mkey and m and mkey in m:
                    mo, mrp = model_num(m[mkey])
            T.judge("lang", key, args, impl, mo, orc,
                    {"case": {"mode": "prog", "stmts": [pc["stmts"][0], src]}, "model_line": ml, "program": f"{pc['stmts'][0]}; {src}"},
                    r.get("rep"), mrp, nt, msg=r.get("msg"))
    judge_hash_streams(T, hash_streams)


def judge_hash_streams(T, hash_streams):
    """equal integers must write equal hasher streams whatever their representation (what dict lookup relies on)"""
    for v, by_rep in hash_streams.items():
        if len(by_rep) == 2:
            same = by_rep["S"] == by_rep["B"]
            T.judge("nint", "hash-repr-indep", (v, "S+B"), "b1" if same else "b0", "b1", "b1",
                    {"case": {"mode": "un", "a": str(v), "ra": "B", "prime": False, "pows": []},
                     "what_differs": by_rep})


def check_producers(ctx, T, ops):
    """layer A: which in-language expressions produce (value, representation) as claimed"""
    cases, meta = [], []
    for (v, rep) in ops:
        for name, expr in producers(v, rep):
            cases.append({"mode": "prog", "stmts": [expr]})
            meta.append((v, rep, name, expr))
    res = run_c06(cases)
    prod_ok, stats = {}, {}
    for (v, rep, name, expr), r, c in zip(meta, res, cases):
        rs = r.get("results") or [{"status": r.get("status", "short")}]
        impl = obs_of_prog(rs[0])
        T.judge("producer", "operand:" + name, (v, rep), impl, None, v, {"case": c, "program": expr}, nontrivial=nontriv((v, rep)), msg=rs[0].get("msg"))
        good = impl == v and rs[0].get("rep") == rep
        st = stats.setdefault(name, {"ok": 0, "other_representation": 0})
        if impl == v:
            st["ok" if good else "other_representation"] += 1
        if good:
            prod_ok.setdefault((v, rep), []).append((name, expr))
    return prod_ok, stats


def prime_sweep(ctx, runner, T, lo, hi, bound):
    """layer D: is_prime / factorize on every integer of [lo, hi) in both representations"""
    vals = list(range(lo, hi))
    chunks = [vals[i:i + 250] for i in range(0, len(vals), 250)]
    cases = []
    for ch in chunks:
        ls = "[" + ",".join(lit(v) for v in ch) + "]"
        cases.append({"mode": "prog", "fuel": 50_000_000, "stmts": [
            f"xs := {ls}", "xs map is_prime", "xs map (\\x -> is_prime(x // 1))", "xs map factorize", "xs map (\\x -> factorize(x // 1))"]})
    res = run_c06(cases, timeout=120.0)
    sweep_fuel = 2000   # the loops run sqrt(v)/6 times
    mlines = [f"un S {v} 1 1 {sweep_fuel} -" for v in vals] + [f"un B {v} 1 1 {sweep_fuel} -" for v in vals]
    mres = common.run_model(runner, mlines) if runner else [None] * len(mlines)
    mS = [parse_model_line(x) if x else None for x in mres[:len(vals)]]
    mB = [parse_model_line(x) if x else None for x in mres[len(vals):]]
    pos = 0
    for ch, r, c in zip(chunks, res, cases):
        rs = r.get("results") if isinstance(r, dict) else None
        if rs is None or len(rs) != 5 or any(x.get("status") != "ok" for x in rs):
            T.judge("lang", "prime-sweep", (ch[0], ch[-1]), str([x.get("status") for x in (rs or [])]) or "short", None, "any", {"case": c}, msg=str(r)[:300])
            pos += len(ch)
            continue
        got = [obs_of_prog(x) for x in rs[1:]]
        for j, v in enumerate(ch):
            for rep, mm, gi, gf in (("S", mS[pos + j], got[0], got[2]), ("B", mB[pos + j], got[1], got[3])):
                mo = model_num(mm["bi_is_prime"])[0] if mm and "bi_is_prime" in mm else None
                T.judge("lang", "is_prime", (v, rep), gi[j], mo, int(py_is_prime(v)), {"case": {"mode": "prog", "stmts": [f"is_prime({lit(v)}" + (" // 1)" if rep == "B" else ")")]}}, nontrivial=(rep == "B"))
                mo = None
                if mm and "factorize" in mm and mm["factorize"] not in ("fuel", "panic"):
                    mo = [[int(x.split("^")[0]), int(x.split("^")[1])] for x in mm["factorize"].split()]
                T.judge("lang", "factorize", (v, rep), gf[j], mo, [[p, e] for p, e in py_factorize(v)],
                        {"case": {"mode": "prog", "stmts": [f"factorize({lit(v)}" + (" // 1)" if rep == "B" else ")")]}}, nontrivial=(rep == "B"))
        pos += len(ch)


def report(ctx, T):
    for verdict, rec in T.bad:
        if verdict == "property":
            rec["what"] = "the implementation's answer differs from exact integer arithmetic (Python integers) on this input, or it panicked"
            ctx.violation("property", rec, found=True)
        else:
            rec["what"] = ("correspondence Num/NInt.v <-> implementation no longer checks on this input; the Python oracle accepts (or has no opinion on) "
                           "the implementation's answer, so no input violating the property statement was found")
            ctx.violation("correspondence", rec, found=False)


def correspondence(ctx, runner, T):
    """layers A-D; everything is recorded in T"""
    rng = ctx.rng
    if ctx.quick():
        values = quick_pool(rng)
    else:
        values = base_values() + random_values(rng, 30, 2000)
    values = list(dict.fromkeys(values))
    ops = operands(values)
    bound = ctx.n(60_000, 1_000_000)
    import time
    t0 = time.time()
    prod_ok, prod_stats = check_producers(ctx, T, ops)
    common.log(f"[C06] producers checked in {time.time() - t0:.1f}s")
    pairs = [(x, y) for x in ops for y in ops]
    extra = []
    if not ctx.quick():
        big = random_values(rng, 200, 2000)
        for _ in range(12000):
            x, y = rng.choice(big + values), rng.choice(big + values)
            extra.append(((x, rng.choice("SB") if in_i64(x) else "B"), (y, rng.choice("SB") if in_i64(y) else "B")))
    t0 = time.time()
    do_pairs(ctx, runner, T, pairs + extra, prod_ok)
    common.log(f"[C06] {len(pairs) + len(extra)} pairs in {time.time() - t0:.1f}s")
    # unary: pool + semiprimes / primes whose trial division is short
    un_ops = list(ops)
    for v in (2 ** 31 - 1, 2 ** 32 + 1, 1_000_003, 999_983 * 1_000_003 if not ctx.quick() else 1009 * 1013, 2 ** 61 - 1,
              (2 ** 64 + 13) * 3, 59_999 * 60_013 if ctx.quick() else 999_983 * 999_979, -(2 ** 40) * 3 ** 5 * 1013, 2 ** 200 * 3 ** 50):
        un_ops += [(v, "B")] + ([(v, "S")] if in_i64(v) else [])
    un_ops = list(dict.fromkeys(un_ops))
    t0 = time.time()
    do_unary(ctx, runner, T, un_ops, prod_ok, bound)
    common.log(f"[C06] {len(un_ops)} unary operands in {time.time() - t0:.1f}s")
    t0 = time.time()
    prime_sweep(ctx, runner, T, -20, ctx.n(3000, 100_000), bound)
    common.log(f"[C06] prime sweep in {time.time() - t0:.1f}s")
    return {"values": values, "ops": ops, "pairs": pairs, "extra": extra, "prod_stats": prod_stats}


def run(ctx):
    runner = common.standard_prelude(ctx)
    T = Tally(ctx)
    info = correspondence(ctx, runner, T)
    values, ops, pairs, extra, prod_stats = info["values"], info["ops"], info["pairs"], info["extra"], info["prod_stats"]
    report(ctx, T)
    ctx.coverage.update({
        "evaluations": T.evals, "distinct_nontrivial": len(T.nontrivial), "exhaustive": False,
        "rule": "one evaluation = one operator applied to one operand tuple in one layer/variant (language statement, or NInt method variant through the hook), "
                "compared with the Coq model and the Python oracle. distinct by (operator, operand values and representations); non-trivial = some operand is in "
                "Big representation or lies outside [-2^31, 2^31) (for the prime sweep: the operand is in Big representation)",
        "pool_values": len(values), "pool_operands": len(ops), "pairs": len(pairs) + len(extra),
        "pool_magnitudes": {"<2^31": sum(1 for v in values if abs(v) < 2 ** 31), "2^31..2^62": sum(1 for v in values if 2 ** 31 <= abs(v) < 2 ** 62),
                            "2^62..2^65": sum(1 for v in values if 2 ** 62 <= abs(v) <= 2 ** 65), ">2^65": sum(1 for v in values if abs(v) > 2 ** 65),
                            "max_bits": max(v.bit_length() for v in values)},
        "by_operator": dict(sorted(T.by_op.items())),
        "impl_outcomes": T.outcomes,
        "impl_outcomes_note": "the only panics are NInt-level / % div_floor mod_floor called directly with a zero divisor (the model says Panic there too; "
                              "the builtins guard them); the language layer has none",
        "producers": prod_stats,
        "representation_compared": T.rep_seen, "representation_mismatches": T.rep_mismatch,
        "hash_stream_is_one_i64_as_modelled": f"{T.hash_model_agree}/{T.hash_model_seen}",
        "samples": T.samples[:40],
    })
    if T.rep_mismatch:
        common.log(f"[C06] note: {len(T.rep_mismatch)} result representations differ from the model (values agree; not a verdict): {T.rep_mismatch[:3]}")
    ctx.assumptions += ["num-bigint's BigInt operations mean the corresponding Z operations (trusted; exercised against Python integers on every run)",
                        "shift counts <= 4096 and exponents with |b| * bits(a) <= 6000 (huge counts: separate class F23); 0 ^ negative excluded (F10)",
                        "is_prime / factorize are run only on inputs whose trial division ends within the stated bound"]
    return common.conclude(ctx)


def replay(ctx, rep):
    runner = common.standard_prelude(ctx)
    c = rep["case"]
    res = run_c06([dict(c)])[0]
    out = {"case": c, "implementation": res}
    if rep.get("model_line") and runner:
        out["coq_model"] = common.run_model(runner, [rep["model_line"]])[0]
    out["recorded_python_oracle"] = rep.get("python_oracle")
    out["recorded_implementation"] = rep.get("implementation")
    print(json.dumps(out)[:6000])
    # the recorded disagreement is re-evaluated for the single operator
    again = repr(extract_obs(rep, res))
    same = again == rep.get("implementation")
    print(json.dumps({"operator": rep.get("operator"), "implementation_now": again, "still_disagrees": same}))
    return 1 if same else 0


def extract_obs(rep, res):
    op = rep.get("operator", "")
    if rep.get("layer") == "nint":
        s = (res.get("r") or {}).get(op)
        if s is None:
            return res.get("status")
        if op.startswith("powr") and s != "panic":
            f, rest = s.split(" ", 1)
            return ("powr", int(f), nint_obs(rest)[0])
        if op == "hash":
            return ("hash", s)
        return nint_obs(s)[0]
    rs = res.get("results") or [{}]
    return obs_of_prog(rs[-1])
