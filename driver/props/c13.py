"""C13 - the sequence library matches its executable specification.

Correspondence: every builtin of the property's list is called on an exhaustive bounded grid of
inputs (function x input kind x length x small parameters x functions of a closed family); each
case runs through (1) the implementation (bin/prog, program `x := INPUT; r := CALL; [r, x]` so an
alias of every argument is re-read after the call), (2) the Coq specification Seq/SeqLib.v +
Seq/SeqVal.v extracted to OCaml (ocaml/c13.ml), (3) an independent Python reference written with
Python's own list/str/itertools semantics, which decides on a disagreement whether the
implementation (property violation, failing input found) or only the Coq spec is off.
"""
import itertools, json, functools
import common

ID = "C13"
MANIFEST = dict(
    technique="Coq proofs about an executable Gallina specification (unbounded lists) + exhaustive bounded-grid correspondence "
              "implementation / extracted specification / independent Python reference",
    text="Seq/SeqLib.v gives a one-line Gallina definition for every builtin named by the property (about 70 call forms); Props/C13.v proves, for "
         "lists of any length over any element type, that this specification has the properties that make it the intended one (sort: sorted stable "
         "permutation; unique: first occurrences in order; filter/reject/partition; window/prefixes/suffixes are the slices; group restores the input; "
         "zip/ziplongest lengths; scan/fold; transpose involutive; flatten.map = flat_map; reverse; frequencies; join/split inverse; cartesian product "
         "order; permutations/combinations/subsequences enumerate exactly the documented sets once each in the documented order; words are the "
         "maximal non-space runs; lines/split-by-n). That each Rust "
         "builtin equals its one-liner is checked on every run by an exhaustive grid (function x list/string/vector/bytes/dict-keys/stream x lengths "
         "0..5 over alphabets with repeats and 1 vs 1.0 x parameters 0,1,len,len+1 x a family of total functions), including the kind of the result and "
         "an alias of every argument re-read after the call.",
    note="The theorems are about the Gallina specification, not about a model of the Rust builtin bodies: builtin = one-liner is differential testing "
         "on the bounded grid (exhaustive up to the stated lengths), decided by an independent Python reference on disagreement. Trusted: Coq kernel, "
         "extraction + OCaml runner, Rust harness, the Python generator/reference. Dict-keyed inputs are compared as multisets. Float elements are "
         "integral-valued only (1.0); rationals/complex/NaN are out of scope here (C07/C08). Error wording is never compared, only raised/not raised.",
    design="6-C13")

# ----------------------------------------------------------------------------- values
# ("N",) ("I", z) ("F", z) ("S", str) ("Q", kind, [vals]) with kind l(ist) v(ector) b(ytes) d(ict keys) t(stream) r(ange stream)
N = ("N",)
from fractions import Fraction
NAN = ("X",)   # the float NaN (only in no-crash cases)
def R(a, b): return ("R", a, b)   # the rational a/b, reduced, b > 1 (reference-only cases: the Gallina value type has no rationals)
def I(z): return ("I", z)
def F(z): return ("F", z)
def S(s): return ("S", s)
def Q(k, l): return ("Q", k, list(l))
def L(l): return ("Q", "l", list(l))


def tok(v):
    t = v[0]
    if t == "N":
        return "N"
    if t in "IF":
        return f"{t} {v[1]}"
    if t == "S":
        return " ".join(["S", str(len(v[1]))] + [str(ord(c)) for c in v[1]])
    k = "t" if v[1] in "rzy" else v[1]
    return " ".join(["Q", k, str(len(v[2]))] + [tok(e) for e in v[2]])


def sstr(s):
    out = []
    for c in s:
        if c == "\\":
            out.append("\\\\")
        elif c == '"':
            out.append('\\"')
        elif c == "\n":
            out.append("\\n")
        elif c == "\r":
            out.append("\\r")
        elif c == "\t":
            out.append("\\t")
        elif ord(c) < 32 or ord(c) >= 127:
            out.append("\\u{%x}" % ord(c))
        else:
            out.append(c)
    return '"' + "".join(out) + '"'


def src(v):
    t = v[0]
    if t == "N":
        return "null"
    if t == "I":
        return str(v[1]) if v[1] >= 0 else f"(0-{-v[1]})"
    if t == "X":
        return "(0.0/0.0)"
    if t == "R":
        return f"({v[1]}/{v[2]})" if v[1] >= 0 else f"((0-{-v[1]})/{v[2]})"
    if t == "F" and isinstance(v[1], Fraction):
        return repr(float(v[1]))
    if t == "F":
        return f"{v[1]}.0" if v[1] >= 0 else f"(0-{-v[1]}.0)"
    if t == "S":
        return sstr(v[1])
    k, l = v[1], v[2]
    body = ", ".join(src(e) for e in l)
    if k == "l":
        return f"[{body}]"
    if k == "v":
        return f"V({body})"
    if k == "b":
        return f"B[{body}]"
    if k == "d":
        return "{" + body + "}"
    if k == "t":
        return f"stream([{body}])"
    if k == "r":  # elements are 1..n
        return f"(1 to {len(l)})"
    if k == "z":  # a stream built by lazy_map
        return f"(stream([{body}]) lazy_map (\\x -> x))"
    if k == "y":  # a stream built by lazy_filter: the sentinel 99 is filtered out again
        inter = ", ".join(t for e in l for t in (src(e), "99"))
        return f"(stream([99{', ' if l else ''}{inter}]) lazy_filter (\\x -> x != 99))"
    raise ValueError(k)


def fbits(z):
    import struct
    return "F%016x" % struct.unpack(">Q", struct.pack(">d", float(z)))[0]


def esc(s):
    out = []
    for c in s:
        if c == "\\":
            out.append("\\\\")
        elif c == '"':
            out.append('\\"')
        elif c == "\n":
            out.append("\\n")
        elif ord(c) < 32 or ord(c) == 127:
            out.append("\\u{%x}" % ord(c))
        else:
            out.append(c)
    return "".join(out)


def canon(v):
    """canonical text the harness prints for this value (dict keys: as the set literal {k,...})"""
    t = v[0]
    if t == "N":
        return "N"
    if t == "I":
        return f"I{v[1]}"
    if t == "X":
        return "Fnan"
    if t == "R":
        return f"R{v[1]}/{v[2]}"
    if t == "F":
        return fbits(v[1])
    if t == "S":
        return 'S"' + esc(v[1]) + '"'
    k, l = v[1], v[2]
    if k == "l":
        return "L[" + ",".join(canon(e) for e in l) + "]"
    if k == "v":
        return "V[" + ",".join(canon(e) for e in l) + "]"
    if k == "b":
        return "B[" + ",".join(str(e[1]) for e in l) + "]"
    if k in "trzy":
        return "T[" + ",".join(canon(e) for e in l) + "]"
    if k == "d":
        return "D{" + ",".join(sorted(canon(e) + ":N" for e in l)) + "}"
    if k == "f":  # frequencies result: entries [k, count], default 0
        return "D{" + ",".join(sorted(canon(e[2][0]) + ":" + canon(e[2][1]) for e in l)) + "|I0}"
    raise ValueError(k)


# ----------------------------------------------------------------------------- canonical text parser (for multiset comparison)
def parse_canon(s):
    """-> nested ("L"|"V"|"B"|"T"|"D", [children]) / atom string; dict children are 'k:v' strings kept sorted already"""
    pos = [0]

    def atom_end(i):
        if s[i] == "S":
            j = i + 2
            while s[j] != '"':
                j += 2 if s[j] == "\\" else 1
            return j + 1
        j = i
        while j < len(s) and s[j] not in ",]}|:":
            j += 1
        return j

    def val():
        i = pos[0]
        c = s[i]
        if c in "LVBT" and i + 1 < len(s) and s[i + 1] == "[":
            pos[0] = i + 2
            ch = []
            if s[pos[0]] == "]":
                pos[0] += 1
                return (c, ch)
            while True:
                if c == "B":
                    j = atom_end(pos[0])
                    ch.append(s[pos[0]:j])
                    pos[0] = j
                else:
                    ch.append(val())
                if s[pos[0]] == ",":
                    pos[0] += 1
                    continue
                assert s[pos[0]] == "]", s[pos[0]:]
                pos[0] += 1
                return (c, ch)
        if c == "D" and s[i + 1] == "{":
            depth, j = 0, i
            instr = False
            while True:
                ch_ = s[j]
                if instr:
                    if ch_ == "\\":
                        j += 1
                    elif ch_ == '"':
                        instr = False
                elif ch_ == '"':
                    instr = True
                elif ch_ in "{[":
                    depth += 1
                elif ch_ in "}]":
                    depth -= 1
                    if depth == 0:
                        break
                j += 1
            pos[0] = j + 1
            return s[i:j + 1]
        j = atom_end(i)
        pos[0] = j
        return s[i:j]

    r = val()
    assert pos[0] == len(s), (s, pos[0])
    return r


def unparse(t):
    if isinstance(t, str):
        return t
    return t[0] + "[" + ",".join(unparse(c) for c in t[1]) + "]"


def msort(t, depth):
    """sort children (as text) down to `depth` levels: multiset comparison"""
    if isinstance(t, str) or depth == 0:
        return t
    ch = [msort(c, depth - 1) for c in t[1]]
    return (t[0], sorted(ch, key=unparse))


# ----------------------------------------------------------------------------- function family
FN1 = {
    "id": "(\\x -> x)",
    "even": "(\\x -> x is int and x % 2 == 0)",
    "lt2": "(\\x -> x is number and x < 2)",
    "neg": "(\\x -> if (x is number) 0 - x else x)",
    "const7": "(\\x -> 7)",
    "fst": "(\\x -> if (x is list and len(x) > 0) first(x) else x)",
    "eq1": "(\\x -> x == 1)",
    "eqa": '(\\x -> x == "a")',
    "geb": '(\\x -> x is str and x >= "b")',
    "dup": "(\\x -> [x, x])",
    "numkey": "(\\x -> if (x is number) x else 0)",
}
FN2 = {
    "pair": "(\\a, b -> [a, b])",
    "add": "(\\a, b -> if (a is number and b is number) a + b else [a, b])",
    "max": "(\\a, b -> if (a is number and b is number and b > a) b else a)",
    "fst2": "(\\a, b -> a)",
    "snd2": "(\\a, b -> b)",
    "eq": "(\\a, b -> a == b)",
    "le": "(\\a, b -> a is number and b is number and a <= b)",
}


def fn2_src(g):
    if isinstance(g, tuple):  # ("cmpon", k, rev)
        k = FN1[g[1]]
        return f"(\\a, b -> {k}(a) {'>=<' if g[2] else '<=>'} {k}(b))"
    return FN2[g]


def fn2_tok(g):
    return f"cmpon {g[1]} {int(g[2])}" if isinstance(g, tuple) else g


# --- Python meaning of the family (independent of the Gallina one)
def is_num(v): return v[0] in "IFR"
def numval(v): return Fraction(v[1], v[2]) if v[0] == "R" else Fraction(v[1])


def exotic(v):
    """contains a value the Gallina value type cannot express (rational, fractional float, NaN)"""
    if v[0] in "RX" or (v[0] == "F" and isinstance(v[1], Fraction)):
        return True
    return v[0] == "Q" and any(exotic(e) for e in v[2])
def vbool(b): return I(1 if b else 0)


def veq(a, b):
    if a[0] == "X" or b[0] == "X":
        return False   # NaN equals nothing
    if is_num(a) and is_num(b):
        return numval(a) == numval(b)
    if a[0] != b[0]:
        return False
    if a[0] == "N":
        return True
    if a[0] == "S":
        return a[1] == b[1]
    return a[1] == b[1] and len(a[2]) == len(b[2]) and all(veq(x, y) for x, y in zip(a[2], b[2]))


class Incomparable(Exception):
    pass


def vcmp(a, b):
    if is_num(a) and is_num(b):
        return (numval(a) > numval(b)) - (numval(a) < numval(b))
    if a[0] == "S" and b[0] == "S":
        return (a[1] > b[1]) - (a[1] < b[1])
    if a[0] == "Q" and b[0] == "Q" and a[1] == b[1]:
        for x, y in zip(a[2], b[2]):
            c = vcmp(x, y)
            if c:
                return c
        return (len(a[2]) > len(b[2])) - (len(a[2]) < len(b[2]))
    raise Incomparable()


def truthy(v):
    if v[0] == "N":
        return False
    if is_num(v):
        return numval(v) != 0
    if v[0] == "S":
        return v[1] != ""
    return len(v[2]) > 0


def add(a, b): return I(a[1] + b[1]) if a[0] == b[0] == "I" else F(a[1] + b[1])
def mul(a, b): return I(a[1] * b[1]) if a[0] == b[0] == "I" else F(a[1] * b[1])


def app1(f, x):
    if f == "id":
        return x
    if f == "even":
        return vbool(x[0] == "I" and x[1] % 2 == 0)
    if f == "lt2":
        return vbool(is_num(x) and numval(x) < 2)
    if f == "neg":
        return (x[0], -x[1]) if is_num(x) else x
    if f == "const7":
        return I(7)
    if f == "fst":
        return x[2][0] if x[0] == "Q" and x[1] == "l" and x[2] else x
    if f == "eq1":
        return vbool(veq(x, I(1)))
    if f == "eqa":
        return vbool(veq(x, S("a")))
    if f == "geb":
        return vbool(x[0] == "S" and x[1] >= "b")
    if f == "dup":
        return L([x, x])
    if f == "numkey":
        return x if is_num(x) else I(0)
    raise ValueError(f)


def app2(g, a, b):
    if isinstance(g, tuple):
        c = vcmp(app1(g[1], a), app1(g[1], b))
        return I(-c if g[2] else c)
    both = is_num(a) and is_num(b)
    if g == "pair":
        return L([a, b])
    if g == "add":
        return add(a, b) if both else L([a, b])
    if g == "max":
        return b if both and b[1] > a[1] else a
    if g == "fst2":
        return a
    if g == "snd2":
        return b
    if g == "eq":
        return vbool(veq(a, b))
    if g == "le":
        return vbool(both and a[1] <= b[1])
    raise ValueError(g)


# ----------------------------------------------------------------------------- Python reference
class Raises(Exception):
    pass


# Unicode White_Space (Rust char::is_whitespace); note that Python's str.split() also splits at U+001C..1F
WHITE_SPACE = set(map(chr, [9, 10, 11, 12, 13, 32, 0x85, 0xA0, 0x1680, 0x2028, 0x2029, 0x202F, 0x205F, 0x3000] + list(range(0x2000, 0x200B))))


def elems(v):
    if v[0] == "S":
        return [S(c) for c in v[1]]
    if v[0] == "Q":
        return list(v[2])
    raise Raises()


def like(x, l):
    """a sequence of the same type as x"""
    if x[0] == "S":
        return S("".join(e[1] for e in l))
    if x[1] in "vb":
        return Q(x[1], l)
    return L(l)


def stable_sorted(l, cmp):
    def c(a, b):
        return cmp(a, b)
    try:
        # any incomparable pair at all makes a sort raise (a comparison sort must meet it)
        for a in l:
            for b in l:
                cmp(a, b)
        return sorted(l, key=functools.cmp_to_key(c))
    except Incomparable:
        raise Raises()


def uniq(l):
    out = []
    for e in l:
        if not any(veq(e, o) for o in out):
            out.append(e)
    return out


def pyref(name, params, args):
    """independent reference: returns a value (tuples above) or raises Raises; None = no opinion"""
    x = args[0] if args else None
    l = elems(x) if x is not None else None
    p = params
    if name == "map": return L([app1(p[0], e) for e in l])
    if name == "filter": return like(x, [e for e in l if truthy(app1(p[0], e))])
    if name == "reject": return like(x, [e for e in l if not truthy(app1(p[0], e))])
    if name == "partition":
        return L([like(x, [e for e in l if truthy(app1(p[0], e))]), like(x, [e for e in l if not truthy(app1(p[0], e))])])
    if name == "flat_map": return L([y for e in l for y in elems(app1(p[0], e))])
    if name == "flatten": return L([y for e in l for y in elems(e)])
    if name == "each": return L(l)
    if name == "count": return I(sum(1 for e in l if truthy(app1(p[0], e))))
    if name == "count_truthy": return I(sum(1 for e in l if truthy(e)))
    if name == "count_eq": return I(sum(1 for e in l if veq(e, p[0])))
    if name == "any": return vbool(any(truthy(app1(p[0], e)) for e in l))
    if name == "all": return vbool(all(truthy(app1(p[0], e)) for e in l))
    if name == "any_truthy": return vbool(any(truthy(e) for e in l))
    if name == "all_truthy": return vbool(all(truthy(e) for e in l))
    if name in ("find", "findq", "find_eq", "locate", "locateq", "locate_eq"):
        test = (lambda e: veq(e, p[0])) if name.endswith("_eq") else (lambda e: truthy(app1(p[0], e)))
        for i, e in enumerate(l):
            if test(e):
                return e if name.startswith("find") else I(i)
        if name in ("findq", "locateq"):
            return N
        raise Raises()
    if name == "take_while": return like(x, list(itertools.takewhile(lambda e: truthy(app1(p[0], e)), l)))
    if name == "drop_while":
        r = list(itertools.dropwhile(lambda e: truthy(app1(p[0], e)), l))
        return Q("t", r) if x[0] == "Q" and x[1] in "trzy" else like(x, r)
    if name == "zip": return L([L(t) for t in zip(*[elems(a) for a in args])])
    if name == "zip_with": return L([app2(p[0], a, b) for a, b in zip(elems(args[0]), elems(args[1]))])
    if name in ("ziplongest", "ziplongest_with"):
        miss = object()
        rows = [[e for e in t if e is not miss] for t in itertools.zip_longest(*[elems(a) for a in args], fillvalue=miss)]
        if name == "ziplongest":
            return L([L(r) for r in rows])
        return L([functools.reduce(lambda a, b: app2(p[0], a, b), r) for r in rows])
    if name == "pairwise": return L([app2(p[0], a, b) for a, b in zip(l, l[1:])])
    if name == "transpose":
        miss = object()
        rows = [elems(e) for e in l]
        return L([L([e for e in t if e is not miss]) for t in itertools.zip_longest(*rows, fillvalue=miss)])
    if name == "enumerate": return L([L([I(i), e]) for i, e in enumerate(l)])
    if name == "fold":
        if not l:
            raise Raises()
        return functools.reduce(lambda a, b: app2(p[0], a, b), l)
    if name == "fold_from": return functools.reduce(lambda a, b: app2(p[0], a, b), l, p[1])
    if name == "scan": return L(list(itertools.accumulate(l, lambda a, b: app2(p[0], a, b))))
    if name == "scan_from": return L(list(itertools.accumulate(l, lambda a, b: app2(p[0], a, b), initial=p[1])))
    if name in ("sum", "sum_f", "product", "product_f"):
        m = [app1(p[0], e) for e in l] if name.endswith("_f") else l
        if not all(is_num(e) for e in m):
            raise Raises()
        return functools.reduce(add, m, I(0)) if name.startswith("sum") else functools.reduce(mul, m, I(1))
    if name in ("min", "max"):
        if not l:
            raise Raises()
        try:
            for a in l:
                for b in l:
                    vcmp(a, b)
            best = l[0]
            for e in l[1:]:
                c = vcmp(e, best)
                if (c < 0 and name == "min") or (c > 0 and name == "max"):
                    best = e
            return best
        except Incomparable:
            raise Raises()
    if name == "sort": return like(x, stable_sorted(l, vcmp))
    if name == "sort_by": return like(x, stable_sorted(l, lambda a, b: app2(p[0], a, b)[1]))
    if name == "sort_on": return like(x, stable_sorted(l, lambda a, b: vcmp(app1(p[0], a), app1(p[0], b))))
    if name == "reverse": return like(x, l[::-1])
    if name == "unique": return like(x, uniq(l))
    if name in ("group_eq", "group_by"):
        r = (lambda a, b: veq(a, b)) if name == "group_eq" else (lambda a, b: truthy(app2(p[0], a, b)))
        gs = []
        for e in l:
            if gs and r(gs[-1][-1], e):
                gs[-1].append(e)
            else:
                gs.append([e])
        return L([like(x, g) for g in gs])
    if name in ("group_n", "group_strict"):
        n = p[0]
        if n == 0 or (name == "group_strict" and len(l) % n):
            raise Raises()
        return L([like(x, l[i:i + n]) for i in range(0, len(l), n)])
    if name == "group_all":
        keys = uniq([app1(p[0], e) for e in l])
        return L([like(x, [e for e in l if veq(app1(p[0], e), k)]) for k in keys])
    if name == "window":
        n = p[0]
        if n == 0:
            raise Raises()
        return L([like(x, l[i:i + n]) for i in range(0, len(l) - n + 1)])
    if name == "prefixes": return L([like(x, l[:i]) for i in range(len(l) + 1)])
    if name == "suffixes": return L([like(x, l[len(l) - i:]) for i in range(len(l) + 1)])
    if name == "frequencies":
        return Q("f", [L([k, I(sum(1 for e in l if veq(e, k)))]) for k in uniq(l)])
    if name == "concat":
        a, b = args
        if a[0] != "Q" or b[0] != "Q" or a[1] != b[1] or a[1] not in "lvb":
            raise Raises()
        return Q(a[1], a[2] + b[2])
    if name == "prepend": return L([p[0]] + l)
    if name == "append": return L(l + [p[0]])
    if name == "pair": return L([p[0], p[1]])
    if name in ("replicate", "replicate_flip"): return L([p[0]] * p[1])
    if name == "splitn":
        if p[0] == "":
            raise Raises()
        return L([S(w) for w in x[1].split(p[0], p[1] - 1)]) if p[1] > 0 else L([])
    if name in ("str_repeat", "str_repeat_flip"): return S(x[1] * p[0])
    if name == "take_n": return like(x, l[:p[0]])
    if name == "drop_n": return like(x, l[p[0]:])
    if name == "cartesian": return L([L(t) for t in itertools.product(*[elems(a) for a in args])])
    if name == "repeat_concat": return L(l * p[0])
    if name == "power": return Q("t", [L(t) for t in itertools.product(l, repeat=p[0])])
    if name == "join":
        if not all(e[0] == "S" for e in l):
            raise Raises()
        return S(p[0].join(e[1] for e in l))
    if name == "split":
        if p[0] == "":
            raise Raises()
        return L([S(w) for w in x[1].split(p[0])])
    if name == "words":
        ws, cur = [], ""
        for ch in x[1]:
            if ch in WHITE_SPACE:
                if cur:
                    ws.append(cur)
                cur = ""
            else:
                cur += ch
        return L([S(w) for w in ws + ([cur] if cur else [])])
    if name in ("unwords", "unlines"):
        if not all(e[0] == "S" for e in l):
            raise Raises()
        return S(" ".join(e[1] for e in l)) if name == "unwords" else S("".join(e[1] + "\n" for e in l) if l else "\n")
    if name == "lines":
        ps = x[1].split("\n")
        if ps[-1] == "":
            ps.pop()
        return L([S(w) for w in ps])
    if name == "permutations": return Q("t", [L(t) for t in itertools.permutations(l)])
    if name == "combinations": return Q("t", [L(t) for t in itertools.combinations(l, p[0])])
    if name == "subsequences":
        n = len(l)
        return Q("t", [L([l[i] for i in range(n) if mask >> (n - 1 - i) & 1]) for mask in range(2 ** n)])
    return None


# ----------------------------------------------------------------------------- call table: name -> (param kinds, renderer)
# param kinds: "f1" fn1 name, "f2" fn2, "v" value, "n" small nat, "s" string
# a count can reach a builtin as a small or as a big-represented integer (//, ^, <<, big arithmetic give the
# big representation even for tiny values): the result must not depend on that
NUMFORMS = [lambda n: str(n), lambda n: f"({n} // 1)", lambda n: f"(2^64 - 2^64 + {n})", lambda n: f"({n} << 0)", lambda n: f"({n} ^ 1)"]


def call_src(name, p, a, nf=0):
    """Noulith expression for the call; a = variable names of the sequence arguments; nf = how counts are written"""
    x = a[0] if a else None
    num = NUMFORMS[nf]
    f1 = lambda i=0: FN1[p[i]]
    f2 = lambda i=0: fn2_src(p[i])
    simple1 = {"map": "map", "filter": "filter", "reject": "reject", "partition": "partition", "flat_map": "flat_map",
               "count": "count", "any": "any", "all": "all", "find": "find", "findq": "find?", "locate": "locate",
               "locateq": "locate?", "take_while": "take", "drop_while": "drop", "sort_on": "sort_on", "group_all": "group_all",
               "sum_f": "sum", "product_f": "product"}
    if name in simple1:
        return f"{x} {simple1[name]} {f1()}"
    simple2 = {"pairwise": "pairwise", "fold": "fold", "scan": "scan", "sort_by": "sort", "group_by": "group"}
    if name in simple2:
        return f"{x} {simple2[name]} {f2()}"
    unary = {"flatten": "flatten", "count_truthy": "count", "any_truthy": "any", "all_truthy": "all", "transpose": "transpose",
             "enumerate": "enumerate", "sum": "sum", "product": "product", "min": "min", "max": "max", "sort": "sort",
             "reverse": "reverse", "unique": "unique", "group_eq": "group", "prefixes": "prefixes", "suffixes": "suffixes",
             "frequencies": "frequencies", "words": "words", "lines": "lines", "unwords": "unwords", "unlines": "unlines", "permutations": "permutations",
             "subsequences": "subsequences"}
    if name in unary:
        return f"{unary[name]}({x})"
    if name == "each": return f"(acc := []; {x} each (\\e -> (acc = acc +. e)); acc)"
    if name == "count_eq": return f"{x} count {src(p[0])}"
    if name == "find_eq": return f"{x} find {src(p[0])}"
    if name == "locate_eq": return f"{x} locate {src(p[0])}"
    if name == "zip": return f"{a[0]} zip {a[1]}" if len(a) == 2 else "zip(" + ", ".join(a) + ")"
    if name == "zip_with": return f"zip({a[0]}, {a[1]}, {f2()})"
    if name == "ziplongest": return "ziplongest(" + ", ".join(a) + ")"
    if name == "ziplongest_with": return "ziplongest(" + ", ".join(a) + f", {f2()})"
    if name == "fold_from": return f"{x} fold {f2()} from {src(p[1])}"
    if name == "scan_from": return f"{x} scan {f2()} from {src(p[1])}"
    if name == "group_n": return f"{x} group {num(p[0])}"
    if name == "group_strict": return f"{x} group' {num(p[0])}"
    if name == "window": return f"{x} window {num(p[0])}"
    if name == "concat": return f"{a[0]} ++ {a[1]}"
    if name == "concat_alias": return f"{a[0]} \u29fa {a[1]}"
    if name == "cartesian_alias": return " \u00d7 ".join(a)
    if name == "prepend": return f"{src(p[0])} .+ {x}"
    if name == "append": return f"{x} +. {src(p[0])}"
    if name == "pair": return f"{src(p[0])} .. {src(p[1])}"
    if name == "replicate": return f"{src(p[0])} .* {num(p[1])}"
    if name == "replicate_flip": return f"{num(p[1])} *. {src(p[0])}"
    if name == "splitn": return f"{x} split {sstr(p[0])} by {num(p[1])}"
    if name == "str_repeat": return f"{x} $* {num(p[0])}"
    if name == "str_repeat_flip": return f"{num(p[0])} *$ {x}"
    if name == "take_n": return f"{x} take {num(p[0])}"
    if name == "drop_n": return f"{x} drop {num(p[0])}"
    if name == "cartesian": return " ** ".join(a)
    if name == "repeat_concat": return f"{x} ** {num(p[0])}"
    if name == "power": return f"{x} ^^ {num(p[0])}"
    if name == "join": return f"{x} join {sstr(p[0])}"
    if name == "split": return f"{x} split {sstr(p[0])}"
    if name == "combinations": return f"combinations({x}, {num(p[0])})"
    raise ValueError(name)


PKINDS = {
    "map": ["f1"], "filter": ["f1"], "reject": ["f1"], "partition": ["f1"], "flat_map": ["f1"], "count": ["f1"], "any": ["f1"],
    "all": ["f1"], "find": ["f1"], "findq": ["f1"], "locate": ["f1"], "locateq": ["f1"], "take_while": ["f1"], "drop_while": ["f1"],
    "sort_on": ["f1"], "group_all": ["f1"], "sum_f": ["f1"], "product_f": ["f1"],
    "pairwise": ["f2"], "fold": ["f2"], "scan": ["f2"], "sort_by": ["f2"], "group_by": ["f2"], "zip_with": ["f2"],
    "ziplongest_with": ["f2"], "fold_from": ["f2", "v"], "scan_from": ["f2", "v"],
    "count_eq": ["v"], "find_eq": ["v"], "locate_eq": ["v"], "prepend": ["v"], "append": ["v"], "pair": ["v", "v"],
    "replicate": ["v", "n"], "group_n": ["n"], "group_strict": ["n"], "window": ["n"], "repeat_concat": ["n"], "power": ["n"],
    "combinations": ["n"], "join": ["s"], "split": ["s"],
    "replicate_flip": ["v", "n"], "splitn": ["s", "n"], "str_repeat": ["n"], "str_repeat_flip": ["n"], "take_n": ["n"], "drop_n": ["n"],
}
MODEL_NAME = {"replicate_flip": "replicate", "str_repeat_flip": "str_repeat", "concat_alias": "concat", "cartesian_alias": "cartesian"}


def ptok(kind, v):
    if kind == "f1":
        return v
    if kind == "f2":
        return fn2_tok(v)
    if kind == "v":
        return tok(v)
    if kind == "n":
        return str(v)
    if kind == "s":
        return " ".join([str(len(v))] + [str(ord(c)) for c in v])


ENUMERATORS = {"permutations", "combinations", "subsequences", "power"}
# call forms the implementation has but BUILTINS.md/README.md do not describe: compared when accepted,
# a type/argument error is counted and skipped
UNDOCUMENTED = {"count_eq", "sum_f", "product_f"}


def make_case(name, params, args, cmpmode="exact", nf=0):
    """args: list of values (sequence arguments); nf: index into NUMFORMS for the counts"""
    names = ["x", "y", "z"][:len(args)]
    call = call_src(name, params, names, nf)
    if name in ENUMERATORS:
        call = f"list({call})"   # the harness forces at most 64 stream elements
    stm = "; ".join(f"{n} := {src(a)}" for n, a in zip(names, args))
    prog = (stm + "; " if stm else "") + f"r := ({call}); [r" + "".join(", " + n for n in names) + "]"
    if any(exotic(a) for a in args) or any(isinstance(v, tuple) and v and v[0] in ("N", "I", "F", "S", "Q", "R", "X") and exotic(v) for v in params):
        model = None
    else:
        model = " ".join([MODEL_NAME.get(name, name)] + [ptok(k, v) for k, v in zip(PKINDS.get(name, []), params)] + [tok(a) for a in args])
    return dict(fn=name, params=params, args=args, src=prog, model=model, cmp=cmpmode, nf=nf)


# ----------------------------------------------------------------------------- grid
ALPHA = {"l": [I(1), F(1), I(2), S("a")], "s": "abc", "v": [I(1), F(1), I(2)], "b": [I(1), I(2), I(3)],
         "t": [I(1), F(1), I(2), S("a")]}


def seqs_of(kind, n):
    """all sequences of kind and length n"""
    if kind == "s":
        return [S("".join(t)) for t in itertools.product("abc", repeat=n)]
    if kind == "d":
        return [Q("d", list(t)) for t in itertools.combinations([I(1), I(2), S("a")], n)]
    if kind == "r":
        return [Q("r", [I(i + 1) for i in range(n)])]
    return [Q(kind, list(t)) for t in itertools.product(ALPHA["t" if kind in "zy" else kind], repeat=n)]


def inputs(ctx, kind, full, sample, maxlen):
    """exhaustive up to length `full`, then `sample` random sequences per length up to maxlen"""
    out = []
    for n in range(0, full + 1):
        out += seqs_of(kind, n)
    if kind in ("d", "r"):
        for n in range(full + 1, maxlen + 1):
            out += seqs_of(kind, n)
        return out
    for n in range(full + 1, maxlen + 1):
        for _ in range(sample):
            if kind == "s":
                out.append(S("".join(ctx.rng.choice("abc") for _ in range(n))))
            else:
                out.append(Q(kind, [ctx.rng.choice(ALPHA["t" if kind in "zy" else kind]) for _ in range(n)]))
    return out


PREDS = ["even", "lt2", "eq1", "eqa", "geb", "id", "const7"]
MAPPERS = ["id", "neg", "even", "const7", "fst", "dup", "numkey"]
COMBS = ["pair", "add", "max", "fst2", "snd2"]
RELS = ["eq", "le", "fst2"]
CMPS = [("cmpon", k, r) for k in ("numkey", "even", "lt2", "const7") for r in (False, True)]
ORDERED_KINDS = ["l", "s", "v", "b", "t", "r", "z", "y"]
# functions whose result does not depend on iteration order (up to multiset): usable on dict keys
DICT_OK = {"map": 1, "filter": 1, "reject": 1, "partition": 2, "count": 0, "any": 0, "all": 0, "count_truthy": 0, "count_eq": 0,
           "any_truthy": 0, "all_truthy": 0, "sum": 0, "product": 0, "sum_f": 0, "product_f": 0, "min": 0, "max": 0, "sort": 0,
           "unique": 1, "frequencies": 0, "group_all": 2, "flat_map": 1, "each": 1, "sort_on": 0, "reverse": 1}


def params_for(name, x, ctx):
    """parameter tuples for a unary-sequence call on input x"""
    n = len(x[1]) if x[0] == "S" else len(x[2])
    ks = PKINDS.get(name, [])
    if ks == ["f1"]:
        fam = PREDS if name in ("filter", "reject", "partition", "count", "any", "all", "find", "findq", "locate", "locateq",
                                "take_while", "drop_while") else MAPPERS
        if name in ("sum_f", "product_f"):
            fam = ["id", "neg", "even", "const7", "numkey", "lt2"]
        if name == "sort_on":
            fam = ["id", "neg", "even", "const7", "numkey", "fst", "lt2"]
        if name == "group_all":
            fam = ["id", "even", "const7", "numkey", "lt2", "eqa"]
        return [[f] for f in fam]
    if ks == ["f2"]:
        fam = CMPS if name == "sort_by" else RELS if name == "group_by" else COMBS
        return [[g] for g in fam]
    if ks == ["f2", "v"]:
        return [[g, v] for g in COMBS for v in (I(0), S("a"))]
    if ks == ["v"]:
        vs = [I(1), F(1), I(2), S("a"), S("b"), I(3), N]
        return [[v] for v in vs]
    if ks == ["n"]:
        return [[k] for k in sorted({0, 1, 2, n, n + 1})]
    return [[]]


UNARY_ALL_KINDS = ["map", "filter", "reject", "partition", "flat_map", "each", "count", "count_truthy", "count_eq", "any", "all",
                   "any_truthy", "all_truthy", "find", "findq", "find_eq", "locate", "locateq", "locate_eq", "take_while",
                   "drop_while", "pairwise", "enumerate", "fold", "fold_from", "scan", "scan_from", "sum", "sum_f", "product",
                   "product_f", "min", "max", "sort", "sort_by", "sort_on", "reverse", "unique", "group_eq", "group_n",
                   "group_strict", "group_by", "group_all", "window", "prefixes", "suffixes", "frequencies", "repeat_concat"]


def gen_cases(ctx):
    cases = []
    quick = ctx.quick()
    full = ({"l": 3, "s": 3, "v": 3, "b": 3, "t": 2, "r": 5, "d": 3, "z": 1, "y": 1} if quick else
            {"l": 4, "s": 4, "v": 4, "b": 4, "t": 3, "r": 8, "d": 3, "z": 2, "y": 2})
    sample = 6 if quick else 30
    maxlen = 5 if quick else 8
    pools = {k: inputs(ctx, k, full[k], sample if k not in "zy" else 3, maxlen) for k in ["l", "s", "v", "b", "t", "r", "d", "z", "y"]}
    for name in UNARY_ALL_KINDS:
        for kind in ORDERED_KINDS + (["d"] if name in DICT_OK else []):
            pool = pools[kind]
            heavy = len(PKINDS.get(name, [])) > 0
            for x in pool:
                n = len(x[1]) if x[0] == "S" else len(x[2])
                if name == "repeat_concat" and kind != "l" and n > 2:
                    continue
                ps = params_for(name, x, ctx)
                keep = (2 if n > 2 else 4 if n == 2 and kind != "l" else 99) if quick else (3 if n > 3 else 99)
                if kind in "zy":
                    keep = 2 if quick else 3
                if heavy and len(ps) > keep:
                    # thin out the family on longer inputs: rotate through it (every member still meets every length)
                    ps = [ps[(len(cases) + i) % len(ps)] for i in range(keep)]
                for p in ps:
                    mode = "mset1" if name == "group_all" else "exact"
                    if kind == "d":
                        mode = "mset%d" % DICT_OK[name]
                        if name == "sort_on" and p[0] not in ("id", "neg", "numkey"):
                            continue  # ties would expose the hash order
                        if name in ("min", "max", "sort") and False:
                            continue
                    cases.append(make_case(name, p, [x], mode))
                    if PKINDS.get(name) == ["n"]:
                        cases.append(make_case(name, p, [x], mode, nf=1 + (len(cases) // 2) % 4))
    # ---- counts in every representation: take/drop n, split by n, string repetition, replication
    for kind in ("l", "s", "v", "b"):
        for x in [v for n in range(0, 4) for v in seqs_of(kind, n)[:: (1 if n < 2 else 5)]]:
            n_ = len(x[1]) if x[0] == "S" else len(x[2])
            for k in sorted({0, 1, 2, n_, n_ + 1}):
                for nf in range(len(NUMFORMS)):
                    cases.append(make_case("take_n", [k], [x], nf=nf))
                    cases.append(make_case("drop_n", [k], [x], nf=nf))
    for s_ in ("", "a", "a-b", "a-b-c-d", "-a--b-", "--"):
        for sep in ("-", "--", "b"):
            for k in (0, 1, 2, 3, 5):
                for nf in range(len(NUMFORMS)):
                    cases.append(make_case("splitn", [sep, k], [S(s_)], nf=nf))
    for s_ in ("", "a", "ab", "\u00e9 "):
        for k in (0, 1, 2, 3):
            for nf in range(len(NUMFORMS)):
                cases.append(make_case("str_repeat", [k], [S(s_)], nf=nf))
                cases.append(make_case("str_repeat_flip", [k], [S(s_)], nf=nf))
    for v in (I(7), S("a"), L([I(1), F(1)]), N):
        for k in (0, 1, 2, 3):
            for nf in range(len(NUMFORMS)):
                cases.append(make_case("replicate", [v, k], [], nf=nf))
                cases.append(make_case("replicate_flip", [v, k], [], nf=nf))
    # ---- negative counts: the documentation says nothing about them, so only "no panic, no hang, arguments
    # untouched" is required (cmp = nocrash); every representation of the count
    def neg(k):
        return f"(0-{k})"
    for k in (1, 2):
        for nf in range(len(NUMFORMS)):
            for name, ps_, args_ in (("replicate", [I(7), k], []), ("replicate_flip", [S("a"), k], []),
                                     ("str_repeat", [k], [S("ab")]), ("splitn", ["-", k], [S("a-b-c")]),
                                     ("repeat_concat", [k], [L([I(1), I(2)])]), ("window", [k], [L([I(1), I(2), I(3)])]),
                                     ("group_n", [k], [S("abc")]), ("group_strict", [k], [Q("v", [I(1), I(2)])]),
                                     ("power", [k], [L([I(1), I(2)])]), ("combinations", [k], [Q("t", [I(1), I(2)])])):
                ph = 770 + k   # placeholder count, rewritten in the program text as the negative number
                c_ = make_case(name, [ph if v == k and not isinstance(v, tuple) else v for v in ps_], args_, "nocrash", nf=nf)
                c_["src"] = c_["src"].replace(NUMFORMS[nf](ph), NUMFORMS[nf](neg(k)))
                c_["params"] = ps_
                assert neg(k) in c_["src"], c_["src"]
                c_["model"] = None
                cases.append(c_)
    # ---- rationals and fractional floats (1/2 == 0.5 < 1): order/equality based functions only, judged by the Python
    # reference alone (Fractions); NaN anywhere: no-crash only
    ralpha = [R(1, 2), F(Fraction(1, 2)), I(1), I(0), R(3, 2)]
    rpool = [list(t) for n in range(0, 4) for t in itertools.product(ralpha, repeat=n) if n <= 2 or ctx.rng.random() < (0.3 if quick else 1.0)]
    for kind in ("l", "v"):
        for el in (rpool if kind == "l" else rpool[::3]):
            x = Q(kind, el)
            for name, ps_ in (("sort", []), ("sort_on", ["id"]), ("sort_on", ["numkey"]), ("unique", []), ("min", []), ("max", []),
                              ("frequencies", []), ("group_eq", []), ("reverse", []), ("filter", ["lt2"]), ("reject", ["eq1"]),
                              ("take_while", ["lt2"]), ("count_eq", [R(1, 2)]), ("locate_eq", [F(Fraction(1, 2))]),
                              ("find_eq", [R(1, 2)]), ("enumerate", []), ("window", [2]), ("sort_by", [("cmpon", "numkey", True)])):
                cases.append(make_case(name, ps_, [x]))
    for el in [[NAN], [I(1), NAN], [NAN, NAN, I(1)], [NAN, S("a")], [R(1, 2), NAN]]:
        for name, ps_ in (("sort", []), ("unique", []), ("min", []), ("max", []), ("frequencies", []), ("group_eq", []), ("reverse", []),
                          ("sum", []), ("product", []), ("sort_on", ["id"]), ("count_eq", [NAN]), ("locate_eq", [NAN]), ("filter", ["lt2"])):
            c_ = make_case(name, ps_, [L(el)], "nocrash")
            cases.append(c_)
    # ---- sort of nested lists: lexicographic where every pair is comparable (documented: "sequences are
    # compared lexicographically"); with an incomparable pair somewhere only no-crash is required
    nrows = [L([]), L([I(1)]), L([I(1), I(2)]), L([F(1)]), L([I(2)]), L([S("a")]), L([I(1), S("a")]), L([L([I(1)])]), L([L([])])]
    nested = [list(t) for n in range(0, 4) for t in itertools.product(nrows, repeat=n) if n <= 2 or ctx.rng.random() < (0.25 if quick else 1.0)]
    for rws in nested:
        ok = True
        try:
            for a_ in rws:
                for b_ in rws:
                    vcmp(a_, b_)
        except Incomparable:
            ok = False
        for name, ps_ in (("sort", []), ("min", []), ("max", []), ("sort_on", ["id"])):
            cases.append(make_case(name, ps_, [L(rws)], "exact" if ok else "nocrash"))
    # ---- functions without a parameter: exhaustive over 3-symbol alphabets at the longer lengths too
    paramless = [n for n in UNARY_ALL_KINDS if not PKINDS.get(n)]
    numeric = {"sum", "product", "min", "max", "sort"}
    for name in paramless:
        for n in ((4, 5) if quick else (5, 6)):
            alpha = [I(1), F(1), I(2)] if name in numeric else [I(1), F(1), S("a")]
            for t in itertools.product(alpha, repeat=n):
                cases.append(make_case(name, [], [L(t)]))
        for kind in "svb":
            for x in seqs_of(kind, 4 if quick else 5):
                cases.append(make_case(name, [], [x]))
    # ---- enumerators (position-based: a pool with distinct and with repeated elements per kind)
    emax = 5 if quick else 6
    base = {"l": [I(1), F(1), I(2), S("a"), I(1), I(3)], "v": [I(1), F(1), I(2), I(1), I(3), I(4)], "b": [I(1), I(2), I(3), I(1), I(2), I(4)],
            "t": [I(1), S("a"), I(2), I(1), I(3), F(1)]}
    for kind in ["l", "s", "v", "b", "t", "r"]:
        for n in range(0, emax + 1):
            x = S("abcabd"[:n]) if kind == "s" else Q("r", [I(i + 1) for i in range(n)]) if kind == "r" else Q(kind, base[kind][:n])
            cases.append(make_case("permutations", [], [x]))
            cases.append(make_case("subsequences", [], [x]))
            for k in sorted({0, 1, 2, 3, n, n + 1}):
                cases.append(make_case("combinations", [k], [x]))
                cases.append(make_case("combinations", [k], [x], nf=1 + (k + n) % 4))
            for k in (0, 1, 2, 3):
                if n ** k <= 300:
                    cases.append(make_case("power", [k], [x]))
                    cases.append(make_case("power", [k], [x], nf=1 + (k + n) % 4))
    # ---- functions of several sequences
    def small(kind, upto=2, extra=2):
        out = []
        for n in range(0, upto + 1):
            if kind == "s":
                out += [S("".join(t)) for t in itertools.product("ab" if quick else "abc", repeat=n)]
            elif kind in ("d", "r"):
                out += seqs_of(kind, n)
            else:
                out += [Q(kind, list(t)) for t in itertools.product(ALPHA[kind][:2 if quick else 3], repeat=n)]
        for _ in range(extra):
            n = 3
            out.append(S("".join(ctx.rng.choice("abc") for _ in range(n))) if kind == "s" else
                       Q(kind, [ctx.rng.choice(ALPHA[kind]) for _ in range(n)]) if kind not in ("d", "r") else seqs_of(kind, 3)[0])
        return out
    sm = {k: small(k) for k in ["l", "s", "v", "b", "t", "r"]}
    kind_pairs = [("l", "l"), ("l", "s"), ("s", "v"), ("b", "l"), ("t", "l"), ("r", "s"), ("v", "b"), ("t", "t")]
    for ka, kb in kind_pairs:
        for x in sm[ka]:
            for y in sm[kb]:
                for name in ("zip", "ziplongest", "cartesian", "cartesian_alias"):
                    cases.append(make_case(name, [], [x, y]))
                for g in (COMBS if (ka, kb) == ("l", "l") else [COMBS[(len(cases) + i) % len(COMBS)] for i in range(2)]):
                    cases.append(make_case("zip_with", [g], [x, y]))
                    cases.append(make_case("ziplongest_with", [g], [x, y]))
    tiny = {k: [v for v in sm[k] if (len(v[1]) if v[0] == "S" else len(v[2])) <= 2][:(4 if quick else 6)] + sm[k][-1:] for k in sm}
    for ka, kb, kc in [("l", "l", "l"), ("l", "s", "b"), ("t", "v", "l"), ("s", "r", "l")]:
        for x in tiny[ka]:
            for y in tiny[kb]:
                for z in tiny[kc]:
                    for name in ("zip", "ziplongest", "cartesian"):
                        cases.append(make_case(name, [], [x, y, z]))
                    cases.append(make_case("ziplongest_with", [COMBS[len(cases) % len(COMBS)]], [x, y, z]))
    for k in ("l", "v", "b"):
        for x in sm[k]:
            for y in sm[k]:
                cases.append(make_case("concat", [], [x, y]))
                cases.append(make_case("concat_alias", [], [x, y]))
    # ---- flatten / transpose: lists (and streams) of rows of mixed kinds, including rows that are not iterable
    rows = [L([]), L([I(1)]), L([I(1), F(1)]), L([I(2), S("a"), I(1)]), S(""), S("ab"), Q("v", [I(1), I(2)]), Q("b", [I(3)]),
            Q("t", [I(1), I(2), I(2)]), Q("r", [I(1), I(2)]), L([L([I(1)]), I(2)])]
    bad_rows = [I(1), N]
    outer = []
    for n in range(0, 4 if quick else 5):
        if n <= 2:
            outer += [list(t) for t in itertools.product(rows, repeat=n)]
        else:
            outer += [[ctx.rng.choice(rows) for _ in range(n)] for _ in range(60 if quick else 400)]
    outer += [[ctx.rng.choice(rows + bad_rows) for _ in range(ctx.rng.randint(1, 3))] for _ in range(40)]
    for rws in outer:
        for k in ("l", "t"):
            if k == "t" and len(cases) % 3:
                continue
            cases.append(make_case("flatten", [], [Q(k, rws)]))
            cases.append(make_case("transpose", [], [Q(k, rws)]))
    # rectangular matrices for transpose
    for r_ in range(1, 4):
        for c_ in range(1, 4):
            m = [L([I(10 * i + j) for j in range(c_)]) for i in range(r_)]
            cases.append(make_case("transpose", [], [L(m)]))
    # ---- strings
    for n in range(0, 6 if quick else 7):
        for t in itertools.product("a,b", repeat=n):
            s_ = "".join(t)
            for sep in (",", "ab", "aa", ",,", "a"):
                cases.append(make_case("split", [sep], [S(s_)]))
        for t in itertools.product("a \n", repeat=n):
            cases.append(make_case("words", [], [S("".join(t))]))
        for t in itertools.product("a\nb", repeat=n):
            cases.append(make_case("lines", [], [S("".join(t))]))
    # richer text: carriage returns, tabs, runs of separators, leading/trailing separators, every Unicode
    # white-space character, a control character that is NOT white space (U+001C), non-ASCII letters
    for n in range(0, 6 if quick else 7):
        for t in itertools.product("a\r\n", repeat=n):
            s_ = "".join(t)
            cases.append(make_case("lines", [], [S(s_)]))
            if n <= 4:
                for sep in ("\n", "\r\n", "\n\r", "\r"):
                    cases.append(make_case("split", [sep], [S(s_)]))
    for n in range(0, 5 if quick else 6):
        for t in itertools.product("a \t\r", repeat=n):
            cases.append(make_case("words", [], [S("".join(t))]))
    exotic = ["a", "b", "\u00e9", "\u4e2d", " ", "  ", "\t", "\n", "\r", "\r\n", "\n\r", "\n\n", "\x0b", "\x0c", "\x1c", "\x85",
              "\xa0", "\u1680", "\u2003", "\u2028", "\u2029", "\u202f", "\u205f", "\u3000", "\u200b", ","]
    for ch in exotic:
        for tpl in ("%s", "a%s", "%sa", "a%sb", "%sa%s", "a%s%sb", "a%sb%s"):
            s_ = tpl.replace("%s", ch)
            for name in ("words", "lines"):
                cases.append(make_case(name, [], [S(s_)]))
            for sep in (ch, "\n", " ", "\u00e9"):
                cases.append(make_case("split", [sep], [S(s_)]))
    for _ in range(300 if quick else 2000):
        s_ = "".join(ctx.rng.choice(exotic) for _ in range(ctx.rng.randint(1, 8)))
        cases.append(make_case("words", [], [S(s_)]))
        cases.append(make_case("lines", [], [S(s_)]))
        cases.append(make_case("split", [ctx.rng.choice(exotic)], [S(s_)]))
    tpieces = ["", "a", "\u00e9b", "a\r", " a ", "\n", "a\nb", "\t"]
    for n in range(0, 4):
        for t in (itertools.product(tpieces, repeat=n) if n <= 2 else [[ctx.rng.choice(tpieces) for _ in range(n)] for _ in range(40)]):
            ps_ = L([S(w) for w in t])
            cases.append(make_case("unwords", [], [ps_]))
            cases.append(make_case("unlines", [], [ps_]))
            for sep in ("\n", "\r\n", " ", "\u00e9", ""):
                cases.append(make_case("join", [sep], [ps_]))
    for x in (S("a\rb"), Q("t", [S("a"), S("b\r")])):
        cases.append(make_case("unwords", [], [x]))
        cases.append(make_case("unlines", [], [x]))
    pieces = ["", "a", "b", "ab", "a b"]
    for n in range(0, 4):
        for t in itertools.product(pieces, repeat=n):
            for sep in ("", ",", ", "):
                for k in ("l", "t"):
                    if k == "t" and n > 2:
                        continue
                    cases.append(make_case("join", [sep], [Q(k, [S(w) for w in t])]))
    for s_ in ("", "a", "abc"):
        for sep in ("", ",", "--"):
            cases.append(make_case("join", [sep], [S(s_)]))
    # ---- constructors
    vals = [I(1), F(1), I(-2), S("a"), S(""), N, L([]), L([I(1), S("a")]), Q("v", [I(1)])]
    for a in vals:
        for b in vals:
            cases.append(make_case("pair", [a, b], []))
        for n in (0, 1, 2, 3):
            cases.append(make_case("replicate", [a, n], []))
        for x in pools["l"][:120]:
            cases.append(make_case("prepend", [a], [x]))
            cases.append(make_case("append", [a], [x]))
    return cases


# ----------------------------------------------------------------------------- evaluation
def split_top(val):
    """'L[a,b,c]' -> [a, b, c] texts"""
    t = parse_canon(val)
    assert not isinstance(t, str) and t[0] == "L"
    return t[1]


def norm(tree, mode):
    if mode.startswith("mset"):
        return unparse(msort(tree, int(mode[4:])))
    return unparse(tree)


def evaluate(ctx, cases, runner):
    import time
    t0 = time.time()
    res = common.run_prog([c["src"] for c in cases], timeout=10.0, fuel=300_000)
    # a wall-clock timeout or a dead worker can be an artefact of a loaded machine: re-run (a few of)
    # those cases alone with a generous limit before believing them (fuel exhaustion is deterministic)
    again = [i for i, r in enumerate(res) if r.get("status") in ("hang", "abort", "badjson")][:8]
    for i in again:
        res[i] = common.run_prog([cases[i]["src"]], timeout=60.0, fuel=300_000)[0]
    t1 = time.time()
    with_model = [i for i, c in enumerate(cases) if c["model"] is not None]
    mres = [None] * len(cases)
    if runner:
        for i, m in zip(with_model, common.run_model(runner, [cases[i]["model"] for i in with_model])):
            mres[i] = m
    common.log(f"[C13] {len(cases)} cases: implementation {t1 - t0:.1f}s, specification runner {time.time() - t1:.1f}s")
    bad = []
    stats = {"ref_vs_spec_disagree": 0, "alias_checked": 0, "undocumented_form_rejected": 0, "nocrash_only": 0}
    for c, r, m in zip(cases, res, mres):
        st = r.get("status")
        c["impl_status"] = st
        mode = c["cmp"]
        # --- implementation
        obs, alias_ok = None, True
        if st == "ok":
            parts = split_top(r["val"])
            obs = "ok " + norm(parts[0], mode)
            for a, t in zip(c["args"], parts[1:]):
                stats["alias_checked"] += 1
                if unparse(t) != canon(a):
                    alias_ok = False
        elif st == "err" and "verif: fuel exhausted" not in (r.get("msg") or ""):
            obs = "raise"
        else:
            obs = "hang" if st == "err" else st   # fuel exhausted: the call does not terminate in 300k evaluation steps
        c["impl"] = obs
        if mode == "nocrash":
            stats["nocrash_only"] += 1
            c["spec"] = c["ref"] = None
            if obs in ("panic", "hang", "abort", "parse", "badjson", "sig", "empty"):
                bad.append(("property", c, r, "the call did not return (panic/hang/abort) on a finite input"))
            elif not alias_ok:
                bad.append(("property", c, r, "an alias of an argument read after the call no longer shows the value it was given"))
            continue
        # --- Coq spec
        exp = None
        if m is not None:
            if m.startswith("ok "):
                t = m[3:]
                if c["fn"] in ENUMERATORS and t.startswith("T["):
                    t = "L[" + t[2:]
                exp = "ok " + norm(parse_canon(t), mode)
            else:
                exp = m
        c["spec"] = exp
        # --- Python reference
        try:
            v = pyref(MODEL_NAME.get(c["fn"], c["fn"]), c["params"], c["args"])
            if v is None:
                ref = None
            else:
                t = canon(v)
                if c["fn"] in ENUMERATORS and t.startswith("T["):
                    t = "L[" + t[2:]
                ref = "ok " + norm(parse_canon(t), mode)
        except Raises:
            ref = "raise"
        c["ref"] = ref
        if ref is not None and exp is not None and ref != exp:
            stats["ref_vs_spec_disagree"] += 1
        crashed = obs in ("panic", "hang", "abort", "parse", "badjson", "sig", "empty")
        if c["fn"] in UNDOCUMENTED and obs == "raise" and r.get("class") in ("type", "argument"):
            stats["undocumented_form_rejected"] += 1   # the documentation does not promise this call form
        elif crashed:
            bad.append(("property", c, r, "the call did not return (panic/hang/abort) on a finite input"))
        elif not alias_ok:
            bad.append(("property", c, r, "an alias of an argument read after the call no longer shows the value it was given"))
        elif exp is not None and obs != exp:
            if ref is None or ref == obs:
                bad.append(("correspondence", c, r, "implementation and Coq specification differ; the Python reference sides with the implementation (or has no opinion)"))
            else:
                bad.append(("property", c, r, "the implementation's result differs from the documented one-liner (Coq specification and Python reference agree with each other)"))
        elif exp is None and ref is not None and obs != ref:
            bad.append(("property", c, r, "the implementation's result differs from the Python reference (no specification runner available)"))
        elif ref is not None and exp is not None and ref != exp:
            bad.append(("correspondence", c, r, "Coq specification and Python reference differ although the implementation agrees with the specification"))
    return bad, stats


KNOWN = {}


def known_key(c):
    return None


def show_case(c):
    return {"fn": c["fn"], "params": c["params"], "args": c["args"], "cmp": c["cmp"], "nf": c.get("nf", 0), "src": c["src"], "model": c["model"]}


def report(ctx, bad):
    seen = set()
    for kind, c, r, why in bad:
        k = known_key(c)
        if k is not None and kind == "property":
            ctx.known_hit(k, c["src"])
            continue
        key = (kind, c["fn"], c["args"][0][1] if c["args"] and c["args"][0][0] == "Q" else (c["args"][0][0] if c["args"] else ""))
        if key in seen:
            continue
        seen.add(key)
        rep = {"case": show_case(c), "program": c["src"], "implementation": c["impl"], "implementation_msg": r.get("msg"),
               "coq_spec": c["spec"], "python_reference": c["ref"], "what": why}
        ctx.violation(kind, rep, found=(kind == "property"))


def nontrivial(c):
    """a case is non-trivial when some argument is empty / not a plain list / has a repeated or ==-but-distinct
    element, or a numeric parameter is 0 or exceeds the length"""
    for a in c["args"]:
        if a[0] == "S" or a[1] != "l":
            return True
        l = a[2]
        if not l or any(veq(x, y) for i, x in enumerate(l) for y in l[i + 1:]):
            return True
        if any(e[0] == "S" for e in l) and any(is_num(e) for e in l):
            return True
    ks = PKINDS.get(c["fn"], [])
    for k, v in zip(ks, c["params"]):
        if k == "n":
            n = max((len(a[1]) if a[0] == "S" else len(a[2])) for a in c["args"]) if c["args"] else 0
            if v == 0 or v > n:
                return True
    return False


def run(ctx):
    runner = common.standard_prelude(ctx)
    cases = gen_cases(ctx)
    bad, stats = evaluate(ctx, cases, runner)
    report(ctx, bad)
    nt = {(c["model"] or c["src"], c.get("nf", 0)) for c in cases if nontrivial(c)}
    by_fn = {}
    for c in cases:
        by_fn[c["fn"]] = by_fn.get(c["fn"], 0) + 1
    by_kind = {}
    for c in cases:
        for a in c["args"]:
            k = "string" if a[0] == "S" else {"l": "list", "v": "vector", "b": "bytes", "d": "dict-keys", "t": "stream(list)", "r": "range stream", "z": "lazy_map stream", "y": "lazy_filter stream"}[a[1]]
            by_kind[k] = by_kind.get(k, 0) + 1
    outcomes = {}
    for c in cases:
        o = c["impl"].split(" ")[0]
        outcomes[o] = outcomes.get(o, 0) + 1
    step = max(1, len(cases) // 14)
    ctx.coverage.update({
        "evaluations": len(cases), "distinct_nontrivial": len(nt), "exhaustive": True,
        "rule": "grid: every call form x input kind (list over {1,1.0,2,\"a\"}, string over abc, vector over {1,1.0,2}, bytes over {1,2,3}, "
                "dict keys = subsets of {1,2,\"a\"}, stream(list), range 1..n) x all sequences up to the exhaustive length (quick: 3, streams 2; "
                "thorough: 4, streams 3) plus seeded random longer ones (to 5 / 8) x numeric parameters {0,1,2,len,len+1} x the function family. "
                "non-trivial = an argument is empty, not a plain list, has ==-equal elements (repeats, 1 vs 1.0) or mixes numbers and strings, or a "
                "numeric parameter is 0 or exceeds the length; distinct by (call, parameters, arguments)",
        "samples": [{"program": c["src"], "implementation": c["impl"], "coq_spec": c["spec"], "python_reference": c["ref"]} for c in cases[::step]][:14],
        "by_function": by_fn, "by_input_kind": by_kind, "impl_outcomes": outcomes,
        "count_written_as": {["literal", "n // 1", "2^64 - 2^64 + n", "n << 0", "n ^ 1"][k]: sum(1 for c in cases if "n" in PKINDS.get(c["fn"], []) and c.get("nf", 0) == k) for k in range(5)},
        "aliases_reread": stats["alias_checked"], "reference_vs_spec_disagreements": stats["ref_vs_spec_disagree"],
        "undocumented_form_rejected_and_skipped": stats["undocumented_form_rejected"],
        "no_crash_only_cases": stats["nocrash_only"],
        "reference_only_cases_with_rationals": sum(1 for c in cases if c["model"] is None and c["cmp"] != "nocrash"),
        "spec_compared": sum(1 for c in cases if c.get("spec") is not None),
        "aliases_and_operator_forms": {k: sum(1 for c in cases if c["fn"] == k) for k in ("concat_alias", "cartesian_alias", "replicate_flip", "str_repeat_flip")},
        "python_reference_compared": sum(1 for c in cases if c.get("ref") is not None),
    })
    ctx.assumptions += ["elements are drawn from ints, integral floats, one-character strings and nested lists of these; other numeric types are C07/C08's",
                        "functions passed to the builtins are total and pure (the family's lambdas are guarded to be total)"]
    return common.conclude(ctx)


def val_of_json(j):
    if j[0] == "Q":
        return ("Q", j[1], [val_of_json(e) for e in j[2]])
    if j[0] == "F" and isinstance(j[1], str):
        return ("F", Fraction(j[1]))
    return tuple(j)


def replay(ctx, rep):
    runner = common.standard_prelude(ctx)
    c = rep["case"]
    args = [val_of_json(a) for a in c["args"]]
    params = []
    for k, v in zip(PKINDS.get(c["fn"], []), c["params"]):
        params.append(val_of_json(v) if k == "v" else (tuple(v) if isinstance(v, list) else v))
    case = make_case(c["fn"], params, args, c.get("cmp", "exact"), c.get("nf", 0))
    if c.get("cmp") == "nocrash":   # the program text is the case (negative counts are written into it)
        case["src"], case["model"] = c["src"], None
    bad, _ = evaluate(ctx, [case], runner)
    report(ctx, bad)
    print(json.dumps({"program": case["src"], "implementation": case.get("impl"), "coq_spec": case.get("spec"),
                      "python_reference": case.get("ref")}))
    return 1 if bad else 0
