"""C14 - every failure is a catchable error, never a crash; try/catch contains it.

Three parts:
  proof      Lang/Contain.v (+ _proofs): a Gallina transcription of the error-containment skeleton
             of evaluate() (Try intercepts only Throw; the order of effects of assignment and
             op-assignment), with unbounded theorems; re-exports of the panic-freedom theorems
             of modelled cores.
  sweep      every global function of the live env (Env.vars) x every tuple of 0..3 arguments
             from a pool of all kinds and boundary values, each call under catch_unwind in
             worker processes (harness/src/bin/c14.rs), fuel hook, per-call watchdog.
  inject     small multi-statement programs with one injected fault wrapped in try/catch;
             the statement after the fault must still run and the variables the failing
             statement does not name must keep their values; compared with the extracted
             Contain model and with an independent Python oracle.
"""
import itertools, json, threading, time
import common

ID = "C14"
MANIFEST = dict(
    technique="Coq proof (error containment of a Gallina transcription of evaluate()'s Try/While/Assign/OpAssign skeleton, unbounded, for "
              "every meaning of the builtins) + exhaustive builtin x argument-pool sweep under catch_unwind + fault-injection "
              "correspondence model/implementation with property-level oracle",
    text="Machine-checked theorems (Coq 8.16, no axioms) about Lang/Contain.v, a transcription of the error-propagation skeleton of "
         "src/eval.rs (Sequence, If, While with Break/Continue levels, Try which intercepts only NErr::Throw, Throw, Return, Assign and "
         "OpAssign with its read / evaluate-RHS / drop_lhs / call / assign-back order): whatever raises Throw inside try reaches the catch "
         "clause while Break/Continue/Return pass through; a Throw leaving a try comes from its catch clause; after a statement raises, every "
         "variable it does not name has its previous value (a failed assignment changes nothing, a failed op-assignment leaves at most the named "
         "slot null); evaluation continues with the next statement in that store; if no builtin panics no program panics. Panic-freedom "
         "theorems of the other modelled cores (C06 integer operators, C07 numeric tower, C10 index/slice, C12 assignment, C15 lexer, C16 decimal "
         "parsing) are re-exported, and the known huge-count class is stated on a model of `x .* n` with its refutation. "
         "That applying a builtin yields a value or an error and never a panic/abort/hang is NOT a theorem: it is searched by the sweep (all "
         "global functions of the live env x 0..2 arguments exhaustive over a 55-value pool, 8 huge values and infinite streams, + sampled triples "
         "in the quick tier, all triples in the thorough tier), by index/slice forms with machine-word boundary bounds on every stream constructor, "
         "and by ~2 900 fault-injected programs / source texts per run.",
    note="Trusted: Coq kernel; hand-written model Lang/Contain.v (tied to /repo by the fault-injection correspondence, i.e. differential testing); "
         "extraction + OCaml runner; Rust harness (fork server, catch_unwind, panic hook, CPU watchdog, allocation cap, RLIMIT_AS); Python driver. "
         "Panic-freedom of the ~300 builtin bodies is a sweep result over the pool, not a proof (it is the hypothesis of C14_program_no_panic). "
         "Builtins touching files, processes, clock, sleep, stdin, randomness and eval are excluded by name. The huge-count class "
         "(counts/widths/shifts/exponents >= 2^31 given to .* *. $* *$ ^^ ** x ^ <<) is a recorded known finding; stack exhaustion by deep recursion "
         "is outside the check (fuel is kept below the depth that overflows).",
    design="6-C14")

# ----------------------------------------------------------------------------- the sweep: names
# excluded by name: everything that touches files, processes, the clock, sleep, stdin, randomness, eval
EXCLUDE = {
    "append_file": "file", "list_files": "file", "read_file": "file", "read_file?": "file",
    "read_file_bytes": "file", "read_file_bytes?": "file", "write_file": "file",
    "run_process": "process",
    "now": "clock", "time": "clock", "sleep": "sleep",
    "input": "stdin", "read": "stdin", "read_bytes": "stdin", "read_compressed": "stdin",
    "interact": "stdin", "interact_lines": "stdin",
    "eval": "eval",
}
# names containing these fragments are excluded even if they appear later (a new I/O builtin must not be run blindly)
EXCLUDE_FRAGMENTS = ["file", "process", "sleep", "random", "request", "exit", "import", "eval", "socket", "http", "env_var", "getenv"]

SETUP = ["struct C14S (c14a, c14b)"]

# ----------------------------------------------------------------------------- the pool
# (source, tag). Bounded stratum: every integer has |n| <= 2^16.
POOL_B = [
    ("null", "null"),
    ("0", "int"), ("1", "int"), ("(0-1)", "int"), ("2", "int"), ("7", "int"), ("(0-3)", "int"),
    ("256", "int"), ("65536", "int"), ("(0-65536)", "int"),
    ("(18446744073709551616-18446744073709551616)", "int"),      # 0 held in big-integer representation
    ("(18446744073709551616-18446744073709551611)", "int"),      # 5 held in big-integer representation
    ("(18446744073709551616-18446744073709551617)", "int"), ("(18446744073709551617-18446744073709551616)", "int"),   # -1 and 1 in big representation
    ("(18446744073709551618-18446744073709551616)", "int"),      # 2 in big representation
    ("0.0", "float"), ("1.5", "float"), ("(0.0-2.5)", "float"), ("(0.0/0.0)", "nan"), ("(1.0/0.0)", "inf"), ("(0.0-1.0/0.0)", "inf"),
    ("(1/2)", "rational"), ("(0-7/3)", "rational"), ("((1/2)-(1/2))", "rational"),       # the last one: a rational zero
    ("(1+2i)", "complex"), ("(0.0*1i)", "complex"),
    ('""', "string"), ('"a"', "string"), ('"ab"', "string"),
    ('"\\u{0}"', "string"), ('"\\u{d7ff}"', "string"), ('"\\u{e000}"', "string"), ('"\\u{10ffff}"', "string"),   # boundary scalar values
    ('"é\U0001d11e x"', "string"), ('"12"', "string"),
    ("B[]", "bytes"), ("B[255,254,97]", "bytes"),
    ("[]", "list"), ("[5]", "list"), ("[1,2,3]", "list"), ('[[1,[2,3]],[],"x"]', "list"), ('[3,"a",null,1.5]', "list"),
    ("V()", "vector"), ("V(1,2,3)", "vector"),
    ("{}", "dict"), ('{1:2,"a":[3]}', "dict"), ("{:0,1:2}", "dict"), ("{1,2}", "dict"),
    # containers that CONTAIN something unhashable: not valid as keys, although a dict/list of plain values is
    ("{1:(\\x -> x)}", "dict"), ('{"k":(1 to 3)}', "dict"), ("{1:C14S(1,[2])}", "dict"), ("[{1:(\\x -> x)}]", "list"),
    ("{1:{2:(\\x -> x)}}", "dict"), ("{:(\\x -> x),1:2}", "dict"), ("[(0.0/0.0)]", "list"), ("V(0.0/0.0)", "vector"),
    ("(1 to 3)", "stream"), ("(0 til 0)", "stream"), ("stream([1,2,3])", "stream"), ("((1 to 3) lazy_map (+1))", "stream"),
    ("(\\x -> x)", "func"), ("(\\a, b -> a + b)", "func"), ("(+)", "func"), ('(\\x -> throw "boom")', "func"),
    ("C14S(1,[2])", "struct"),
]
# infinite streams. INF_FUEL re-enters evaluate() for every element, so a callee that consumes it ends with
# the fuel error; the native ones are used only where the same call with INF_FUEL did not consume its stream.
INF_FUEL = ("(iota(0) lazy_map \\x -> x)", "infstream")
INF_NATIVE = [("iota(0)", "infstream"), ("repeat(1)", "infstream"), ("cycle([1,2])", "infstream")]
# huge stratum: magnitudes >= 2^31
# i64::MAX, i64::MIN and i64::MIN+1 both as machine words (NInt::Small) and in big representation
POOL_H = [
    ("2147483648", "huge"), ("4294967296", "huge"), ("9223372036854775807", "huge"), ("(0-9223372036854775807-1)", "huge"),
    ("(0-9223372036854775807)", "huge"),
    ("(18446744073709551616-9223372036854775809)", "huge"), ("(0-9223372036854775808)", "huge"), ("(9223372036854775809-18446744073709551616)", "huge"),
    ("9223372036854775808", "huge"), ("18446744073709551616", "huge"), ("(0-18446744073709551616)", "huge"),
    ("1e300", "hugefloat"),
]
# small special integers, both representations: every (huge, special) and (special, huge) pair is run for every function
SPECIAL_SRC = ["(0-1)", "0", "1", "2", "(18446744073709551616-18446744073709551617)", "(18446744073709551616-18446744073709551616)",
               "(18446744073709551617-18446744073709551616)", "(18446744073709551618-18446744073709551616)"]
POOL = POOL_B + [INF_FUEL] + POOL_H + INF_NATIVE
SRC = [s for s, _ in POOL]
TAG = [t for _, t in POOL]
IDX_B = list(range(len(POOL_B)))
IDX_INF = len(POOL_B)
IDX_BI = IDX_B + [IDX_INF]                      # bounded stratum incl. the fuel-burning infinite stream
IDX_H = list(range(len(POOL_B) + 1, len(POOL_B) + 1 + len(POOL_H)))
IDX_NAT = list(range(len(POOL_B) + 1 + len(POOL_H), len(POOL)))
HUGE = set(IDX_H)
IDX_SPECIAL = [SRC.index(x) for x in SPECIAL_SRC]
HUGE_POSITIVE = {SRC.index(x) for x in ("2147483648", "4294967296", "9223372036854775807", "(18446744073709551616-9223372036854775809)",
                                        "9223372036854775808", "18446744073709551616", "1e300")}
INFS = set([IDX_INF] + IDX_NAT)

FUEL = 20_000
LIMIT_MS = 3000


# the random builtins are swept for their outcome class only (value / raised / crash), every call repeated
RANDOM_FNS = ["choose", "shuffle", "random", "random_bytes", "random_range"]
RANDOM_REPEAT = 20


def excluded(name):
    if name in RANDOM_FNS:
        return None
    if name in EXCLUDE:
        return EXCLUDE[name]
    for f in EXCLUDE_FRAGMENTS:
        if f in name:
            return "fragment:" + f
    return None


def list_names():
    r = common.run_harness(common.harness_bin("c14"), [{"id": 0, "mode": "list"}], timeout=60, workers=1)[0]
    if r.get("status") != "ok":
        raise RuntimeError("c14 list failed: " + json.dumps(r)[:300])
    LIVE.update(obj_size=r.get("obj_size"), alloc_cap=r.get("alloc_cap"))
    return r["names"]


LIVE = {}


def render_call(fn, t):
    return f"{fn}({', '.join(SRC[i] for i in t)})"


def tuple_of_grid(vals, arity, idx):
    b = len(vals)
    t = [0] * arity
    for p in range(arity - 1, -1, -1):
        t[p] = vals[idx % b]
        idx //= b
    return t


class Sweep:
    """runs batches through the c14 harness; resolves hangs (watchdog gives the index) and aborts (bisection)"""

    def __init__(self, ctx):
        self.ctx = ctx
        self.counts = {}            # status -> n
        self.per_fn = {}            # fn -> {status: n}
        self.fail = []              # dict(fn, t, status, msg, loc)
        self.slow = []
        self.calls = 0
        self.batches = 0
        self.problems = []
        self.on_detail = None
        self.skipped = 0

    def case(self, fn, tuples=None, grid=None, limit_ms=LIMIT_MS, detail=False, budget=None, pool=None):
        c = {"mode": "sweep", "fn": fn, "pool": pool or SRC, "setup": SETUP, "fuel": FUEL, "limit_ms": limit_ms, "detail": detail}
        if budget is not None:
            c["budget"] = budget
        if tuples is not None:
            c["tuples"] = tuples
        else:
            c["grid"] = grid
        return c

    @staticmethod
    def size(c):
        return len(c["tuples"]) if "tuples" in c else c["grid"]["end"] - c["grid"]["start"]

    @staticmethod
    def tuple_at(c, k):
        if "tuples" in c:
            return c["tuples"][k]
        g = c["grid"]
        return tuple_of_grid(g["vals"], g["arity"], g["start"] + k)

    @staticmethod
    def rest(c, k):
        """the case restricted to tuples k.. (None when empty)"""
        n = Sweep.size(c)
        if k >= n:
            return None
        d = dict(c)
        if "tuples" in c:
            d["tuples"] = c["tuples"][k:]
        else:
            g = dict(c["grid"])
            g["start"] += k
            d["grid"] = g
        return d

    @staticmethod
    def part(c, a, b):
        d = dict(c)
        if "tuples" in c:
            d["tuples"] = c["tuples"][a:b]
        else:
            g = dict(c["grid"])
            g["start"], g["end"] = c["grid"]["start"] + a, c["grid"]["start"] + b
            d["grid"] = g
        return d

    def absorb(self, c, r):
        fn = c["fn"]
        pf = self.per_fn.setdefault(fn, {})
        for k, v in r.get("counts", {}).items():
            self.counts[k] = self.counts.get(k, 0) + v
            pf[k] = pf.get(k, 0) + v
            self.calls += v
        for b in r.get("bad", []):
            self.fail.append(dict(fn=fn, t=b["t"], status="panic", msg=b.get("msg", ""), loc=b.get("loc", "")))
        for s in r.get("slow", []):
            self.slow.append(dict(fn=fn, t=s["t"], ms=s["ms"]))

    def record(self, c, k, status, msg):
        fn = c["fn"]
        t = self.tuple_at(c, k)
        self.fail.append(dict(fn=fn, t=t, status=status, msg=msg, loc=""))
        self.counts[status] = self.counts.get(status, 0) + 1
        pf = self.per_fn.setdefault(fn, {})
        pf[status] = pf.get(status, 0) + 1
        self.calls += 1

    def run(self, cases, workers=None):
        """Each worker thread owns one harness process (common.Worker: per-case wall-clock limit, abort
        detection) and finishes a batch itself: after a watchdog/allocator exit it continues behind the
        offending tuple; after an unlocated abort it bisects."""
        cases = list(cases)
        nxt = [0]
        lk = threading.Lock()
        binary = common.harness_bin("c14")

        def one(w, c0):
            todo = [dict(c0, retry=0)]
            while todo:
                c = todo.pop()
                retry = c.pop("retry", 0)
                c["id"] = 0
                r = w.call(c, 120.0)
                with lk:
                    self.batches += 1
                st = r.get("status")
                n = self.size(c)
                if st == "batch" and "abort_sig" in r:
                    # the forked child died without reporting (SIGABRT, SIGSEGV, ...): locate by bisection
                    st, r = "abort", {"msg": f"harness child died: signal {r.get('abort_sig')} exit code {r.get('exit_code')}"}
                if st == "batch":
                    with lk:
                        self.absorb(c, r)
                        if "hang_at" in r or "alloc_at" in r or "abort_at" in r:
                            if "hang_at" in r:
                                k = r["hang_at"]
                                self.record(c, k, "hang", f"no answer within {c['limit_ms']} ms")
                            elif "abort_at" in r:
                                k = r["abort_at"]
                                self.record(c, k, "abort", "the process called abort() during this call")
                            else:
                                k = r["alloc_at"]
                                self.record(c, k, "allocbomb", f"an allocation of {r.get('alloc_size')} bytes was refused (harness cap 1 GiB per request, 3 GiB address space) and the implementation aborted")
                            d = self.rest(c, k + 1)
                            if d:
                                left = c.get("budget")
                                if left is not None and left <= 1:
                                    self.skipped += self.size(d)     # quick tier: per-chunk budget of hangs/allocation bombs spent
                                else:
                                    if left is not None:
                                        d["budget"] = left - 1
                                    todo.append(dict(d, retry=0))
                        if self.on_detail and r.get("results") is not None:
                            self.on_detail(c, r["results"])
                elif st in ("abort", "hang"):
                    if r.get("status") in ("abort", "hang"):
                        w.kill()          # the fork server itself died or hung
                    msg = r.get("msg", "")
                    if n == 1:
                        if retry < 1:
                            todo.append(dict(c, retry=retry + 1))      # must reproduce
                        else:
                            with lk:
                                self.record(c, 0, st, msg)
                    else:
                        step = max(1, (n + 3) // 4)
                        for a in reversed(range(0, n, step)):
                            todo.append(dict(self.part(c, a, min(n, a + step)), retry=0))
                else:
                    with lk:
                        self.problems.append(f"{c['fn']}: unexpected harness answer {json.dumps(r)[:200]}")

        def work():
            w = common.Worker(binary)
            while True:
                with lk:
                    i = nxt[0]
                    nxt[0] += 1
                if i >= len(cases):
                    break
                one(w, cases[i])
            w.kill()

        ts = [threading.Thread(target=work) for _ in range(workers or common.NPROC)]
        [t.start() for t in ts]
        [t.join() for t in ts]


def huge_tuples(arity, rng=None, sample=None):
    """tuples over bounded+huge values with at least one huge value"""
    vals = IDX_BI + IDX_H
    if sample is None:
        return [list(t) for t in itertools.product(vals, repeat=arity) if any(i in HUGE for i in t)]
    out = []
    while len(out) < sample:
        t = [rng.choice(vals) for _ in range(arity)]
        if not any(i in HUGE for i in t):
            t[rng.randrange(arity)] = rng.choice(IDX_H)
        out.append(t)
    return out


def chunks(xs, n):
    return [xs[a:a + n] for a in range(0, len(xs), n)]


def build_cases(ctx, sw, fns):
    """bounded stratum (must be completely clean) and huge stratum (only the known class tolerated).
    Few, large cases: every case is one fork of the harness."""
    cases = []
    nb = len(IDX_BI)
    quick = ctx.quick()
    hlimit = 500 if quick else 1500
    for fn in fns:
        # bounded: 0 and 1 argument: everything; 2 arguments: exhaustive grid; 3 arguments: sampled (quick) / exhaustive
        small = [[]] + [[i] for i in IDX_BI]
        cases.append(sw.case(fn, grid=dict(vals=IDX_BI, arity=2, start=0, end=nb * nb)))
        # one detailed case: 0-1 arguments, the probe of which functions look at three arguments (quick), and the
        # probe of which calls consume the fuel-burning infinite stream
        probe3 = [[ctx.rng.choice(IDX_B) for _ in range(3)] for _ in range(60)] if quick else []
        cases.append(sw.case(fn, tuples=small + probe3 + inf_probe_tuples(ctx), detail=True))
        # boundary words against the small special integers, both orders, both representations: exhaustive in every tier.
        # Functions outside the huge-count class must answer all of them; members get a budget of no-answers.
        special = [[h, k] for h in IDX_H for k in IDX_SPECIAL] + [[k, h] for h in IDX_H for k in IDX_SPECIAL]
        cases.append(sw.case(fn, tuples=special, limit_ms=hlimit, budget=(40 if fn in HUGE_COUNT_FNS and quick else None)))
        if quick:
            huge = [[i] for i in IDX_H] + huge_tuples(2, ctx.rng, 120) + huge_tuples(3, ctx.rng, 40)
            # quick tier: at most 10 calls per function may hang / bomb; the rest of its huge tuples are skipped (counted)
            cases.append(sw.case(fn, tuples=huge, limit_ms=hlimit, budget=10))
        else:
            total = nb ** 3
            step = 12000
            for a in range(0, total, step):
                cases.append(sw.case(fn, grid=dict(vals=IDX_BI, arity=3, start=a, end=min(total, a + step))))
            huge = [[i] for i in IDX_H] + huge_tuples(2) + huge_tuples(3, ctx.rng, 3000)
            for ch in chunks(huge, 400):
                cases.append(sw.case(fn, tuples=ch, limit_ms=hlimit))
    # random builtins: the same calls again and again (the outcome may depend on the draw)
    ints = [i for i in IDX_BI + IDX_H if TAG[i] in ("int", "huge")]
    for fn in fns:
        if fn in RANDOM_FNS:
            cases.append(sw.case(fn, tuples=([[]] + [[i] for i in IDX_BI]) * RANDOM_REPEAT))
            cases.append(sw.case(fn, tuples=[[i] for i in IDX_H] * RANDOM_REPEAT, limit_ms=hlimit, budget=10))
            cases.append(sw.case(fn, tuples=[[a, b] for a in ints for b in ints] * (RANDOM_REPEAT if fn == "random_range" else 2), limit_ms=hlimit, budget=10))
    ctx.rng.shuffle(cases)
    return cases


INF_PARTNERS_QUICK = ["null", "0", "2", "(0-3)", "65536", "1.5", '"ab"', "[1,2,3]", "{}", "(1 to 3)", "(\\x -> x)", "(+)"]


def triple_cases(ctx, sw, accepting):
    """quick tier: many more sampled triples for the functions whose answers to the probe were not all the same
    refusal (i.e. that look at three arguments)"""
    return [sw.case(fn, tuples=[[ctx.rng.choice(IDX_BI) for _ in range(3)] for _ in range(2500)]) for fn in accepting]


def inf_probe_tuples(ctx):
    """1..2 arguments with the fuel-burning infinite stream (run with per-call detail)"""
    partners = [SRC.index(x) for x in INF_PARTNERS_QUICK] if ctx.quick() else IDX_B
    return [[IDX_INF], [IDX_INF, IDX_INF]] + [[IDX_INF, i] for i in partners] + [[i, IDX_INF] for i in partners]


def native_inf_cases(ctx, sw, notconsumed):
    """second pass: the native infinite streams (iota(0), repeat(1), cycle([1,2])), only in calls where the
    fuel-burning infinite stream was not consumed (the call did not end in the fuel error or a failure)"""
    cases = []
    for fn, ts in sorted(notconsumed.items()):
        tuples = []
        for t in sorted(ts):
            nats = IDX_NAT if (len(t) == 1 or not ctx.quick()) else IDX_NAT[:1]
            for nat in nats:
                tuples.append([nat if i == IDX_INF else i for i in t])
        # at most two calls per function may fail to return (then the probe misjudged: the native stream is consumed)
        cases.append(sw.case(fn, tuples=tuples, limit_ms=300, budget=2))
    return cases


# the builtins that allocate or iterate proportionally to a count / width / shift / exponent argument
# (members of the known finding; a failure of any OTHER builtin on a huge argument is a violation):
#   .* *.  list replication          $* *$  string replication        ^^  cartesian power (index vector of that length)
#   ** x   `seq ** n` concatenates n copies      ^  bigint / rational power       <<  bigint shift
HUGE_COUNT_FNS = {".*", "*.", "$*", "*$", "^^", "**", "\u00d7", "^", "<<", "random_bytes"}


def classify(f):
    """-> 'violation' | 'known:huge-count-argument' | 'tolerated:nonterminating-input'"""
    t, st = f["t"], f["status"]
    has_inf = any(i in INFS for i in t)
    has_huge = any(i in HUGE for i in t)
    # a count/width/shift/exponent of magnitude >= 2^31 given to a member function; only capacity-overflow panics,
    # refused allocations and no-answers are the known class - any other panic (arithmetic overflow, ...) is a violation
    member = has_huge and f["fn"] in HUGE_COUNT_FNS
    if st == "panic":
        if member and "capacity overflow" in f["msg"]:
            return "known:huge-count-argument"
        return "violation"
    # hang / allocbomb / abort
    if member:
        return "known:huge-count-argument"
    if has_inf:
        return "tolerated:nonterminating-input"
    return "violation"


ALLOC_COUNTS = [0, 1, -1, 3, 65536, -65536, 2 ** 20, 2 ** 26, 2 ** 27, 2 ** 31, 2 ** 32, 2 ** 63 - 1, 2 ** 63, 2 ** 64 - 1, 2 ** 64, -2 ** 64, 10 ** 30]


def run_alloc_model(ctx, runner):
    """Lang/HugeCount.v against `null .* n` and `n *. null`: value / error / capacity-overflow panic / allocation refused"""
    sz, cap = LIVE.get("obj_size"), LIVE.get("alloc_cap")
    out = {"obj_size": sz, "alloc_cap": cap, "compared": 0}
    if not runner or not sz or not cap:
        return out, []
    pool = ["null"] + [str(n) if n >= 0 else f"(0-{-n})" for n in ALLOC_COUNTS]
    sw = Sweep(ctx)
    got = {}
    sw.on_detail = lambda c, results: got.setdefault(c["fn"], {}).update({tuple(r["t"]): r["status"] for r in results})
    cases = []
    for k in range(1, len(pool)):
        cases.append(sw.case(".*", tuples=[[0, k]], detail=True, pool=pool, limit_ms=20000))
        cases.append(sw.case("*.", tuples=[[k, 0]], detail=True, pool=pool, limit_ms=20000))
    sw.run(cases, workers=4)
    for f in sw.fail:
        got.setdefault(f["fn"], {})[tuple(f["t"])] = f["status"] + (":capov" if "capacity overflow" in f["msg"] else "")
    model = common.run_model(runner, [f"alloc {sz} {cap} {n}" for n in ALLOC_COUNTS])
    bad = []
    for k, (n, m) in enumerate(zip(ALLOC_COUNTS, model), start=1):
        want = {"ok": "ok", "err": "err", "capov": "panic:capov", "abort": "allocbomb"}.get(m.split(" ")[0], "?" + m)
        for fn, t in ((".*", (0, k)), ("*.", (k, 0))):
            obs = got.get(fn, {}).get(t, "missing")
            obs = "err" if obs.startswith("err:") else obs
            out["compared"] += 1
            if obs != want:
                bad.append(("correspondence", dict(shape="alloc-model", what="Lang/HugeCount.v and the implementation disagree on the allocation of a replication",
                                                   call=f"{fn} with count {n}", coq_model=m, implementation=obs, obj_size=sz, alloc_cap=cap)))
    out["counts"] = [str(n) for n in ALLOC_COUNTS]
    return out, bad


def run_sweep(ctx):
    names = list_names()
    funcs = [n["name"] for n in names if n["kind"] in ("builtin", "type", "func")]
    excl = {n: excluded(n) for n in funcs if excluded(n)}
    fns = [n for n in funcs if n not in excl]
    sw = Sweep(ctx)
    t0 = time.time()
    seen3 = {}
    notconsumed = {}

    def on_detail(c, results):
        for r in results:
            t = r["t"]
            if len(t) == 3:
                seen3.setdefault(c["fn"], set()).add((r["status"], r.get("info", "")[:30]) if r["status"] != "ok" else ("ok", ""))
            elif IDX_INF in t:
                if r["status"] == "ok" or (r["status"].startswith("err:") and r["status"] != "err:fuel"):
                    notconsumed.setdefault(c["fn"], set()).add(tuple(t))
    sw.on_detail = on_detail
    sw.run(build_cases(ctx, sw, fns))
    sw.on_detail = None
    accepting = []
    if ctx.quick():
        accepting = sorted(fn for fn, st in seen3.items() if len(st) > 1 or ("ok", "") in st)
        sw.run(triple_cases(ctx, sw, accepting))
    t_main = time.time() - t0
    main_calls = sw.calls
    ncases = native_inf_cases(ctx, sw, notconsumed)
    sw.run(ncases)
    t_all = time.time() - t0

    # bounded-stratum hangs are re-confirmed one by one with a much longer CPU limit before they count
    confirmed = []
    for f in sw.fail:
        f["class"] = classify(f)
    suspects = [f for f in sw.fail if f["class"] == "violation" and f["status"] == "hang"]
    if suspects:
        sw2 = Sweep(ctx)
        sw2.run([sw2.case(f["fn"], tuples=[f["t"]], limit_ms=20000) for f in suspects[:40]], workers=4)
        still = {(g["fn"], tuple(g["t"])) for g in sw2.fail}
        for f in suspects[:40]:
            if (f["fn"], tuple(f["t"])) not in still:
                f["class"] = "slow-not-hang"
    viol = [f for f in sw.fail if f["class"] == "violation"]
    known = [f for f in sw.fail if f["class"].startswith("known:")]
    tol = [f for f in sw.fail if f["class"].startswith("tolerated:")]
    return dict(sw=sw, fns=fns, excluded=excl, names=names, viol=viol, known=known, tolerated=tol, accepting3=accepting,
                t_main=t_main, t_all=t_all, main_calls=main_calls, native_cases=sum(Sweep.size(c) for c in ncases),
                slow_not_hang=[f for f in sw.fail if f["class"] == "slow-not-hang"])


def report_sweep(ctx, S):
    sw = S["sw"]
    for p in sw.problems[:3]:
        ctx.violation("sweep-machinery", {"what": "the sweep harness gave an unexpected answer", "problem": p}, found=False)
    for f in S["known"]:
        ctx.known_hit("huge-count-argument", render_call(f["fn"], f["t"]))
    seen = set()
    for f in S["viol"]:
        key = (f["fn"], f["status"], f["loc"] or f["msg"][:60])
        if key in seen:
            continue
        seen.add(key)
        same = [g for g in S["viol"] if (g["fn"], g["status"], g["loc"] or g["msg"][:60]) == key]
        ctx.violation("property", {
            "what": "applying a builtin did not end in a value or a catchable error: " + f["status"],
            "call": render_call(f["fn"], f["t"]), "fn": f["fn"], "tuple": f["t"], "args": [SRC[i] for i in f["t"]],
            "status": f["status"], "msg": f["msg"], "panic_location": f["loc"],
            "stratum": "huge" if any(i in HUGE for i in f["t"]) else "bounded",
            "same_site_calls": [render_call(g["fn"], g["t"]) for g in same[:10]], "same_site_count": len(same)}, found=True)


# ----------------------------------------------------------------------------- fault injection
# Programs over the vocabulary of Lang/Contain.v. AST (tuples):
#   val  : None | int | list          expr : ("c", val) | ("v", n) | ("b", op, a, b) | ("i", a, i)
#   stmt : ("skip",) ("expr", e) ("asg", x, [path], e) ("op", x, [path], op, e) ("seq", a, b) ("if", c, a, b)
#          ("while", c, body) ("try", body, c, handler) ("throw", e) ("break", n) ("cont", n) ("ret", e)
import re

INIT = {0: 5, 1: -3, 2: [1, 2, 3], 3: [[1, 2], [3]], 4: None, 6: 0, 7: 0, 8: 100, 10: 0, 11: 9}   # x5, x9: not declared
NVARS = 12
MARK = 6
OPSYM = {"add": "+", "sub": "-", "mul": "*", "fdiv": "//", "cat": "++", "app": "append", "lt": "<"}


def m_val(v):
    if v is None:
        return "N"
    if isinstance(v, int):
        return f"I{v}"
    return f"L{len(v)} " + " ".join(m_val(x) for x in v) if v else "L0"


def s_val(v):
    if v is None:
        return "null"
    if isinstance(v, int):
        return str(v) if v >= 0 else f"(0-{-v})"
    return "[" + ",".join(s_val(x) for x in v) + "]"


def c_val(v):
    if v is None:
        return "N"
    if isinstance(v, int):
        return f"I{v}"
    return "L[" + ",".join(c_val(x) for x in v) + "]"


def m_expr(e):
    k = e[0]
    if k == "c":
        return "c " + m_val(e[1])
    if k == "v":
        return f"v {e[1]}"
    if k == "b":
        return f"b {e[1]} {m_expr(e[2])} {m_expr(e[3])}"
    return f"i {m_expr(e[1])} {m_expr(e[2])}"


def s_expr(e):
    k = e[0]
    if k == "c":
        return s_val(e[1])
    if k == "v":
        return f"x{e[1]}"
    if k == "b":
        return f"({s_expr(e[2])} {OPSYM[e[1]]} {s_expr(e[3])})"
    return f"({s_expr(e[1])})[{s_expr(e[2])}]"


def m_stmt(t):
    k = t[0]
    if k == "skip":
        return "skip"
    if k == "expr":
        return "expr " + m_expr(t[1])
    if k == "asg":
        return f"asg {t[1]} {len(t[2])} " + "".join(m_expr(e) + " " for e in t[2]) + m_expr(t[3])
    if k == "op":
        return f"op {t[1]} {len(t[2])} " + "".join(m_expr(e) + " " for e in t[2]) + t[3] + " " + m_expr(t[4])
    if k == "seq":
        return f"seq {m_stmt(t[1])} {m_stmt(t[2])}"
    if k == "if":
        return f"if {m_expr(t[1])} {m_stmt(t[2])} {m_stmt(t[3])}"
    if k == "while":
        return f"while {m_expr(t[1])} {m_stmt(t[2])}"
    if k == "try":
        return f"try {m_stmt(t[1])} {t[2]} {m_stmt(t[3])}"
    if k == "throw":
        return "throw " + m_expr(t[1])
    if k == "break":
        return f"break {t[1]}"
    if k == "cont":
        return f"cont {t[1]}"
    if k == "ret":
        return "ret " + m_expr(t[1])
    raise ValueError(k)


def s_stmt(t):
    k = t[0]
    if k == "skip":
        return "null"
    if k == "expr":
        return s_expr(t[1])
    if k == "asg":
        return f"x{t[1]}" + "".join(f"[{s_expr(e)}]" for e in t[2]) + " = " + s_expr(t[3])
    if k == "op":
        return f"x{t[1]}" + "".join(f"[{s_expr(e)}]" for e in t[2]) + f" {OPSYM[t[3]]}= " + s_expr(t[4])
    if k == "seq":
        return f"({s_stmt(t[1])}; {s_stmt(t[2])})"
    if k == "if":
        return f"if ({s_expr(t[1])}) ({s_stmt(t[2])}) else ({s_stmt(t[3])})"
    if k == "while":
        return f"while ({s_expr(t[1])}) ({s_stmt(t[2])})"
    if k == "try":
        return f"try ({s_stmt(t[1])}) catch x{t[2]} -> ({s_stmt(t[3])})"
    if k == "throw":
        return f"throw ({s_expr(t[1])})"
    if k == "break":
        return "break"
    if k == "cont":
        return "continue"
    if k == "ret":
        return f"return ({s_expr(t[1])})"
    raise ValueError(k)


def stmt_names(t):
    k = t[0]
    if k in ("asg", "op"):
        return {t[1]}
    if k in ("seq",):
        return stmt_names(t[1]) | stmt_names(t[2])
    if k == "if":
        return stmt_names(t[2]) | stmt_names(t[3])
    if k == "while":
        return stmt_names(t[2])
    if k == "try":
        return {t[2]} | stmt_names(t[1]) | stmt_names(t[3])
    return set()


class Gen:
    def __init__(self, rng):
        self.r = rng

    def int_expr(self, d=2):
        r = self.r
        c = r.random()
        if d == 0 or c < 0.35:
            return r.choice([("c", r.choice([0, 1, 2, -1, 7])), ("v", 0), ("v", 1), ("v", 11)])
        if c < 0.65:
            return ("b", r.choice(["add", "sub", "mul"]), self.int_expr(d - 1), self.int_expr(d - 1))
        if c < 0.8:
            return ("i", ("v", 2), ("c", r.choice([0, 1, 2, -1, -3])))
        if c < 0.9:
            return ("i", ("i", ("v", 3), ("c", 0)), ("c", r.choice([0, 1, -1])))
        return ("b", "fdiv", self.int_expr(d - 1), ("c", r.choice([1, 2, -2, 3])))

    def bad_expr(self):
        r = self.r
        return r.choice([
            ("i", ("v", 2), ("c", r.choice([3, 9, -4, -9]))),          # index out of range
            ("i", ("v", 2), ("c", None)), ("i", ("v", 2), ("c", [0])),   # index of the wrong kind
            ("i", ("v", 0), ("c", 0)), ("i", ("v", 4), ("c", 0)),       # indexing a non-sequence
            ("b", "fdiv", self.int_expr(1), ("c", 0)),                  # zero divisor
            ("b", "fdiv", ("v", 0), ("b", "sub", ("v", 0), ("v", 0))),
            ("b", r.choice(["add", "sub", "mul", "fdiv"]), ("v", 0), ("c", None)),   # wrong kinds
            ("b", "add", ("v", 4), ("v", 1)), ("b", "lt", ("v", 0), ("c", None)),
            ("b", "cat", ("v", 2), ("c", 3)), ("b", "cat", ("c", None), ("v", 2)), ("b", "app", ("v", 0), ("c", 1)),
            ("v", 5), ("b", "add", ("v", 5), ("c", 1)),                 # undeclared variable
            ("i", ("i", ("v", 3), ("c", 1)), ("c", 1)),                 # nested index out of range
        ])

    def good_simple(self, inner):
        r = self.r
        tgt = [0, 1, 11]
        return r.choice([
            ("asg", r.choice(tgt), [], self.int_expr()),
            ("asg", 2, [("c", r.choice([0, 1, 2, -1]))], self.int_expr()),
            ("asg", 3, [("c", 0), ("c", r.choice([0, 1]))], self.int_expr(1)),
            ("asg", 4, [], ("c", r.choice([None, 4, [1]]))),
            ("op", r.choice(tgt), [], r.choice(["add", "sub", "mul"]), self.int_expr(1)),
            ("op", 2, [("c", r.choice([0, 1, -1]))], r.choice(["add", "mul"]), self.int_expr(1)),
            ("op", 2, [], "app", self.int_expr(1)),
            ("op", 2, [], "cat", ("c", [7, 8])),
            ("op", 3, [("c", 1)], "app", ("c", 4)),
            ("expr", self.int_expr()),
        ])

    def bad_simple(self):
        r = self.r
        e = self.int_expr(1)
        return r.choice([
            ("asg", r.choice([0, 1, 4]), [], self.bad_expr()),
            ("expr", self.bad_expr()),
            ("asg", 2, [("c", r.choice([3, 9, -4]))], e),               # index out of range on write
            ("asg", 2, [("c", None)], e),
            ("asg", 0, [("c", 0)], e), ("asg", 4, [("c", 0)], e),        # writing into a non-sequence
            ("asg", 3, [("c", 0), ("c", 5)], e), ("asg", 3, [("c", 0), ("c", 0), ("c", 0)], e),
            ("asg", 2, [self.bad_expr()], e),                             # failing path expression
            ("asg", 5, [], e),                                            # undeclared target
            ("op", r.choice([0, 1]), [], "fdiv", ("c", 0)),              # failing op-assigns: the slot is left null
            ("op", r.choice([0, 1]), [], r.choice(["add", "mul", "sub"]), ("c", None)),
            ("op", 0, [], "cat", ("c", [1])), ("op", 2, [], "cat", ("c", 5)), ("op", 0, [], "app", ("c", 1)),
            ("op", 2, [("c", 1)], "fdiv", ("c", 0)), ("op", 2, [("c", 0)], "add", ("c", None)),
            ("op", 3, [("c", 1), ("c", 0)], "fdiv", ("c", 0)), ("op", 3, [("c", 0)], "add", ("c", 1)),
            ("op", 2, [("c", 7)], "add", ("c", 1)),                       # fails before drop_lhs: nothing changes
            ("op", 4, [], "add", ("c", 1)), ("op", 5, [], "add", ("c", 1)),
            ("op", 0, [], "add", self.bad_expr()),                        # failing right-hand side: nothing changes
            ("op", 0, [("c", 0)], "add", ("c", 1)),
            ("throw", r.choice([("c", 4), ("c", [1, 2]), ("c", None), ("v", 2), self.int_expr(1)])),
        ])

    def loop(self, d, lvl):
        r = self.r
        cnt = 7 if lvl == 0 else 10
        k = r.choice([1, 2, 3])
        body = self.block(d - 1, lvl + 1, True)
        return ("seq", ("asg", cnt, [], ("c", 0)),
                ("while", ("b", "lt", ("v", cnt), ("c", k)), ("seq", ("op", cnt, [], "add", ("c", 1)), body)))

    def handler(self, d, lvl, inloop):
        r = self.r
        c = r.random()
        if c < 0.3:
            return ("skip",)
        if c < 0.6:
            return ("asg", 1, [], ("c", 42))
        if c < 0.75:
            return ("asg", 4, [], ("v", r.choice([8, 9])))      # keep the caught value (whichever the catch variable is)
        if c < 0.85:
            return self.bad_simple()                            # a catch clause that fails itself
        return self.block(d - 1, lvl, inloop)

    def stmt(self, d, lvl, inloop):
        r = self.r
        c = r.random()
        if d <= 0 or c < 0.3:
            return self.good_simple(inloop)
        if c < 0.5:
            return self.bad_simple()
        if c < 0.6:
            return ("if", r.choice([self.int_expr(1), ("b", "lt", self.int_expr(1), self.int_expr(1)), ("v", 4), ("v", 2)]),
                    self.stmt(d - 1, lvl, inloop), self.stmt(d - 1, lvl, inloop))
        if c < 0.72 and lvl < 2:
            return self.loop(d, lvl)
        if c < 0.87:
            cv = r.choice([8, 9])
            return ("try", self.block(d - 1, lvl, inloop), cv, self.handler(d, lvl, inloop))
        if c < 0.93 and inloop:
            return r.choice([("break", 0), ("cont", 0)])
        if c < 0.96:
            return ("ret", self.int_expr(1))
        return self.good_simple(inloop)

    def block(self, d, lvl, inloop):
        n = self.r.choice([1, 1, 2, 2, 3])
        t = self.stmt(d, lvl, inloop)
        for _ in range(n - 1):
            t = ("seq", t, self.stmt(d, lvl, inloop))
        return t

    def program(self):
        r = self.r
        c = r.random()
        nxt = ("asg", MARK, [], ("c", 77))
        if c < 0.35:      # one injected fault, caught; then the next statement
            body = self.bad_simple() if r.random() < 0.6 else ("seq", self.good_simple(False), self.bad_simple())
            h = r.choice([("skip",), ("asg", 1, [], ("c", 42)), ("asg", 4, [], ("v", 8))])
            return "caught", ("seq", ("try", body, 8, h), nxt)
        if c < 0.6:       # a block with faults, caught
            return "caught-block", ("seq", ("try", self.block(3, 0, False), r.choice([8, 9]), self.handler(2, 0, False)), nxt)
        if c < 0.8:       # uncaught
            return "uncaught", ("seq", self.block(2, 0, False), nxt)
        return "free", self.block(3, 0, False)


# statements outside the model's vocabulary: (source, variables it names). Only the property-level checks apply.
RAW_FAULTS = [
    ("x0, x1 = [1]", {0, 1}), ("x0, x1 = [1,2,3]", {0, 1}), ("x0, x1 = 5", {0, 1}), ("x0, x1 = null", {0, 1}),
    ("x0, ...x1, x11 = [1]", {0, 1, 11}), ("x0, ...x1 = []", {0, 1}), ("[x0, x1] = [1]", {0, 1}), ("x0, (x1, x11) = [1, [2]]", {0, 1, 11}),
    ("x0, x1 = x2", {0, 1}), ("x0, x1 := 1, 2, 3", {0, 1}),
    ("x2[1:2] = 5", {2}), ("x2[1:2] += 1", {2}), ("x2[0:9][0] = 1", {2}), ("every x2[0:2] //= 0", {2}), ("every x0 = 1", {0}),
    ("pop x4", {4}), ("pop x0", {0}), ("x0 = pop x3[1]; x0 = pop x3[1]", {0, 3}), ("remove x2[9]", {2}), ("remove x0[0]", {0}), ("remove x2", {2}),
    ("swap x0, x2[9]", {0, 2}), ("swap x2[0], x2[9]", {2}), ("consume x5", set()), ("x0 = consume x2[9]", {0, 2}),
    ("x0 = decompress(B[1,2,3])", {0}), ("x0 = decompress(B[])", {0}), ("x0 = int(\"zz\")", {0}), ("x0 = float(\"\")", {0}),
    ("x0 = 1 % 0", {0}), ("x0 = 1 / 0", {0}), ("x0 = 1 // 0", {0}), ("x0 = 1 %% 0", {0}), ("x0 = (1/2) % 0", {0}), ("x0 = 0 ^ (0-1)", {0}),
    ("x0 = gcd(0, null)", {0}), ("x0 = {1:2}[3]", {0}), ("x0 = first([])", {0}), ("x0 = last(\"\")", {0}), ("x0 = [] !! 0", {0}),
    ("x0 = permutations([]) then list", {0}), ("x0 = cycle([]) then first", {0}), ("x0 = combinations([1,2,3], 5) then first", {0}),
    ("x0 = window([1,2,3], 0)", {0}), ("x0 = json_decode(\"{\")", {0}), ("x0 = \"a\" + 1", {0}), ("x0 = chr(0-1)", {0}), ("x0 = ord(\"\")", {0}),
    ("x0 = max([])", {0}), ("x0 = fold([], +)", {0}), ("x0 = (\\a, b -> a)(1)", {0}), ("x0 = (\\a -> a)(1, 2)", {0}), ("x0 = (\\...a, ...b -> a)(1)", {0}),
    ("x0 = (\\a: int -> a)(\"s\")", {0}), ("assert(0)", set()), ("x0 = switch (5) case 6 -> 1", {0}), ("for (i <- 5) x0 = i", {0}),
    ("for (i <- [1,2,3]) (x0 = i; if (i == 2) throw \"mid\")", {0}), ("x0 = [1,2,3] map (\\x -> x // (x - 2))", {0}),
    ("x0 = [1,2,3] fold (\\a, b -> throw b)", {0}), ("x0 = sort([1, \"a\", null])", {0}), ("x0 = [3,1,2] sort (\\a, b -> throw 1)", {0}),
    ("x0 = str_radix(5, 1)", {0}), ("x0 = int_radix(\"zz\", 2)", {0}), ("x0 = \"abc\"[1:2][5]", {0}), ("x0 = B[1,2][7]", {0}), ("x0 = V(1,2)[7]", {0}),
    ("x2[0] = x2[1] = x2[9]", {2}), ("x0 = hex_decode(\"zz\")", {0}), ("x0 = base64_decode(\"!\")", {0}), ("x0 = utf8_decode(B[255])", {0}),
    ("x0 = (1 to 3)[9]", {0}), ("x0 = iota(0)[1/2]", {0}), ("x0 = [1,2,3] zip 5", {0}), ("x0 = transpose([[1],[1,2]])", {0}), ("x0 = {1:2} |.. 3", {0}),
    ("x0 = [1] .* (0-1)", {0}), ("x0 = \"ab\" $* null", {0}), ("x0 = 1 << (0-1)", {0}), ("x0 = factorize(0)", {0}), ("x0 = [1,2] ** null", {0}),
    ("x0 = x0(1)", {0}), ("x0 = null(1)", {0}), ("x0 = (1 < 2 < null)", {0}), ("x0 = 1 max null", {0}), ("x2 append= 1; x2[9] = 0", {2}),
    ("struct C14P (c14f); x0 = C14P(1, 2)", {0}), ("struct C14Q (c14g); x0 = c14g(5)", {0}), ("x0 = literally", {0}),
    ("x0 = \"\\u{110000000}\"", {0}), ("x0 = 1 +", {0}),
    # destructuring of every shape against every length
    ("x0, x1, x11 = [1, 2]", {0, 1, 11}), ("x0, x1, ...x11 = [1]", {0, 1, 11}), ("...x0, x1, x11 = [1]", {0, 1, 11}), ("x0, ...x1, x11 = []", {0, 1, 11}),
    ("x0, (x1, ...x11) = [1, []]", {0, 1, 11}), ("x0, (x1, x11) = [1, [2, 3, 4]]", {0, 1, 11}), ("(x0, x1), x11 = [[1], 2]", {0, 1, 11}), ("x0, x1 = \"a\"", {0, 1}),
    ("x0, x1 = \"h\u00e9\u00e9\"", {0, 1}), ("x0, x1 = {1: 2}", {0, 1}), ("x0, x1 = 1 to 3", {0, 1}), ("x0, x1 = V(1)", {0, 1}), ("x0, x1 = B[1]", {0, 1}), ("x0, 5 = [1, 6]", {0}),
    ("x0, x0 = [1]", {0}), ("x0 := 1", {0}), ("x0: str = 5", {0}), ("x2[0], x2[9] = [7, 8]", {2}), ("x2[0], x1 = [7]", {2, 1}), ("x0, x1 += 1", {0, 1}), ("x0, x1 = x1, x0, x0", {0, 1}),
    ("(x0 and x1) += null", {0, 1}), ("(x0 and x4) //= 0", {0, 4}), ("x0 or x1 = 5", {0, 1}), ("every x2 += null", {2}), ("every x3[0] //= 0", {3}), ("every x3[:][0] = 1; every x3[:][5] = 1", {3}),
    ("x3[0][1:9] = 1", {3}), ("x3[0:1][0] = 1", {3}), ("x3[9][0] += 1", {3}), ("x3[0][0][0] += 1", {3}), ("x3[null] = 1", {3}), ("x3[0][\"a\"] = 1", {3}), ("x3[1.5] = 1", {3}),
    # more statement kinds around a failure
    ("for (i <- [1,2,3]) (x0 += i; x1 //= (2 - i))", {0, 1}), ("for (i <- 1 to 3; j <- [i, null]) x0 += j", {0}), ("for (i <- [1,2]) for (j <- [1,2]) (x0 = j; if (i + j == 4) throw [i, j])", {0}),
    ("x0 = for (i <- [1,2,3]) yield 1 // (i - 3)", {0}), ("x0 = for (i <- [1,2,3]) yield i into 5", {0}), ("x0 = for (i <- [1,2,3]) yield i: 1 // (i - 2)", {0}),
    ("x0 = switch (x2) case [a, b] -> 1 case [a, b, c, d] -> 2", {0}), ("x0 = switch (x2) case [a, b, c] -> a // 0", {0}), ("while (x0 > 0) (x0 -= 1; if (x0 == 2) x1 //= 0)", {0, 1}),
    ("x0 = (\\a -> (x1 = 9; a // 0))(1)", {0, 1}), ("f := \\a -> (if (a == 0) throw \"deep\"; f(a - 1)); x0 = f(20)", {0}), ("x0 = [1,2,3] map (\\v -> (x1 = v; if (v == 2) throw v; v))", {0, 1}),
    ("x0 = try (throw 1) catch 2 -> 5", {0}), ("try (throw 1) catch e -> throw [e, 2]", set()), ("x0 = try (throw [1,2]) catch [a] -> a", {0}), ("x0 = try (1 // 0) catch e -> e // 0", {0}),
    ("x2 .= reverse; x2 .= nosuch", {2}), ("x0 |>= nosuch", {0}), ("x2 sort= 5", {2}), ("x2 map= null", {2}), ("x2 !!= 9", {2}), ("x4 append= 1", {4}), ("x2 ++= 5", {2}), ("x0 max= null", {0}),
    ("x2 |.= 9", {2}), ("x2 |..= [9, 1]", {2}), ("x3 |..= [0, 1, 2]", {3}), ("x2 zip= 5", {2}), ("x2 join= 5", {2}), ("x2 window= 0", {2}), ("x0 ^= (0-1)", {0}), ("x0 <<= (0-1)", {0}),
    ("x0 = \"\\u{d7ff}\" to \"\\u{e000}\"", {0}), ("x0 = \"\\u{d7ff}\" til \"\\u{e000}\"", {0}), ("x0 = \"\\u{0}\" to \"\\u{10ffff}\" then len", {0}),
    ("x0 = repeat(7)[(0-9223372036854775807-1):]", {0}), ("x0 = repeat(7)[:(0-9223372036854775807-1)]", {0}), ("x0 = repeat(7)[(0-9223372036854775807-1):(0-1)]", {0}),
    ("x0 = cycle([1,2])[(0-9223372036854775807-1):]", {0}), ("x0 = (1 to 3)[(0-9223372036854775807-1):9223372036854775807]", {0}),
    # i64::MIN as a machine word against -1: every operator whose machine result does not fit
    ("x0 = (0-9223372036854775807-1) // (0-1)", {0}), ("x0 = (0-9223372036854775807-1) % (0-1)", {0}), ("x0 = (0-9223372036854775807-1) %% (0-1)", {0}),
    ("x0 = (0-9223372036854775807-1) /! (0-1)", {0}), ("x0 = 0 - (0-9223372036854775807-1)", {0}), ("x0 = -(0-9223372036854775807-1)", {0}),
    ("x0 = abs(0-9223372036854775807-1)", {0}), ("x0 = (0-9223372036854775807-1) * (0-1)", {0}), ("x0 = (0-1) * (0-9223372036854775807-1)", {0}),
    ("x0 = (0-9223372036854775807-1) / (0-1)", {0}), ("x0 = (0-9223372036854775807-1) - 1", {0}), ("x0 = 9223372036854775807 + 1", {0}),
    ("x0 = gcd(0-9223372036854775807-1, 0-1)", {0}), ("x0 = lcm(0-9223372036854775807-1, 0-1)", {0}), ("x0 = (0-9223372036854775807-1) ^ 2", {0}),
    ("x0 = signum(0-9223372036854775807-1)", {0}), ("x1 = (0-9223372036854775807-1); x1 %= (0-1)", {1}), ("x1 = (0-9223372036854775807-1); x1 //= (0-1)", {1}),
    ("x0 = [0-9223372036854775807-1] map (% (0-1))", {0}), ("x0 = V(0-9223372036854775807-1) % (0-1)", {0}), ("x0 = sum([9223372036854775807, 1])", {0}),
    ("x0 = product([0-9223372036854775807-1, 0-1])", {0}), ("x0 = (0-9223372036854775807-1) til (0-9223372036854775807) then len", {0}),
    # values that contain something unhashable, in every key position
    ("x0 = {{1: (\\x -> x)}: 1}", {0}),
    ("x0 = {{\"k\": (1 to 3)}: 1}", {0}),
    ("x0 = {{1: C14S(1,[2])}: 1}", {0}),
    ("x0 = {[{1: (\\x -> x)}]: 1}", {0}),
    ("x0 = {{1: {2: (\\x -> x)}}: 1}", {0}),
    ("x0 = {{:(\\x -> x), 1: 2}: 1}", {0}),
    ("x0 = {[(0.0/0.0)]: 1}", {0}),
    ("x0 = {V(0.0/0.0): 1}", {0}),
    ("x0 = {(\\x -> x): 1}", {0}),
    ("x0 = set([{1: (\\x -> x)}])", {0}),
    ("x0 = unique([{1: (\\x -> x)}, {1: (\\x -> x)}])", {0}),
    ("x0 = frequencies([{1: (1 to 3)}])", {0}),
    ("x0 = count_distinct([{1: C14S(1,[2])}])", {0}),
    ("x0 = [1,2] group_all (\\v -> {1: (\\x -> x)})", {0}),
    ("x0 = [1,2] classify (\\v -> {1: (\\x -> x)})", {0}),
    ("x0 = {1: (\\x -> x)} in {1: 2}", {0}),
    ("x0 = {1: (\\x -> x)} not_in {1: 2}", {0}),
    ("x0 = {1: 2} contains {1: (\\x -> x)}", {0}),
    ("x0 = {1: 2}[{1: (\\x -> x)}]", {0}),
    ("x0 = {1: 2} !? {1: (\\x -> x)}", {0}),
    ("f := memoize(\\a -> 1); x0 = f({1: (\\x -> x)})", {0}),
    ("f := memoize(\\a -> 1); x0 = f([{1: {2: (1 to 3)}}])", {0}),
    ("x0 = {1: 2} |. {1: (\\x -> x)}", {0}),
    ("x0 = {1: 2} |.. [{1: (\\x -> x)}, 3]", {0}),
    ("x0 = {1: 2} || {{1: (\\x -> x)}: 3}", {0}),
    ("x0 = {1: 2} -. {1: (\\x -> x)}", {0}),
    ("x0 = {1: (\\x -> x)} == {1: (\\x -> x)}", {0}),
    ("x0 = [{1: (\\x -> x)}] == [{1: (\\x -> x)}]", {0}),
    ("x4 = {}; x4[{1: (\\x -> x)}] = 1", {4}),
    ("x4 = {}; x4[[{1: (1 to 3)}]] += 1", {4}),
    ("x0 = for (v <- [1,2]) yield {1: (\\x -> x)}: v", {0}),
    ("x0 = dict([[{1: (\\x -> x)}, 1]])", {0}),
    ("x0 = {1: (\\x -> x)} then keys then set", {0}),
    ("x0 = items({1: (\\x -> x)}) then set", {0}),
    ("x0 = values({1: (\\x -> x)}) then set", {0}),
    ("x0 = {1: 2} ||+ {{2: C14S(1,2)}: 3}", {0}),
    ("x0 = [{1: (\\x -> x)}] then sort", {0}),
    ("x0 = json_encode({1: (\\x -> x)})", {0}),
    ("x0 = {{1: 2}: 1}[{1: 2}]", {0}),
    ("x0 = switch ({1: (\\x -> x)}) case {1: 2} -> 1 case _ -> 2", {0}),
    ("x0 = [{1: (\\x -> x)}] locate {1: (\\x -> x)}", {0}),
    ("x0 = [{1: (\\x -> x)}] count {1: (\\x -> x)}", {0}),
    ("x0 = choose(\"\u00e9\u00e9\u00e9\u00e9\u00e9\")", {0}), ("x0 = choose(\"\U0001d11e\u4e2d\")", {0}), ("x0 = choose(\"\")", {0}), ("x0 = choose([])", {0}), ("x0 = choose({})", {0}),
    ("x0 = shuffle(\"\u00e9\u4e2dx\")", {0}), ("x0 = shuffle(5)", {0}), ("x0 = random_range(5, 5)", {0}), ("x0 = random_range(0-9223372036854775807-1, 9223372036854775807)", {0}),
    ("x0 = random_bytes(0-1)", {0}), ("x0 = random_bytes(0)", {0}), ("x0 = random(1)", {0}),
    ("x0 = len(1 til 5 by 0)", {0}), ("x0 = only(1 til 5 by 0)", {0}), ("x0 = if (1 til 5 by 0) 1 else 2", {0}), ("x0 = not (5 til 1 by 0)", {0}), ("x0, x1 = 1 til 5 by 0", {0, 1}),
    ("x0 = len(to(1, 5, 0))", {0}), ("x0 = 3 in (5 til 1 by 0)", {0}), ("x0 = len(5 til 1 by (0-1)) + len(1 til 5 by (0-1))", {0}), ("while (5 til 1 by 0) x0 = 1", {0}),
    ("x0 %= 0", {0}), ("x0 %%= 0", {0}), ("x0 /= 0", {0}), ("x0 gcd= null", {0}), ("x0 til= null", {0}), ("x0 by= 0", {0}), ("x0 = 1 to null", {0}),
]


# source texts that must end in a value, an error or a syntax error - never a crash (lexer, parser, literals, format strings)
WEIRD_SOURCES = [
    "", " ", "#", "#(", "#( #( )", "(", ")", "((((", "[", "]", "{", "}", "{:", "{:}", "\\", "\\ ->", "\\x", "\\x ->", "\\... -> 1", "\\...x, ...y -> 1",
    '"', "'", '"\\', '"\\x', '"\\x4', '"\\xzz"', '"\\u"', '"\\u{"', '"\\u{}"', '"\\u{110000}"', '"\\u{d800}"', '"\\u{ffffffffffff}"', '"\\u(41)"', '"\\u[41]"', '"\\u<41>"',
    '"\\q"', "R\"\\\"", 'B"\\xff\\u{100}"', 'B"é"', "F\"{\"", "F\"}\"", "F\"{}\"", "F\"{{\"", "F\"{1 +}\"", "F\"{1:}\"", "F\"{1:>}\"", "F\"{1:>99999999999999999999}\"",
    "F\"{1:.}\"", "F\"{1:.99999999999999999999}\"", "F\"{1.5:.400}\"", "F\"{1:x}\"", "F\"{1.5:x}\"", "F\"{null:b}\"", "F\"{1 #x #b #o}\"", "F\"{F\\\"{1}\\\"}\"",
    "0x", "0b", "0o", "0b2", "0o8", "0xg", "1r1", "1r0", "0r0", "37rz", "36rzz", "64r", "64r+/", "2r", "1e", "1e+", "1e999", "1e-999", "1.", ".5", "1..2", "1.2.3", "1__2", "1_", "0_0",
    "1q", "1.5q", "1i", "1.5i", "1j", "1f", "1ee1", "99999999999999999999999999999999999999999999f", "1" + "0" * 400, "0." + "0" * 400 + "1", "1e" + "9" * 30,
    "1 +", "+ 1", "1 + + 1", "1 2", "a b c", "x :=", ":= 1", "x = ", "x, = 1", ", x = 1", "x, y :=", "x ... = 1", "...x = [1]", "x, ...y, ...z = [1,2,3]",
    "if", "if (1)", "if (1) 2 else", "else 1", "for", "for (", "for (x <- ) 1", "for (x <- [1]) ", "for (x <- [1]; y <-) 1", "for (x <- [1]) yield", "for (x := ) 1",
    "while", "while (1)", "switch", "switch (1)", "switch (1) case", "switch (1) case 1", "switch (1) case 1 ->", "try", "try 1", "try 1 catch", "try 1 catch e", "try 1 catch e ->",
    "throw", "break 1 2", "continue 1", "return return", "struct", "struct A", "struct A (", "struct A (x, x); A(1, 2)", "struct A (); A()", "import", "import 5", "freeze", "freeze 1 +", "literally",
    "literally 1 = 1", "1 = 1", "[1] = [2]", "null = 1", "\"a\" = \"b\"", "x[", "x[]", "x[:]", "[1,2,3][::]", "[1,2,3][1:2:3]", "[1,2,3][:", "_", "_ + _", "(_)(1)", "(_ + )(1)", "_[_]",
    "1 !", "! 1", "1 ! 2", "f!", "1 . ", ". 1", "1 .. ", "x.y", "1.y", "(1).(2)", "1 |> 2", "1 then", "then 1", "`", "1 `f` 2", "1 `` 2", "a::b", "a::", "::a", "+::precedence", "(+)::x", "1::precedence",
    "x := 1; x := 2", "x : int = \"s\"", "x : int := 1; x = \"s\"", "x : nosuchtype := 1", "x : 5 := 1", "x: list := 1", "every", "every x", "every x = ", "swap", "swap x", "swap x,", "swap 1, 2",
    "pop", "pop 1", "pop []", "remove", "remove 1", "remove x", "consume", "consume 1", "consume x[",
    "{1:2}[", "{1:}", "{:1, :2}", "{1:2, 1:3}", "{[1]:2}", "{{}:1}", "{(\\x -> x): 1}", "{1.0: 1, 1: 2}", "{(0.0/0.0): 1}[(0.0/0.0)]",
    "(\\x -> x x)(\\x -> x x)", "f := \\x -> f(x); f(1)", "x := [x]", "(\\ -> break)()", "(\\ -> continue)()", "for (i <- [1]) (\\ -> break)()", "while (1) (\\ -> return 5)()",
    "1 < 2 < ", "1 < 2 > 3 == 4", "1 == 1 == 1 != 2", "1 max 2 min 3 + 4 * 5 ^ 6 - 7", "1 + 2 * 3 - 4 / 5 // 6 % 7 %% 8 ^ 0", "[1,2,3] .+ 4 +. 5", "1 and 2 or 3 coalesce 4", "not not not 1",
    "\u00e9 := 1; \u00e9", "\u03bb := 1", "x\u0301 := 1", "\u200b", "1\u00a02", "\ufeff1", "\x00", "1\x002", "\"\x00\"", "'\\0'", "\t\r\n1\r\n",
]


# operator / destructuring patterns against matching and non-matching values (declaration inside try/catch with a
# following statement, and as an arm of a multi-arm switch that must fall through)
PATTERNS = [
    "p * 0", "0 * p", "p * 2", "2 * p", "p * (0-2)", "p * (1/2)", "p * q", "p * \"a\"", "p * null",
    "p * (18446744073709551616-18446744073709551616)", "p * ((1/2)-(1/2))", "p * 9223372036854775807", "(p * 2) * 3",
    "p + 1", "1 + p", "p + 9223372036854775807", "p + (0-9223372036854775807-1)", "(0-9223372036854775807-1) + p", "p + \"a\"", "p + null", "p + q", "(p + 1) + 1",
    "-p", "-(p + 1)", "-(p * 2)", "p / q", "p / 2", "2 / p", "(p / q): int", "p / 0",
    "p .+ q", "p +. q", "p .+ []", "[] +. p", "1 .+ q", "p +. 2", "(p .+ q) +. r", "p .+ (q .+ r)",
    "1 < p < 9", "p < 9", "1 < p", "1 <= p <= 9", "1 < p <= q", "\"a\" < p < \"z\"", "p < q", "1 < p < q < 9", "p == 5", "p != 5", "null < p", "[1] < p < [9]", "1 < 2 < 3",
    "[p, q]", "[p, ...q]", "[...p, q]", "[p, ...q, r]", "p: int", "p: str", "p: float", "p: list", "p: nosuchtype", "p: 5", "p: C14S",
    "C14S(p, q)", "C14S(p)", "C14S(p, q, r)", "C14S(1, p)", "C14S(C14S(p, q), r)", "C14S", "c14a(p)",
    "literally 5", "literally null", "literally p", "literally [1, 2]", "5", "\"a\"", "null", "[1, 2]", "[1, p]", "[literally 1, p]",
    "1 or 2", "p or q", "[p, 1] or [1, p]", "(p: int) or (p: str)", "p and q", "(p: int) and (q: int)", "[p, q] and r", "(p and [q, r]) or s", "(p * 2) or (p + 1)", "(1 < p < 9) and (p * 2)",
    "_", "[_, p]", "[_, _]", "(p, q)", "p, q", "p, (q, r)", "...p",
]
# parameter lists (defaults, splats, annotations, operator patterns) tried as `(\\PARAMS -> 1)(VALUE)` and `(...VALUE)`
LAMBDA_PARAMS = ["p, q = 3", "p = 1, q = 2", "p, q = 1 // 0", "p = 1 // 0, q", "p = 1, q", "p, ...q", "...p, q", "...p, q = 2", "p: int, q: str = \"a\"",
                 "[p, q], r = 5", "p * 2", "p * 0", "p + 1, q * 0", "C14S(p, q), r = 1", "p, [q, r] = [7, 8]", "-p", "p / q", "p .+ q", "1 < p < 9", "literally 5", "p or q", "_"]
PATTERN_VALUES = [
    "0", "1", "5", "6", "7", "(0-3)", "(0-9223372036854775807-1)", "9223372036854775807", "18446744073709551616", "(18446744073709551616-18446744073709551610)",
    "(1/2)", "(7/2)", "((1/2)-(1/2))", "0.0", "2.5", "6.0", "(0.0/0.0)", "(1.0/0.0)", "(1+2i)", "(0.0*1i)", "null", "\"a\"", "\"\"", "\"abc\"", "\"\u00e9\"", "\"\u4e2d\u6587\"", "\"\U0001d11ex\"", "\"a\u00e9\"",
    "[]", "[1]", "[1,2]", "[1,\"a\"]", "[[1,2],3]", "[1,2,3]", "{}", "{1:2}", "C14S(1,[2])", "C14S(1,2)", "C14S(C14S(1,2),3)", "(1 to 2)", "(0 til 0)", "B[1]", "V(1,2)", "V(4,6)", "(\\x -> x)", "C14S",
]


def run_patterns(ctx):
    pre = ["struct C14S (c14a, c14b)", "x0 := 5", "x1 := (0-3)", f"x{MARK} := 0"]
    post = ["x0", "x1", f"x{MARK}"]
    progs = []
    for pat in PATTERNS:
        for val in PATTERN_VALUES:
            progs.append(("decl", pat, val, f"try ({pat} := {val}) catch x8 -> (x1 = 42)"))
            progs.append(("switch", pat, val, f"try (x0 = switch ({val}) case 99 -> 9 case {pat} -> 1 case [{pat}] -> 3 case _ -> 2) catch x8 -> (x1 = 42)"))
    for par in LAMBDA_PARAMS:
        for val in PATTERN_VALUES:
            progs.append(("call", par, val, f"try (x0 = (\\{par} -> 1)({val})) catch x8 -> (x1 = 42)"))
            progs.append(("call", par, val, f"try (x0 = (\\{par} -> 1)(...{val})) catch x8 -> (x1 = 42)"))
    res = common.run_prog([pre + [src, f"x{MARK} = 77"] + post for _, _, _, src in progs], timeout=20.0, fuel=50_000)
    stats = {"patterns": len(PATTERNS), "values": len(PATTERN_VALUES), "programs": len(progs), "bound": 0, "raised_and_contained": 0, "syntax": 0,
             "switch_arm_taken": {}, "statements": 0}
    bad = []
    np = len(pre)
    for (ctxk, pat, val, src), r in zip(progs, res):
        rr = r.get("results") or [r]
        stats["statements"] += len(rr)
        rec = dict(shape="pattern", program=f"{src}; x{MARK} = 77", pattern=pat, value=val, impl=[(x.get("status"), x.get("val") or x.get("msg")) for x in rr[np:np + 2]])
        if r.get("status") in ("hang", "abort") or any(x.get("status") in ("panic", "hang", "abort") for x in rr) or len(rr) < np + 2 + len(post):
            rec["what"] = "the implementation panicked / hung / aborted on a destructuring pattern inside try/catch"
            bad.append(("property", rec))
            continue
        st = rr[np].get("status")
        if st == "parse":
            stats["syntax"] += 1
            continue
        x0, x1, mk = (rr[np + 2 + j].get("val") for j in range(3))
        if st != "ok":
            rec["what"] = "an error escaped try ... catch x8 -> ..."
            bad.append(("property", rec))
            continue
        if mk != "I77":
            rec["what"] = "the statement after the try did not run"
            bad.append(("property", rec))
            continue
        if x1 == "I42":
            stats["raised_and_contained"] += 1
        else:
            stats["bound"] += 1
        if ctxk == "decl" and x0 != "I5":
            rec["what"] = "a pattern declaration changed a variable it does not name (x0)"
            bad.append(("property", rec))
            continue
        if ctxk == "call" and x1 != "I42" and x0 != "I1":
            rec["what"] = "a call that did not raise did not return the body's value"
            bad.append(("property", rec))
            continue
        if ctxk == "switch" and x1 != "I42":
            stats["switch_arm_taken"][x0] = stats["switch_arm_taken"].get(x0, 0) + 1
            if x0 not in ("I1", "I2", "I3"):
                rec["what"] = "the switch neither took an arm nor raised"
                bad.append(("property", rec))
    return stats, bad


# write forms (the statement forms of C01) on string / bytes / vector / list / dict / nested targets, with the right-hand side
# from the fault pool - including one-character non-ASCII strings of 2, 3 and 4 bytes
WRITE_TARGETS = [   # (initial value, path prefix between the variable and the index under test)
    ('"abc"', ""), ('"a\u00e9b"', ""), ('"\u4e2d\u6587"', ""), ('""', ""), ("B[1,2,3]", ""), ("B[]", ""), ("V(1,2,3)", ""), ("V()", ""), ("[1,2,3]", ""),
    ('[[1,2],"ab"]', "[1]"), ('{1:"ab"}', "[1]"), ('[B[1,2],V(3,4)]', "[0]"), ('[B[1,2],V(3,4)]', "[1]"), ('C14S("ab",B[7])', "[c14a]"), ("(1 to 3)", ""), ("5", ""), ("null", ""),
]
WRITE_INDICES = ["0", "1", "(0-1)", "3", "(0-4)", "null", "9223372036854775807", "(0-9223372036854775807-1)", '"a"']
WRITE_RHS = ['"z"', '"\u00e9"', '"\u2192"', '"\U0001d11e"', '"\\u{0}"', '"\\u{7f}"', '"\\u{80}"', '""', '"zz"', '"\u00e9\u00e9"', '"a\u0301"', "0", "255", "256", "(0-1)", "1.5", "(0.0/0.0)",
             "(1/2)", "18446744073709551616", "null", "[1]", "B[1]", "V(1)", "(\\x -> x)", "(1+2i)"]
WRITE_FORMS = [    # T = the target path up to the index, I = index, V = right-hand side
    "T[I] = V", "T[I] += V", "T[I] ++= V", "T[I] max= V", "T[I:] = V", "T[:I] = V", "every T[I:] = V", "every T[:] = V", "every T = V",
    "t |..= [I, V]", "t = t |.. [I, V]", "T[I], x1 = V, 1", "x1, T[I] = [1, V]", "swap T[I], x1", "T[I] = T[I] $ V", "T[I] .= (\\c -> V)", "T[I][0] = V",
]


def run_writes(ctx):
    pre = ["struct C14S (c14a, c14b)", "x0 := 5", "x1 := (0-3)", f"x{MARK} := 0"]
    post = ["x0", f"x{MARK}", "t"]
    combos = [(tg, ix, rhs, form) for tg in WRITE_TARGETS for ix in WRITE_INDICES for rhs in WRITE_RHS for form in WRITE_FORMS]
    if ctx.quick():
        # every (target, rhs, form) with the in-range index, every (target, index, form) with two right-hand sides, and a sample of the rest
        keep = [c for c in combos if c[1] in ("0", "1") or c[2] in ('"z"', '"\u00e9"')]
        rest = [c for c in combos if not (c[1] in ("0", "1") or c[2] in ('"z"', '"\u00e9"'))]
        combos = keep + ctx.rng.sample(rest, min(len(rest), 4000))
    progs = []
    for (init, prefix), ix, rhs, form in combos:
        src = form.replace("T", "t" + prefix).replace("I", ix).replace("V", rhs)
        progs.append((init, src))
    res = common.run_prog([pre + [f"t := {init}", f"try ({src}) catch x8 -> (x1 = 42)", f"x{MARK} = 77"] + post for init, src in progs], timeout=20.0, fuel=50_000)
    stats = {"programs": len(progs), "targets": len(WRITE_TARGETS), "indices": len(WRITE_INDICES), "rhs": len(WRITE_RHS), "forms": len(WRITE_FORMS),
             "syntax": 0, "statements": 0}
    bad = []
    np = len(pre) + 1
    for (init, src), r in zip(progs, res):
        rr = r.get("results") or [r]
        stats["statements"] += len(rr)
        rec = dict(shape="write", program=f"t := {init}; try ({src}) catch x8 -> (x1 = 42); x{MARK} = 77; t", impl=[(x.get("status"), x.get("val") or x.get("msg")) for x in rr[np:]])
        if r.get("status") in ("hang", "abort") or any(x.get("status") in ("panic", "hang", "abort") for x in rr) or len(rr) < np + 2 + len(post):
            rec["what"] = "the implementation panicked / hung / aborted on a write form inside try/catch"
            bad.append(("property", rec))
            continue
        st = rr[np].get("status")
        if st == "parse":
            stats["syntax"] += 1
            continue
        x0, mk = rr[np + 2].get("val"), rr[np + 3].get("val")
        tv = rr[np + 4]
        if st != "ok":
            rec["what"] = "an error escaped try ... catch x8 -> ..."
        elif mk != "I77":
            rec["what"] = "the statement after the try did not run"
        elif x0 != "I5":
            rec["what"] = "a write form changed a variable it does not name (x0)"
        elif tv.get("status") != "ok":
            rec["what"] = "the target variable cannot be read after the (failed) write"
        else:
            continue
        bad.append(("property", rec))
    return stats, bad


def canon_strings_to_E(s):
    return re.sub(r'S"(?:[^"\\]|\\.)*"', "E", s)


def impl_view(results, nprog):
    """(status text, {var: canonical}) from the harness result of decls + program + dumps"""
    r = results[nprog]
    st = r.get("status")
    if st == "ok":
        status = "done"
    elif st == "err":
        status = "throw " + canon_strings_to_E(r.get("thrown", "?"))
    elif st == "sig":
        sg = r.get("sig")
        status = {"break": f"break {r.get('n')}", "continue": f"cont {r.get('n')}"}.get(sg, "ret " + canon_strings_to_E(str(r.get("val"))))
    else:
        status = st          # panic / parse / hang / abort
    return status, r


def run_inject(ctx, runner):
    g = Gen(ctx.rng)
    n = ctx.n(2500, 30000)
    progs = [g.program() for _ in range(n)]
    declared = sorted(INIT)
    decls = [f"x{k} := {s_val(INIT[k])}" for k in declared]
    dumps = [f"x{k}" for k in declared]
    srcs = [decls + [s_stmt(t)] + dumps for _, t in progs]
    for src, nm in RAW_FAULTS:
        srcs.append(decls + [f"try ({src}) catch x8 -> (x1 = 42)", f"x{MARK} = 77"] + dumps)
    res = common.run_prog(srcs, timeout=20.0, fuel=200_000)
    mlines = ["400 %d %s %s" % (NVARS, " ".join(m_val(INIT[k]) if k in INIT else "U" for k in range(NVARS)), m_stmt(t)) for _, t in progs]
    mres = common.run_model(runner, mlines) if runner else [None] * len(progs)
    nd = len(decls)
    stats = {"programs": len(progs), "raw_fault_programs": len(RAW_FAULTS), "model_compared": 0, "model_fuel": 0, "by_shape": {}, "impl_status": {},
             "caught_and_continued": 0, "raised_to_top": 0, "failed_opassign_left_null": 0, "raw_raised": 0, "statements": 0}
    bad = []

    def final_vars(rr):
        out = {}
        for j, k in enumerate(declared):
            d = rr[nd + 1 + j] if nd + 1 + j < len(rr) else {}
            out[k] = canon_strings_to_E(d.get("val", "?" + str(d.get("status"))))
        return out

    for i, ((shape, t), r) in enumerate(zip(progs, res)):
        rr = r.get("results") or [r]
        stats["statements"] += len(rr)
        stats["by_shape"][shape] = stats["by_shape"].get(shape, 0) + 1
        if len(rr) <= nd:
            bad.append(("property", dict(program=s_stmt(t), model=m_stmt(t), what="the harness died while declaring variables", impl=str(r)[:300])))
            continue
        status, pr = impl_view(rr, nd)
        stats["impl_status"][status.split(" ")[0]] = stats["impl_status"].get(status.split(" ")[0], 0) + 1
        rec = dict(shape=shape, program=s_stmt(t), model_program=m_stmt(t), impl_status=status, impl_msg=pr.get("msg"))
        if status in ("panic", "hang", "abort") or r.get("status") in ("hang", "abort"):
            rec["what"] = "the implementation panicked / hung / aborted on a terminating program"
            bad.append(("property", rec))
            continue
        if status == "parse":
            rec["what"] = "the rendered program does not parse (driver renderer and implementation disagree)"
            bad.append(("correspondence", rec))
            continue
        fv = final_vars(rr)
        rec["impl_vars"] = fv
        nm = stmt_names(t)
        # property-level checks (independent of the Coq model)
        untouched = [k for k in declared if k not in nm and fv[k] != c_val(INIT[k])]
        if untouched:
            rec["what"] = f"variables not named by the statement changed: {['x%d' % k for k in untouched]}"
            bad.append(("property", rec))
            continue
        if shape == "caught" and t[1][3][0] in ("skip", "asg"):
            if status != "done" or fv[MARK] != "I77":
                rec["what"] = "a caught fault (quiet catch clause) did not let the next statement run"
                bad.append(("property", rec))
                continue
        if status == "done" and MARK in nm and shape != "free" and fv[MARK] != "I77":
            rec["what"] = "the program completed but the statement after the try did not run"
            bad.append(("property", rec))
            continue
        if shape.startswith("caught") and status == "done":
            stats["caught_and_continued"] += 1
        if status.startswith("throw"):
            stats["raised_to_top"] += 1
        if any(fv[k] == "N" and INIT[k] is not None for k in (0, 1)):
            stats["failed_opassign_left_null"] += 1
        # model comparison
        m = mres[i]
        if m is None:
            continue
        if m == "fuel":
            stats["model_fuel"] += 1
            continue
        stats["model_compared"] += 1
        if " | " not in m:
            rec["what"] = "model runner: " + m
            rec["coq_model"] = m
            bad.append(("correspondence", rec))
            continue
        mstatus, mvars = m.split(" | ")
        mv = mvars.split(" ")
        mfinal = {k: mv[k] for k in declared}
        rec["coq_model"] = m
        if mstatus != status or any(mfinal[k] != fv[k] for k in declared):
            rec["what"] = ("correspondence Lang/Contain.v <-> implementation no longer checks on this program; the property-level checks "
                           "(no crash, untouched variables intact, next statement runs) pass on the implementation's answer")
            bad.append(("correspondence", rec))
    # raw faults: property-level checks only
    for (src, nm), r in zip(RAW_FAULTS, res[len(progs):]):
        rr = r.get("results") or [r]
        stats["statements"] += len(rr)
        rec = dict(shape="raw", program=f"try ({src}) catch x8 -> (x1 = 42); x{MARK} = 77", impl=[(x.get("status"), x.get("val") or x.get("msg")) for x in rr[nd:nd + 2]])
        if r.get("status") in ("hang", "abort") or len(rr) < nd + 2 + len(declared) or any(x.get("status") in ("panic", "hang", "abort") for x in rr):
            rec["what"] = "the implementation panicked / hung / aborted on a faulty statement wrapped in try/catch"
            bad.append(("property", rec))
            continue
        st = rr[nd].get("status")
        if st == "parse":
            continue       # a syntax error is reported before anything runs: nothing to contain
        fv = {k: canon_strings_to_E(rr[nd + 2 + j].get("val", "?")) for j, k in enumerate(declared)}
        rec["impl_vars"] = fv
        if st != "ok":
            rec["what"] = "an error escaped try ... catch x8 -> ..."
            bad.append(("property", rec))
            continue
        if fv[1] == "I42":
            stats["raw_raised"] += 1
        if fv[MARK] != "I77":
            rec["what"] = "the statement after the caught fault did not run"
            bad.append(("property", rec))
            continue
        allowed = set(nm) | {1, MARK}
        untouched = [k for k in declared if k not in allowed and fv[k] != c_val(INIT[k])]
        if untouched:
            rec["what"] = f"variables not named by the failing statement changed: {['x%d' % k for k in untouched]}"
            bad.append(("property", rec))
    # weird source texts: a value, an error, a syntax error - never a crash
    wres = common.run_prog(list(WEIRD_SOURCES), timeout=20.0, fuel=2_000)   # small fuel: unbounded recursion must end in the fuel error, not in the native stack
    stats["weird_sources"] = len(WEIRD_SOURCES)
    stats["weird_outcomes"] = {}
    for src, r in zip(WEIRD_SOURCES, wres):
        st = r.get("status")
        if st == "err" and r.get("class") == "fuel":
            st = "fuel"
        stats["weird_outcomes"][st] = stats["weird_outcomes"].get(st, 0) + 1
        if st not in ("ok", "err", "parse", "sig", "empty", "fuel"):
            bad.append(("property", dict(shape="source", program=src, impl_status=st, impl_msg=r.get("msg"),
                                         what="the implementation panicked / hung / aborted on a source text")))
    samples = [dict(program=s_stmt(t), model=mres[i], shape=sh) for i, (sh, t) in list(enumerate(progs))[:: max(1, len(progs) // 8)]][:8]
    return stats, bad, samples


def report_inject(ctx, bad):
    seen = set()
    for kind, rec in bad:
        key = (kind, rec.get("what", "")[:50], rec.get("shape"))
        if key in seen:
            continue
        seen.add(key)
        ctx.violation(kind, rec, found=(kind == "property"))


# ----------------------------------------------------------------------------- index / slice bounds on every stream constructor
SB_SETUP0 = SETUP + [
    "c14_index := \\s, i -> s[i]", "c14_lo := \\s, a -> s[a:]", "c14_hi := \\s, b -> s[:b]", "c14_slice := \\s, a, b -> s[a:b]",
    "c14_sec_index := \\s, i -> (_[i])(s)", "c14_sec_slice := \\s, a, b -> (_[a:b])(s)",
]
SB_OBS = {     # observers applied to every constructor (one argument)
    "c14_len": "\\s -> len(s)", "c14_only": "\\s -> only(s)", "c14_truth": "\\s -> if (s) 1 else 0", "c14_not": "\\s -> not s",
    "c14_unpack2": "\\s -> (p, q := s; p)", "c14_unpack_splat": "\\s -> (p, ...q := s; p)", "c14_unpack1": "\\s -> (p, := s; p)",
    "c14_in": "\\s -> 1 in s", "c14_contains": "\\s -> s contains null", "c14_last": "\\s -> last(s)", "c14_first": "\\s -> first(s)",
    "c14_reverse": "\\s -> reverse(s)", "c14_list": "\\s -> list(s)", "c14_for": "\\s -> (for (v <- s) break)", "c14_eq": "\\s -> s == s",
    "c14_and": "\\s -> s and 1", "c14_or": "\\s -> s or 1", "c14_while": "\\s -> (n := 0; while (s and n < 2) n += 1; n)", "c14_switch": "\\s -> switch (s) case [] -> 0 case [a] -> 1 case _ -> 2",
    "c14_sum": "\\s -> sum(s)", "c14_max": "\\s -> max(s)", "c14_sort": "\\s -> sort(s)", "c14_set": "\\s -> set(s)", "c14_str": "\\s -> str(s take 3)", "c14_tail": "\\s -> tail(s)",
    "c14_butlast": "\\s -> butlast(s)", "c14_uncons": "\\s -> uncons(s)", "c14_unsnoc": "\\s -> unsnoc(s)", "c14_lenfilter": "\\s -> len(s lazy_map (+1))", "c14_zip": "\\s -> len(s zip [1,2])",
}
SB_SETUP = SB_SETUP0 + [f"{k} := {v}" for k, v in SB_OBS.items()]
SB_INF_FAST = ["repeat(7)", "cycle([1,2])"]                      # have their own index / slice code
SB_INF_SLOW = ["(cycle([1,2,3]) drop 1)", "iota(0)", "iterate(0, \\x -> x+1)", "(iota(0) lazy_map \\x -> x)",
               # a range with step exactly 0 that is not empty repeats its start for ever
               "(1 til 5 by 0)"]
# more zero-step ranges: seen by the observers only (their index / slice behaviour is that of the one above)
SB_INF_OBS_ONLY = ["til(1, 5, 0)", "to(1, 5, 0)", "(5 to 5 by 0)", "(1 to 5 by (18446744073709551616-18446744073709551616))",
                   "((0-9223372036854775807-1) til 9223372036854775807 by 0)", "(18446744073709551616 til 18446744073709551619 by 0)"]
SB_FINITE = ["(5 til 1 by 0)", "(5 til 5 by 0)", "to(5, 1, 0)", "(9223372036854775807 til (0-9223372036854775807-1) by 0)",      # zero step, empty
             "(5 til 1 by (0-1))", "(1 til 5 by (0-1))", "(5 to 1 by (0-1))", "(1 to 5 by (0-2))", "to(5, 1, (0-2))", "(5 til 1 by (0-9223372036854775807-1))",
             "(5 til 1 by (0-18446744073709551616))", "(1 til 5 by 18446744073709551616)", "(1 til 5 by 9223372036854775807)",
             "(18446744073709551616 til 18446744073709551619)", "(18446744073709551619 til 18446744073709551616 by (0-1))",
             "((0-9223372036854775807-1) to (0-9223372036854775807))", "(9223372036854775806 to 9223372036854775807)", "(9223372036854775807 to 9223372036854775806 by (0-1))",
             "((0-9223372036854775807-1) to 9223372036854775807 by 9223372036854775807)", "((18446744073709551616-18446744073709551615) til (18446744073709551616-18446744073709551612))",
             "(1 to 3)", "(0 til 0)", "(5 to 1 by (0-2))", "stream([1,2,3])", "((1 to 3) lazy_map (+1))", "((1 to 5) lazy_filter odd)",
             "permutations([1,2])", "combinations([1,2,3], 2)", "subsequences([1,2])", "([1,2] ^^ 2)", '("a" to "c")', '("\\u{d7ff}" to "\\u{e000}")',
             "[1,2,3]", '"abc"', "V(1,2,3)", "B[1,2,3]", "(1 to 3 zip [4,5,6])", "enumerate([7,8])"]
SB_BOUNDS = [0, 1, -1, 2, -2, 3, -3, 4, 2 ** 31, -2 ** 31, 2 ** 63 - 2, 2 ** 63 - 1, -2 ** 63 + 1, -2 ** 63, 2 ** 63, -2 ** 63 - 1, 2 ** 64]
SB_BOUNDS_PAIR = [0, 1, -1, 2 ** 31, -2 ** 31, 2 ** 63 - 1, -2 ** 63, 2 ** 63, -2 ** 63 - 1]
SB_BOUNDS_PAIR_SLOW = [0, 1, -1, 2 ** 63 - 1, -2 ** 63]
SB_FNS2 = ["c14_index", "c14_lo", "c14_hi", "c14_sec_index", "!!", "!?", "index", "index?", "take", "drop"]
SB_FNS3 = ["c14_slice", "c14_sec_slice"]


def run_stream_bounds(ctx):
    """s[i], s[a:], s[:b], s[a:b] (expression and section forms) and the index builtins, for every stream constructor and
    the machine-word boundary bounds"""
    streams = SB_INF_FAST + SB_INF_SLOW + SB_INF_OBS_ONLY + SB_FINITE
    ninf = len(SB_INF_FAST) + len(SB_INF_SLOW) + len(SB_INF_OBS_ONLY)
    full = [si for si, src in enumerate(streams) if src not in SB_INF_OBS_ONLY]
    nums = sorted(set(SB_BOUNDS))
    pool = streams + [str(n) if n >= 0 else f"(0-{-n})" for n in nums]
    at = {n: len(streams) + k for k, n in enumerate(nums)}
    sw = Sweep(ctx)
    cases = []

    def case(fn, tuples):
        c = sw.case(fn, tuples=tuples, limit_ms=200, pool=pool)
        c["setup"] = SB_SETUP
        return c
    for fn in SB_FNS2:
        cases.append(case(fn, [[si, at[b]] for si in full for b in SB_BOUNDS]))
    for fn in SB_OBS:
        cases.append(case(fn, [[si] for si in range(len(streams))]))
    for fn in SB_FNS3:
        for si in full:
            src = streams[si]
            bs = SB_BOUNDS_PAIR_SLOW if src in SB_INF_SLOW else SB_BOUNDS_PAIR
            cases.append(case(fn, [[si, at[a], at[b]] for a in bs for b in bs]))
    sw.run(cases)
    viol, tol = [], []
    for f in sw.fail:
        inf = f["t"][0] < ninf
        f["call"] = f"{f['fn']}({', '.join(pool[i] for i in f['t'])})"
        if f["status"] != "panic" and inf:
            tol.append(f)       # an infinite stream asked for its end / for 2^63 elements: non-terminating input
        else:
            viol.append(f)
    suspects = [f for f in viol if f["status"] == "hang"]
    if suspects:
        sw2 = Sweep(ctx)
        cs = []
        for f in suspects[:12]:
            c = sw2.case(f["fn"], tuples=[f["t"]], limit_ms=5000, pool=pool)
            c["setup"] = SB_SETUP
            cs.append(c)
        sw2.run(cs, workers=12)
        still = {(g["fn"], tuple(g["t"])) for g in sw2.fail}
        checked = {(f["fn"], tuple(f["t"])) for f in suspects[:12]}
        viol = [f for f in viol if f["status"] != "hang" or (f["fn"], tuple(f["t"])) in still or (f["fn"], tuple(f["t"])) not in checked]
    stats = {"calls": sw.calls, "outcomes": dict(sorted(sw.counts.items())), "streams": streams, "bounds": [str(b) for b in SB_BOUNDS],
             "functions": SB_FNS2 + SB_FNS3, "observers": SB_OBS, "tolerated_nonterminating_input": len(tol), "violations": len(viol)}
    bad = []
    seen = set()
    for f in viol:
        key = (f["status"], f["loc"] or f["msg"][:50])
        if key in seen:
            continue
        seen.add(key)
        bad.append(("property", dict(shape="stream-bounds", what="indexing / slicing / observing (len, truthiness, unpacking, ...) a stream did not end in a value or a catchable error: " + f["status"],
                                     call=f["call"], status=f["status"], msg=f["msg"], panic_location=f["loc"],
                                     same_site_calls=[g["call"] for g in viol if (g["status"], g["loc"] or g["msg"][:50]) == key][:10])))
    return stats, bad


def sweep_coverage(ctx, S):
    sw = S["sw"]
    per_fn_ok = sum(1 for fn in S["fns"] if sw.per_fn.get(fn, {}).get("ok", 0) > 0)
    nontrivial = sum(v for k, v in sw.counts.items() if k == "ok" or k.startswith("err:") and k not in ("err:argument",))
    ctx.coverage.update({
        "sweep_calls": sw.calls, "sweep_batches": sw.batches,
        "sweep_functions": len(S["fns"]), "sweep_functions_with_a_value_result": per_fn_ok,
        "sweep_excluded_by_name": S["excluded"],
        "sweep_outcomes": dict(sorted(sw.counts.items())),
        "sweep_not_argument_count_errors": nontrivial,
        "sweep_pool": {"bounded": [s for s, _ in POOL_B], "infinite_fuel_burning": INF_FUEL[0],
                       "huge": [s for s, _ in POOL_H], "infinite_native": [s for s, _ in INF_NATIVE]},
        "sweep_native_infinite_calls": S["native_cases"],
        "sweep_functions_taking_three_arguments_sampled_2500": len(S["accepting3"]),
        "sweep_skipped_after_budget": sw.skipped,
        "sweep_known_class_hits": len(S["known"]),
        "sweep_known_class_by_fn": {k: sum(1 for f in S["known"] if f["fn"] == k) for k in sorted({f["fn"] for f in S["known"]})},
        "sweep_tolerated_nonterminating_input": len(S["tolerated"]),
        "sweep_slow_not_hang": [render_call(f["fn"], f["t"]) for f in S["slow_not_hang"]],
        "sweep_violations": len(S["viol"]),
        "sweep_wall_s": round(S["t_all"], 1),
        "sweep_slowest": [dict(call=render_call(x["fn"], x["t"]), ms=x["ms"]) for x in sorted(sw.slow, key=lambda x: -x["ms"])[:8]],
    })


def run(ctx):
    runner = common.standard_prelude(ctx)
    # fault injection first (cheap), then the sweep
    stats, bad, samples = run_inject(ctx, runner)
    report_inject(ctx, bad)
    S = run_sweep(ctx)
    amodel, abad = run_alloc_model(ctx, runner)
    report_inject(ctx, abad)
    wstats, wbad = run_writes(ctx)
    report_inject(ctx, wbad)
    ctx.coverage["write_forms"] = wstats
    pstats, pbad = run_patterns(ctx)
    report_inject(ctx, pbad)
    ctx.coverage["patterns"] = pstats
    sbstats, sbbad = run_stream_bounds(ctx)
    report_inject(ctx, sbbad)
    ctx.coverage["stream_bounds"] = sbstats
    ctx.coverage["alloc_model"] = amodel
    report_sweep(ctx, S)
    sweep_coverage(ctx, S)
    ctx.coverage["inject"] = stats
    ctx.coverage["inject_disagreements"] = len(bad)
    ctx.coverage["evaluations"] = S["sw"].calls + stats["programs"] + stats["raw_fault_programs"] + sbstats["calls"] + pstats["programs"] + wstats["programs"]
    ctx.coverage["distinct_nontrivial"] = ctx.coverage["sweep_not_argument_count_errors"] + stats["raised_to_top"] + stats["caught_and_continued"]
    ctx.coverage["rule"] = ("one evaluation = one application of a global function to an argument tuple (sweep) or one fault-injected program; "
                            "non-trivial = the call got past the argument-count check / the program raised to the top or had a fault caught and continued")
    sw = S["sw"]
    ctx.coverage["samples"] = samples + [dict(call=render_call(f["fn"], f["t"]), status=f["status"], cls=f["class"]) for f in (S["known"][:4] + S["tolerated"][:2])]
    ctx.assumptions += ["values of the model are null / integers / nested lists; error messages are one opaque value",
                        "variables are declared up front; the only scoped variable is the catch variable",
                        "panic-freedom of builtin bodies is a sweep result over the pool, not a theorem (hypothesis op_no_panic of C14_program_no_panic)",
                        "a call that does not return within the CPU limit while an argument is an infinite stream is non-terminating input, not a hang"]
    return common.conclude(ctx)


def replay(ctx, rep):
    runner = common.standard_prelude(ctx)
    if "program" in rep:
        declared = sorted(INIT)
        decls = ["struct C14S (c14a, c14b)"] + [f"x{k} := {s_val(INIT[k])}" for k in declared]
        prog = rep["program"]
        stmts = decls + ([prog] if rep.get("shape") != "raw" else prog.split("; x%d = 77" % MARK)[:1] + [f"x{MARK} = 77"]) + [f"x{k}" for k in declared]
        r = common.run_prog([stmts], timeout=20.0, fuel=200_000)[0]
        rr = r.get("results") or [r]
        out = {"program": prog, "implementation": [(x.get("status"), x.get("val") or x.get("msg")) for x in rr[len(decls):]]}
        if rep.get("model_program") and runner:
            line = "400 %d %s %s" % (NVARS, " ".join(m_val(INIT[k]) if k in INIT else "U" for k in range(NVARS)), rep["model_program"])
            out["coq_model"] = common.run_model(runner, [line])[0]
        print(json.dumps(out))
        crashed = any(x.get("status") in ("panic", "hang", "abort") for x in rr) or r.get("status") in ("hang", "abort")
        return 1 if crashed or rep.get("failing_input_found") else 0
    if "tuple" in rep and "fn" in rep:
        sw = Sweep(ctx)
        t = rep["tuple"]
        if rep.get("args") and all(a in SRC for a in rep["args"]):
            t = [SRC.index(a) for a in rep["args"]]         # the pool may have been reordered since the replay was written
        sw.run([sw.case(rep["fn"], tuples=[t], limit_ms=20000)], workers=1)
        for f in sw.fail:
            f["class"] = classify(f)
        print(json.dumps({"call": render_call(rep["fn"], t), "outcomes": sw.counts, "failures": sw.fail}))
        return 1 if any(f["class"] == "violation" for f in sw.fail) else 0
    print(json.dumps({"what": "nothing to replay in this file", "keys": sorted(rep)}))
    return 1
