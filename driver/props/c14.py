"""C14 - every failure is a catchable error, never a crash; try/catch contains it.

Three parts:
  proof      Lang/Contain.v (+ _proofs): a Gallina transcription of the error-containment skeleton
             of evaluate() (Try intercepts only Throw; the order of effects of assignment and
             op-assignment), with unbounded theorems; re-exports of the panic-freedom theorems
             of modelled cores.
  sweep      every global function of the live env (Env.vars) x every tuple of 0..3 arguments
             from a pool of all kinds and boundary values, each call under catch_unwind in
             worker processes (harness/src/bin/c14.rs), fuel hook, per-call watchdog.
  inject     small multi-statement programs with one injected fault wrapped in try/catch;
             the statement after the fault must still run and the variables the failing
             statement does not name must keep their values; compared with the extracted
             Contain model and with an independent Python oracle.
"""
import itertools, json, threading, time
import common

ID = "C14"
MANIFEST = dict(
    technique="Coq proof (error containment of a Gallina transcription of evaluate()'s Try/assign/op-assign skeleton, unbounded) + "
              "exhaustive builtin x argument-pool sweep under catch_unwind + fault-injection correspondence model/implementation/Python oracle",
    text="Machine-checked theorems (Coq 8.16, no axioms) about Lang/Contain.v, a transcription of the error-propagation skeleton of "
         "src/eval.rs (Sequence, Assign, IndexAssign, OpAssign with its read / evaluate-RHS / drop_lhs / call / assign-back order, Try which "
         "intercepts only NErr::Throw, Throw, While with Break/Continue, Return): whatever raises Throw inside try reaches the catch clause "
         "while Break/Continue/Return pass through; after a statement raises, every variable it does not name has its previous value (the "
         "named slot may be null after a failed op-assign); evaluation continues with the next statement in that store; the model never "
         "produces Panic. Panic-freedom theorems of the other modelled cores are re-exported. That applying a builtin yields a value or an "
         "error and never a panic/abort/hang is NOT a theorem: it is searched by the sweep (all global functions x 0..2 arguments exhaustive "
         "over a 44-value pool + sampled triples in the quick tier, all triples in the thorough tier) and by fault-injected programs.",
    note="Trusted: Coq kernel; hand-written model Lang/Contain.v (tied to /repo by the fault-injection correspondence, i.e. differential testing); "
         "extraction + OCaml runner; Rust harness (catch_unwind, panic hook, watchdog thread, RLIMIT_AS); Python driver and oracle. "
         "Panic-freedom of the ~300 builtin bodies is a sweep result over the pool, not a proof. Builtins touching files, processes, clock, sleep, "
         "stdin, randomness and eval are excluded by name. The huge-count class (counts/widths/shifts/exponents >= 2^31) is a recorded known finding.",
    design="6-C14")

# ----------------------------------------------------------------------------- the sweep: names
# excluded by name: everything that touches files, processes, the clock, sleep, stdin, randomness, eval
EXCLUDE = {
    "append_file": "file", "list_files": "file", "read_file": "file", "read_file?": "file",
    "read_file_bytes": "file", "read_file_bytes?": "file", "write_file": "file",
    "run_process": "process",
    "now": "clock", "time": "clock", "sleep": "sleep",
    "input": "stdin", "read": "stdin", "read_bytes": "stdin", "read_compressed": "stdin",
    "interact": "stdin", "interact_lines": "stdin",
    "random": "random", "random_bytes": "random", "random_range": "random", "shuffle": "random", "choose": "random",
    "eval": "eval",
}
# names containing these fragments are excluded even if they appear later (a new I/O builtin must not be run blindly)
EXCLUDE_FRAGMENTS = ["file", "process", "sleep", "random", "request", "exit", "import", "eval", "socket", "http", "env_var", "getenv"]

SETUP = ["struct C14S (c14a, c14b)"]

# ----------------------------------------------------------------------------- the pool
# (source, tag). Bounded stratum: every integer has |n| <= 2^16.
POOL_B = [
    ("null", "null"),
    ("0", "int"), ("1", "int"), ("(0-1)", "int"), ("2", "int"), ("7", "int"), ("(0-3)", "int"),
    ("256", "int"), ("65536", "int"), ("(0-65536)", "int"),
    ("0.0", "float"), ("1.5", "float"), ("(0.0-2.5)", "float"), ("(0.0/0.0)", "nan"), ("(1.0/0.0)", "inf"), ("(0.0-1.0/0.0)", "inf"),
    ("(1/2)", "rational"), ("(0-7/3)", "rational"),
    ("(1+2i)", "complex"),
    ('""', "string"), ('"ab"', "string"), ('"é\U0001d11e x"', "string"), ('"12"', "string"),
    ("B[]", "bytes"), ("B[255,254,97]", "bytes"),
    ("[]", "list"), ("[1,2,3]", "list"), ('[[1,[2,3]],[],"x"]', "list"), ('[3,"a",null,1.5]', "list"),
    ("V()", "vector"), ("V(1,2,3)", "vector"),
    ("{}", "dict"), ('{1:2,"a":[3]}', "dict"), ("{:0,1:2}", "dict"), ("{1,2}", "dict"),
    ("(1 to 3)", "stream"), ("(0 til 0)", "stream"), ("stream([1,2,3])", "stream"), ("((1 to 3) lazy_map (+1))", "stream"),
    ("(\\x -> x)", "func"), ("(\\a, b -> a + b)", "func"), ("(+)", "func"), ('(\\x -> throw "boom")', "func"),
    ("C14S(1,[2])", "struct"),
]
# infinite streams. INF_FUEL re-enters evaluate() for every element, so a callee that consumes it ends with
# the fuel error; the native ones are used only where the same call with INF_FUEL did not consume its stream.
INF_FUEL = ("(iota(0) lazy_map \\x -> x)", "infstream")
INF_NATIVE = [("iota(0)", "infstream"), ("repeat(1)", "infstream"), ("cycle([1,2])", "infstream")]
# huge stratum: magnitudes >= 2^31
POOL_H = [
    ("2147483648", "huge"), ("4294967296", "huge"), ("9223372036854775807", "huge"), ("(0-9223372036854775807-1)", "huge"),
    ("9223372036854775808", "huge"), ("18446744073709551616", "huge"), ("(0-18446744073709551616)", "huge"),
    ("1e300", "hugefloat"),
]
POOL = POOL_B + [INF_FUEL] + POOL_H + INF_NATIVE
SRC = [s for s, _ in POOL]
TAG = [t for _, t in POOL]
IDX_B = list(range(len(POOL_B)))
IDX_INF = len(POOL_B)
IDX_BI = IDX_B + [IDX_INF]                      # bounded stratum incl. the fuel-burning infinite stream
IDX_H = list(range(len(POOL_B) + 1, len(POOL_B) + 1 + len(POOL_H)))
IDX_NAT = list(range(len(POOL_B) + 1 + len(POOL_H), len(POOL)))
HUGE = set(IDX_H)
INFS = set([IDX_INF] + IDX_NAT)

FUEL = 20_000
LIMIT_MS = 3000


def excluded(name):
    if name in EXCLUDE:
        return EXCLUDE[name]
    for f in EXCLUDE_FRAGMENTS:
        if f in name:
            return "fragment:" + f
    return None


def list_names():
    r = common.run_harness(common.harness_bin("c14"), [{"id": 0, "mode": "list"}], timeout=60, workers=1)[0]
    if r.get("status") != "ok":
        raise RuntimeError("c14 list failed: " + json.dumps(r)[:300])
    return r["names"]


def render_call(fn, t):
    return f"{fn}({', '.join(SRC[i] for i in t)})"


def tuple_of_grid(vals, arity, idx):
    b = len(vals)
    t = [0] * arity
    for p in range(arity - 1, -1, -1):
        t[p] = vals[idx % b]
        idx //= b
    return t


class Sweep:
    """runs batches through the c14 harness; resolves hangs (watchdog gives the index) and aborts (bisection)"""

    def __init__(self, ctx):
        self.ctx = ctx
        self.counts = {}            # status -> n
        self.per_fn = {}            # fn -> {status: n}
        self.fail = []              # dict(fn, t, status, msg, loc)
        self.slow = []
        self.calls = 0
        self.batches = 0
        self.problems = []
        self.on_detail = None
        self.skipped = 0

    def case(self, fn, tuples=None, grid=None, limit_ms=LIMIT_MS, detail=False, budget=None):
        c = {"mode": "sweep", "fn": fn, "pool": SRC, "setup": SETUP, "fuel": FUEL, "limit_ms": limit_ms, "detail": detail}
        if budget is not None:
            c["budget"] = budget
        if tuples is not None:
            c["tuples"] = tuples
        else:
            c["grid"] = grid
        return c

    @staticmethod
    def size(c):
        return len(c["tuples"]) if "tuples" in c else c["grid"]["end"] - c["grid"]["start"]

    @staticmethod
    def tuple_at(c, k):
        if "tuples" in c:
            return c["tuples"][k]
        g = c["grid"]
        return tuple_of_grid(g["vals"], g["arity"], g["start"] + k)

    @staticmethod
    def rest(c, k):
        """the case restricted to tuples k.. (None when empty)"""
        n = Sweep.size(c)
        if k >= n:
            return None
        d = dict(c)
        if "tuples" in c:
            d["tuples"] = c["tuples"][k:]
        else:
            g = dict(c["grid"])
            g["start"] += k
            d["grid"] = g
        return d

    @staticmethod
    def part(c, a, b):
        d = dict(c)
        if "tuples" in c:
            d["tuples"] = c["tuples"][a:b]
        else:
            g = dict(c["grid"])
            g["start"], g["end"] = c["grid"]["start"] + a, c["grid"]["start"] + b
            d["grid"] = g
        return d

    def absorb(self, c, r):
        fn = c["fn"]
        pf = self.per_fn.setdefault(fn, {})
        for k, v in r.get("counts", {}).items():
            self.counts[k] = self.counts.get(k, 0) + v
            pf[k] = pf.get(k, 0) + v
            self.calls += v
        for b in r.get("bad", []):
            self.fail.append(dict(fn=fn, t=b["t"], status="panic", msg=b.get("msg", ""), loc=b.get("loc", "")))
        for s in r.get("slow", []):
            self.slow.append(dict(fn=fn, t=s["t"], ms=s["ms"]))

    def record(self, c, k, status, msg):
        fn = c["fn"]
        t = self.tuple_at(c, k)
        self.fail.append(dict(fn=fn, t=t, status=status, msg=msg, loc=""))
        self.counts[status] = self.counts.get(status, 0) + 1
        pf = self.per_fn.setdefault(fn, {})
        pf[status] = pf.get(status, 0) + 1
        self.calls += 1

    def run(self, cases, workers=None):
        """Each worker thread owns one harness process (common.Worker: per-case wall-clock limit, abort
        detection) and finishes a batch itself: after a watchdog/allocator exit it continues behind the
        offending tuple; after an unlocated abort it bisects."""
        cases = list(cases)
        nxt = [0]
        lk = threading.Lock()
        binary = common.harness_bin("c14")

        def one(w, c0):
            todo = [dict(c0, retry=0)]
            while todo:
                c = todo.pop()
                retry = c.pop("retry", 0)
                c["id"] = 0
                r = w.call(c, 120.0)
                with lk:
                    self.batches += 1
                st = r.get("status")
                n = self.size(c)
                if st == "batch" and "abort_sig" in r:
                    # the forked child died without reporting (SIGABRT, SIGSEGV, ...): locate by bisection
                    st, r = "abort", {"msg": f"harness child died: signal {r.get('abort_sig')} exit code {r.get('exit_code')}"}
                if st == "batch":
                    with lk:
                        self.absorb(c, r)
                        if "hang_at" in r or "alloc_at" in r:
                            if "hang_at" in r:
                                k = r["hang_at"]
                                self.record(c, k, "hang", f"no answer within {c['limit_ms']} ms")
                            else:
                                k = r["alloc_at"]
                                self.record(c, k, "allocbomb", f"a single allocation of {r.get('alloc_size')} bytes was requested (harness cap 1 GiB) or an allocation failed")
                            d = self.rest(c, k + 1)
                            if d:
                                left = c.get("budget")
                                if left is not None and left <= 1:
                                    self.skipped += self.size(d)     # quick tier: per-chunk budget of hangs/allocation bombs spent
                                else:
                                    if left is not None:
                                        d["budget"] = left - 1
                                    todo.append(dict(d, retry=0))
                        if self.on_detail and r.get("results") is not None:
                            self.on_detail(c, r["results"])
                elif st in ("abort", "hang"):
                    if r.get("status") in ("abort", "hang"):
                        w.kill()          # the fork server itself died or hung
                    msg = r.get("msg", "")
                    if n == 1:
                        if retry < 1:
                            todo.append(dict(c, retry=retry + 1))      # must reproduce
                        else:
                            with lk:
                                self.record(c, 0, st, msg)
                    else:
                        step = max(1, (n + 3) // 4)
                        for a in reversed(range(0, n, step)):
                            todo.append(dict(self.part(c, a, min(n, a + step)), retry=0))
                else:
                    with lk:
                        self.problems.append(f"{c['fn']}: unexpected harness answer {json.dumps(r)[:200]}")

        def work():
            w = common.Worker(binary)
            while True:
                with lk:
                    i = nxt[0]
                    nxt[0] += 1
                if i >= len(cases):
                    break
                one(w, cases[i])
            w.kill()

        ts = [threading.Thread(target=work) for _ in range(workers or common.NPROC)]
        [t.start() for t in ts]
        [t.join() for t in ts]


def huge_tuples(arity, rng=None, sample=None):
    """tuples over bounded+huge values with at least one huge value"""
    vals = IDX_BI + IDX_H
    if sample is None:
        return [list(t) for t in itertools.product(vals, repeat=arity) if any(i in HUGE for i in t)]
    out = []
    while len(out) < sample:
        t = [rng.choice(vals) for _ in range(arity)]
        if not any(i in HUGE for i in t):
            t[rng.randrange(arity)] = rng.choice(IDX_H)
        out.append(t)
    return out


def chunks(xs, n):
    return [xs[a:a + n] for a in range(0, len(xs), n)]


def build_cases(ctx, sw, fns):
    """bounded stratum (must be completely clean) and huge stratum (only the known class tolerated)"""
    cases = []
    nb = len(IDX_BI)
    quick = ctx.quick()
    hlimit = 500 if quick else 1500
    budget = 3 if quick else None
    for fn in fns:
        # 0 and 1 argument: everything
        cases.append(sw.case(fn, tuples=[[]] + [[i] for i in IDX_BI]))
        cases.append(sw.case(fn, tuples=[[i] for i in IDX_H], limit_ms=hlimit))
        # 2 arguments: bounded exhaustive
        cases.append(sw.case(fn, grid=dict(vals=IDX_BI, arity=2, start=0, end=nb * nb)))
        if quick:
            tri = [[ctx.rng.choice(IDX_BI) for _ in range(3)] for _ in range(300)]
            cases.append(sw.case(fn, tuples=tri))
            h2 = huge_tuples(2, ctx.rng, 120)
            h3 = huge_tuples(3, ctx.rng, 40)
        else:
            total = nb ** 3
            step = 12000
            for a in range(0, total, step):
                cases.append(sw.case(fn, grid=dict(vals=IDX_BI, arity=3, start=a, end=min(total, a + step))))
            h2 = huge_tuples(2)
            h3 = huge_tuples(3, ctx.rng, 3000)
        for ch in chunks(h2 + h3, 20):
            cases.append(sw.case(fn, tuples=ch, limit_ms=hlimit, budget=budget))
    ctx.rng.shuffle(cases)
    return cases


def inf_probe_cases(sw, fns):
    """1..2 arguments with the fuel-burning infinite stream, per-call detail"""
    cases = []
    for fn in fns:
        ts = [[IDX_INF]] + [[IDX_INF, i] for i in IDX_BI] + [[i, IDX_INF] for i in IDX_B]
        cases.append(sw.case(fn, tuples=ts, detail=True))
    return cases


def native_inf_cases(sw, notconsumed):
    """second pass: the native infinite streams (iota(0), repeat(1), cycle([1,2])), only in calls where the
    fuel-burning infinite stream was not consumed (the call did not end in the fuel error or a failure)"""
    cases = []
    for fn, ts in sorted(notconsumed.items()):
        tuples = []
        for t in sorted(ts):
            for nat in IDX_NAT:
                tuples.append([nat if i == IDX_INF else i for i in t])
        # at most two calls per function may fail to return (then the probe misjudged: the native stream is consumed)
        cases.append(sw.case(fn, tuples=tuples, limit_ms=300, budget=2))
    return cases


def classify(f):
    """-> 'violation' | 'known:huge-count-argument' | 'tolerated:nonterminating-input'"""
    t, st = f["t"], f["status"]
    has_inf = any(i in INFS for i in t)
    has_huge = any(i in HUGE for i in t)
    if st == "panic":
        if has_huge and "capacity overflow" in f["msg"]:
            return "known:huge-count-argument"
        return "violation"
    # hang / allocbomb / abort
    if has_huge:
        return "known:huge-count-argument"
    if has_inf:
        return "tolerated:nonterminating-input"
    return "violation"


def run_sweep(ctx):
    names = list_names()
    funcs = [n["name"] for n in names if n["kind"] in ("builtin", "type", "func")]
    excl = {n: excluded(n) for n in funcs if excluded(n)}
    fns = [n for n in funcs if n not in excl]
    sw = Sweep(ctx)
    t0 = time.time()
    sw.run(build_cases(ctx, sw, fns))
    t_main = time.time() - t0
    main_calls = sw.calls
    # infinite streams
    notconsumed = {}

    def on_detail(c, results):
        for r in results:
            if r["status"] == "ok" or (r["status"].startswith("err:") and r["status"] != "err:fuel"):
                notconsumed.setdefault(c["fn"], set()).add(tuple(r["t"]))
    sw.on_detail = on_detail
    sw.run(inf_probe_cases(sw, fns))
    sw.on_detail = None
    ncases = native_inf_cases(sw, notconsumed)
    sw.run(ncases)
    t_all = time.time() - t0

    # bounded-stratum hangs are re-confirmed one by one with a much longer CPU limit before they count
    confirmed = []
    for f in sw.fail:
        f["class"] = classify(f)
    suspects = [f for f in sw.fail if f["class"] == "violation" and f["status"] == "hang"]
    if suspects:
        sw2 = Sweep(ctx)
        sw2.run([sw2.case(f["fn"], tuples=[f["t"]], limit_ms=20000) for f in suspects[:40]], workers=4)
        still = {(g["fn"], tuple(g["t"])) for g in sw2.fail}
        for f in suspects[:40]:
            if (f["fn"], tuple(f["t"])) not in still:
                f["class"] = "slow-not-hang"
    viol = [f for f in sw.fail if f["class"] == "violation"]
    known = [f for f in sw.fail if f["class"].startswith("known:")]
    tol = [f for f in sw.fail if f["class"].startswith("tolerated:")]
    return dict(sw=sw, fns=fns, excluded=excl, names=names, viol=viol, known=known, tolerated=tol,
                t_main=t_main, t_all=t_all, main_calls=main_calls, native_cases=sum(Sweep.size(c) for c in ncases),
                slow_not_hang=[f for f in sw.fail if f["class"] == "slow-not-hang"])


def report_sweep(ctx, S):
    sw = S["sw"]
    for p in sw.problems[:3]:
        ctx.violation("sweep-machinery", {"what": "the sweep harness gave an unexpected answer", "problem": p}, found=False)
    for f in S["known"]:
        ctx.known_hit("huge-count-argument", render_call(f["fn"], f["t"]))
    seen = set()
    for f in S["viol"]:
        key = (f["fn"], f["status"], f["loc"] or f["msg"][:60])
        if key in seen:
            continue
        seen.add(key)
        same = [g for g in S["viol"] if (g["fn"], g["status"], g["loc"] or g["msg"][:60]) == key]
        ctx.violation("property", {
            "what": "applying a builtin did not end in a value or a catchable error: " + f["status"],
            "call": render_call(f["fn"], f["t"]), "fn": f["fn"], "tuple": f["t"], "args": [SRC[i] for i in f["t"]],
            "status": f["status"], "msg": f["msg"], "panic_location": f["loc"],
            "stratum": "huge" if any(i in HUGE for i in f["t"]) else "bounded",
            "same_site_calls": [render_call(g["fn"], g["t"]) for g in same[:10]], "same_site_count": len(same)}, found=True)


def sweep_coverage(ctx, S):
    sw = S["sw"]
    per_fn_ok = sum(1 for fn in S["fns"] if sw.per_fn.get(fn, {}).get("ok", 0) > 0)
    nontrivial = sum(v for k, v in sw.counts.items() if k == "ok" or k.startswith("err:") and k not in ("err:argument",))
    ctx.coverage.update({
        "sweep_calls": sw.calls, "sweep_batches": sw.batches,
        "sweep_functions": len(S["fns"]), "sweep_functions_with_a_value_result": per_fn_ok,
        "sweep_excluded_by_name": S["excluded"],
        "sweep_outcomes": dict(sorted(sw.counts.items())),
        "sweep_not_argument_count_errors": nontrivial,
        "sweep_pool": {"bounded": [s for s, _ in POOL_B], "infinite_fuel_burning": INF_FUEL[0],
                       "huge": [s for s, _ in POOL_H], "infinite_native": [s for s, _ in INF_NATIVE]},
        "sweep_native_infinite_calls": S["native_cases"],
        "sweep_skipped_after_budget": sw.skipped,
        "sweep_known_class_hits": len(S["known"]),
        "sweep_known_class_by_fn": {k: sum(1 for f in S["known"] if f["fn"] == k) for k in sorted({f["fn"] for f in S["known"]})},
        "sweep_tolerated_nonterminating_input": len(S["tolerated"]),
        "sweep_slow_not_hang": [render_call(f["fn"], f["t"]) for f in S["slow_not_hang"]],
        "sweep_violations": len(S["viol"]),
        "sweep_wall_s": round(S["t_all"], 1),
        "sweep_slowest": [dict(call=render_call(x["fn"], x["t"]), ms=x["ms"]) for x in sorted(sw.slow, key=lambda x: -x["ms"])[:8]],
    })


def run(ctx):
    common.standard_prelude(ctx, model=False)
    S = run_sweep(ctx)
    report_sweep(ctx, S)
    sweep_coverage(ctx, S)
    ctx.coverage["evaluations"] = S["sw"].calls
    ctx.coverage["distinct_nontrivial"] = ctx.coverage["sweep_not_argument_count_errors"]
    ctx.coverage["rule"] = "one evaluation = one application of a global function to an argument tuple; non-trivial = the call got past the argument-count check"
    return common.conclude(ctx)


def replay(ctx, rep):
    common.standard_prelude(ctx, model=False)
    if "tuple" in rep and "fn" in rep:
        sw = Sweep(ctx)
        sw.run([sw.case(rep["fn"], tuples=[rep["tuple"]], limit_ms=20000)], workers=1)
        for f in sw.fail:
            f["class"] = classify(f)
        print(json.dumps({"call": render_call(rep["fn"], rep["tuple"]), "outcomes": sw.counts, "failures": sw.fail}))
        return 1 if any(f["class"] == "violation" for f in sw.fail) else 0
    print(json.dumps({"what": "nothing to replay in this file", "keys": sorted(rep)}))
    return 1
