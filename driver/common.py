"""Shared machinery for the per-property checks (see DESIGN.md section 2).

Stages of one run:  proof (Coq make + audit)  ->  build (harness from /repo's working tree,
OCaml model runner from the extracted Gallina)  ->  correspondence (same cases through both)
->  verdict + evidence.
"""
import fcntl, hashlib, json, os, random, re, select, subprocess, sys, threading, time, types
from pathlib import Path

ROOT = Path(__file__).resolve().parent.parent
COQ = ROOT / "coq"
BUILD = ROOT / "build"
CARGO_TARGET = BUILD / "cargo"
REPO = Path("/repo")
GUARD = "betaveros_noulith_verif"
NPROC = os.cpu_count() or 8

FORBIDDEN = re.compile(
    r"\b(Admitted|admit|Axiom|Axioms|Parameter|Parameters|Conjecture|Conjectures|Admit Obligations|"
    r"Unset Guard Checking|Unset Positivity Checking|Unset Universe Checking|bypass_check|"
    r"type-in-type|impredicative-set)\b")
# axioms of Coq's standard library that a theorem may depend on (each is reported in evidence)
AXIOM_ALLOWLIST = {
    "functional_extensionality_dep", "FunctionalExtensionality.functional_extensionality_dep",
}

TRUSTED_BASE_COMMON = [
    "Coq 8.16.1 kernel via coqc, including vm_compute (no native_compute)",
    "hand-written Gallina model of the anchored Rust code (tied to /repo by the correspondence run, not by translation)",
    "extraction (ExtrOcamlBasic only; numbers stay extracted inductives), OCaml 4.13 + zarith for decimal I/O, ocaml/conv.ml and the per-property runner",
    "Rust harness /verif/harness (canonical serialiser, catch_unwind, fuel hook) built against /repo's working tree with --cfg betaveros_noulith_verif",
    "Python driver: generators, comparators, independent oracles",
]


def log(*a):
    print(*a, file=sys.stderr, flush=True)


class Lock:
    def __init__(self, name):
        BUILD.mkdir(exist_ok=True)
        self.path = BUILD / (name + ".lock")

    def __enter__(self):
        self.f = open(self.path, "w")
        fcntl.flock(self.f, fcntl.LOCK_EX)
        return self

    def __exit__(self, *a):
        fcntl.flock(self.f, fcntl.LOCK_UN)
        self.f.close()


def sh(cmd, cwd=None, timeout=None, env=None, inp=None):
    e = dict(os.environ)
    e.update({"CARGO_NET_OFFLINE": "true"})
    if env:
        e.update(env)
    try:
        p = subprocess.run(cmd, cwd=cwd, timeout=timeout, env=e, input=inp,
                           stdout=subprocess.PIPE, stderr=subprocess.STDOUT, text=True,
                           shell=isinstance(cmd, str))
        return p.returncode, p.stdout
    except subprocess.TimeoutExpired as ex:
        return 124, (ex.stdout or "") + "\nTIMEOUT"


# ----------------------------------------------------------------------------- Coq
def coq_files():
    return sorted(str(p.relative_to(COQ)) for p in (COQ / "theories").rglob("*.v"))


def coq_makefile():
    files = coq_files()
    listing = "\n".join(files)
    stamp = COQ / ".filelist"
    if not (COQ / "Makefile").exists() or not stamp.exists() or stamp.read_text() != listing:
        rc, out = sh(["coq_makefile", "-f", "_CoqProject", "-o", "Makefile"] + files, cwd=COQ)
        if rc != 0:
            raise RuntimeError("coq_makefile failed: " + out)
        stamp.write_text(listing)


def statement_hashes(props_file):
    """theorem name -> sha256 of its statement text (Theorem ... up to Proof.), whitespace-normalised"""
    txt = Path(props_file).read_text()
    txt = re.sub(r"\(\*.*?\*\)", " ", txt, flags=re.S)
    out = {}
    for m in re.finditer(r"\bTheorem\s+(\w+)\s*:(.*?)\bProof\.", txt, flags=re.S):
        stmt = " ".join(m.group(2).split())
        out[m.group(1)] = hashlib.sha256(stmt.encode()).hexdigest()[:16]
    return out


def coq_closure(pid):
    """the .v files Props/<pid>.v transitively depends on (from coq_makefile's .Makefile.d), plus its extraction file"""
    dep = COQ / ".Makefile.d"
    deps = {}
    if dep.exists():
        for line in dep.read_text().replace("\\\n", " ").splitlines():
            if ":" not in line:
                continue
            lhs, rhs = line.split(":", 1)
            targets = [t for t in lhs.split() if t.endswith(".vo")]
            srcs = [d[:-1] for d in rhs.split() if d.endswith(".vo")]
            for t in targets:
                deps.setdefault(t[:-1], set()).update(srcs)
    start = f"theories/Props/{pid}.v"
    seen, todo = set(), [start]
    while todo:
        f = todo.pop()
        if f in seen:
            continue
        seen.add(f)
        todo.extend(deps.get(f, ()))
    files = [COQ / f for f in seen if (COQ / f).exists()]
    ex = COQ / "extract" / f"{pid}.v"
    if ex.exists():
        files.append(ex)
    if len(files) <= 1:   # no dependency information: fall back to everything
        files = list((COQ / "theories").rglob("*.v")) + list((COQ / "extract").glob("*.v"))
    return sorted(set(files))


def audit_sources(pid=None):
    """forbidden vernacular in the property's dependency closure (comments stripped)"""
    bad = []
    files = coq_closure(pid) if pid else list((COQ / "theories").rglob("*.v")) + list((COQ / "extract").glob("*.v"))
    for f in files:
        txt = re.sub(r"\(\*.*?\*\)", " ", f.read_text(), flags=re.S)
        for i, line in enumerate(txt.splitlines(), 1):
            if FORBIDDEN.search(line):
                bad.append(f"{f.relative_to(COQ)}:{i}: {line.strip()[:100]}")
    return bad


def parse_assumptions(output, theorems):
    """Print Assumptions blocks appear in order, one per theorem"""
    blocks = re.split(r"(?=Closed under the global context|Axioms:)", output)
    res = []
    for b in blocks:
        if b.startswith("Closed under the global context"):
            res.append([])
        elif b.startswith("Axioms:"):
            names = re.findall(r"^([A-Za-z_][\w.']*)\s*:", b[len("Axioms:"):], flags=re.M)
            res.append(names)
    return res


def proof_stage(pid, tier, extra_targets=()):
    """Build the property's closure, re-check Props/<pid>.v, audit. Returns a dict."""
    t0 = time.time()
    props = COQ / "theories" / "Props" / f"{pid}.v"
    info = {"ok": False, "obligations": 0, "discharged": 0, "theorems": [], "axioms": {},
            "problems": [], "checker_cmd": f"cd /verif/coq && make -j{NPROC} theories/Props/{pid}.vo (coq_makefile, full .vo) + Print Assumptions audit"}
    if not props.exists():
        info["problems"].append(f"missing {props}")
        return info
    with Lock("coq"):
        coq_makefile()
        if tier == "thorough":
            # clean rebuild of this property's own files
            for f in [props.with_suffix(".vo")]:
                if f.exists():
                    f.unlink()
        target = f"theories/Props/{pid}.vo"
        vo = COQ / target
        if vo.exists():
            vo.unlink()  # always re-check the property file itself, to capture Print Assumptions
        rc, out = sh(["make", f"-j{NPROC}", target] + list(extra_targets), cwd=COQ, timeout=1500)
    info["make_rc"] = rc
    info["log_tail"] = out[-3000:]
    hashes = statement_hashes(props)
    theorems = list(hashes)
    info["theorems"] = theorems
    info["obligations"] = len(theorems)
    if rc != 0:
        info["problems"].append("coq build failed: " + out[-1500:])
        return info
    bad = audit_sources(pid)
    info["audited_files"] = [str(f.relative_to(COQ)) for f in coq_closure(pid)]
    if bad:
        info["problems"].append("forbidden vernacular: " + "; ".join(bad[:10]))
    blocks = parse_assumptions(out, theorems)
    if len(blocks) != len(theorems):
        info["problems"].append(f"expected {len(theorems)} Print Assumptions blocks, saw {len(blocks)}")
    discharged = 0
    for name, ax in zip(theorems, blocks):
        info["axioms"][name] = ax
        notok = [a for a in ax if a.split(".")[-1] not in {x.split(".")[-1] for x in AXIOM_ALLOWLIST}]
        if notok:
            info["problems"].append(f"{name} depends on non-allowlisted axioms {notok}")
        else:
            discharged += 1
    lf = ROOT / "locks" / f"{pid}.json"
    pinned = json.loads(lf.read_text()) if lf.exists() else {}
    for name, h in pinned.items():
        if hashes.get(name) != h:
            info["problems"].append(f"statement of {name} differs from locks/{pid}.json (or theorem removed)")
    for name in hashes:
        if name not in pinned:
            info["problems"].append(f"theorem {name} not pinned in locks/{pid}.json (run ./check --relock {pid})")
    info["discharged"] = discharged if not info["problems"] else min(discharged, max(0, len(theorems) - 1))
    info["ok"] = not info["problems"] and discharged == len(theorems) and len(theorems) > 0
    if tier == "thorough" and info["ok"]:
        with Lock("coq"):
            rc2, out2 = sh(["coqchk", "-silent", "-o", "-Q", "theories", "NV", f"NV.Props.{pid}"], cwd=COQ, timeout=1500)
        info["coqchk_rc"] = rc2
        info["coqchk_tail"] = out2[-1500:]
        m = re.search(r"\* Axioms:\s*(.*?)(?:\n\s*\*|\Z)", out2, flags=re.S)
        info["coqchk_axioms"] = " ".join(m.group(1).split()) if m else "?"
        if rc2 != 0:
            info["ok"] = False
            info["problems"].append("coqchk failed: " + out2[-800:])
    info["wall_s"] = round(time.time() - t0, 1)
    return info


def relock(pid):
    """pin the statements of Props/<pid>.v (a deliberate act: run it only when a statement is meant to change)"""
    f = COQ / "theories" / "Props" / f"{pid}.v"
    (ROOT / "locks").mkdir(exist_ok=True)
    h = statement_hashes(f)
    (ROOT / "locks" / f"{pid}.json").write_text(json.dumps(h, indent=1, sort_keys=True) + "\n")
    return h


# ----------------------------------------------------------------------------- builds
def build_harness(release=False):
    """(Re)build the harness against /repo's current working tree, hooks on.
    If some binary does not compile, the others are still built one by one (a broken
    per-property binary must not take the other properties' checks down)."""
    h = ROOT / "harness"
    env = {"RUSTFLAGS": f"--cfg {GUARD}", "CARGO_TARGET_DIR": str(CARGO_TARGET)}
    rel = ["--release"] if release else []
    with Lock("cargo"):
        lockfile = h / "Cargo.lock"
        src = (REPO / "Cargo.lock").read_text()
        if not lockfile.exists():
            lockfile.write_text(src)
        rc, out = sh(["cargo", "build", "--offline", "--bins"] + rel, cwd=h, timeout=1500, env=env)
        if rc != 0 and "Cargo.lock" in out:
            lockfile.write_text(src)
            rc, out = sh(["cargo", "build", "--offline", "--bins"] + rel, cwd=h, timeout=1500, env=env)
        if rc != 0:
            failed = []
            for b in sorted((h / "src" / "bin").glob("*.rs")):
                rc1, out1 = sh(["cargo", "build", "--offline", "--bin", b.stem] + rel, cwd=h, timeout=1500, env=env)
                if rc1 != 0:
                    failed.append(b.stem)
                    out += f"\n--- bin {b.stem} failed ---\n" + out1[-1500:]
            log(f"harness: binaries that do not build: {failed}")
            return ("prog" not in failed and len(failed) < len(list((h / "src" / "bin").glob("*.rs")))), out[-6000:]
    return rc == 0, out[-4000:]


def harness_bin(name, release=False):
    return str(CARGO_TARGET / ("release" if release else "debug") / name)


def build_model(pid):
    """Extract coq/extract/<pid>.v and compile ocaml/<pid lower>.ml against it."""
    d = BUILD / "ocaml" / pid
    d.mkdir(parents=True, exist_ok=True)
    with Lock("ocaml-" + pid):
        srcs = [COQ / "extract" / f"{pid}.v", ROOT / "ocaml" / "conv.ml", ROOT / "ocaml" / f"{pid.lower()}.ml"]
        h = hashlib.sha256()
        for s in srcs:
            h.update(s.read_bytes())
        # the extraction depends on the theories: include their sources (not Props/, not proofs)
        for v in sorted((COQ / "theories").rglob("*.v")):
            if "/Props/" not in str(v) and not v.name.endswith("_proofs.v"):
                h.update(v.read_bytes())
        stamp = d / "stamp"
        if (d / "run").exists() and stamp.exists() and stamp.read_text() == h.hexdigest():
            return True, str(d / "run")
        (d / "Extract.v").write_bytes(srcs[0].read_bytes())
        rc, out = sh(["coqc", "-Q", str(COQ / "theories"), "NV", "Extract.v"], cwd=d, timeout=600)
        if rc != 0:
            return False, "extraction failed: " + out[-2000:]
        for s in srcs[1:]:
            (d / s.name).write_bytes(s.read_bytes())
        rc, out = sh(["ocamlfind", "ocamlopt", "-inline", "50", "-package", "zarith", "-linkpkg", "-w", "-a",
                      "model.mli", "model.ml", "conv.ml", f"{pid.lower()}.ml", "-o", "run"], cwd=d, timeout=600)
        if rc != 0:
            return False, "ocaml build failed: " + out[-2000:]
        stamp.write_text(h.hexdigest())
    return True, str(d / "run")


# ----------------------------------------------------------------------------- running
MODEL_TIMEOUT = int(os.environ.get("NV_MODEL_TIMEOUT", "10800" if "thorough" in sys.argv else "1800"))
MODEL_MEM_GB = int(os.environ.get("NV_MODEL_MEM_GB", "6"))


def _limit_model():
    import resource, ctypes, signal
    resource.setrlimit(resource.RLIMIT_AS, (MODEL_MEM_GB << 30, MODEL_MEM_GB << 30))
    try:
        ctypes.CDLL("libc.so.6").prctl(1, signal.SIGKILL)  # PR_SET_PDEATHSIG
    except Exception:
        pass


def run_model(runner, lines, shards=None, header=None):
    """Feed text lines to the OCaml runner (sharded), return result lines in order.
    `header`: optional list of lines sent first to every shard (their answers are dropped)."""
    if not lines:
        return []
    shards = shards or min(NPROC, max(1, len(lines) // 500))
    chunks = [lines[i::shards] for i in range(shards)]
    outs = [None] * shards
    header = list(header or [])

    def work(k):
        # the model is total and small: a shard that needs more than MODEL_MEM_GB of memory or MODEL_TIMEOUT
        # seconds (30 min in the quick tier, 3 h in the thorough tier) has been handed an input it cannot digest (e.g. a state read back from a broken
        # implementation); it is stopped and its unanswered lines read "runner-died", which every driver
        # treats as a disagreement to be judged by its oracle.  The runner also dies with the driver.
        try:
            p = subprocess.run([runner], input="\n".join(header + chunks[k]) + "\n", stdout=subprocess.PIPE,
                               stderr=subprocess.PIPE, text=True, timeout=MODEL_TIMEOUT, preexec_fn=_limit_model)
            out, rc, err = p.stdout, p.returncode, p.stderr
        except subprocess.TimeoutExpired as e:
            out = e.stdout or ""
            out = out.decode("utf8", "replace") if isinstance(out, bytes) else out
            out = out[:out.rfind("\n") + 1]
            rc, err = -9, f"timeout after {MODEL_TIMEOUT}s"
        p = types.SimpleNamespace(stdout=out, returncode=rc, stderr=err)
        o = p.stdout.split("\n")
        if o and o[-1] == "":
            o.pop()
        o = o[len(header):]
        if len(o) != len(chunks[k]):
            o = o + [f"runner-died rc={p.returncode} {p.stderr[-200:]}"] * (len(chunks[k]) - len(o))
        outs[k] = o

    ts = [threading.Thread(target=work, args=(k,)) for k in range(shards)]
    [t.start() for t in ts]
    [t.join() for t in ts]
    res = [None] * len(lines)
    for k in range(shards):
        for j, r in enumerate(outs[k]):
            res[k + j * shards] = r
    return res


class Worker:
    def __init__(self, binary, env=None):
        self.binary = binary
        self.env = env
        self.p = None
        self.buf = b""

    def start(self):
        e = dict(os.environ)
        if self.env:
            e.update(self.env)
        self.p = subprocess.Popen([self.binary], stdin=subprocess.PIPE, stdout=subprocess.PIPE,
                                  stderr=subprocess.DEVNULL, env=e, bufsize=0)
        self.buf = b""

    def kill(self):
        if self.p:
            try:
                self.p.kill()
                self.p.wait(timeout=5)
            except Exception:
                pass
            self.p = None

    def call(self, case, timeout):
        """returns parsed JSON result, or {"status":"hang"} / {"status":"abort"}"""
        if self.p is None or self.p.poll() is not None:
            self.start()
        try:
            self.p.stdin.write((json.dumps(case) + "\n").encode())
            self.p.stdin.flush()
        except (BrokenPipeError, OSError):
            self.kill()
            return {"status": "abort", "msg": "pipe broke on write"}
        deadline = time.time() + timeout
        fd = self.p.stdout.fileno()
        while b"\n" not in self.buf:
            left = deadline - time.time()
            if left <= 0:
                self.kill()
                return {"status": "hang", "msg": f"no answer within {timeout}s"}
            r, _, _ = select.select([fd], [], [], min(left, 1.0))
            if r:
                chunk = os.read(fd, 1 << 16)
                if not chunk:
                    rc = self.p.wait()
                    self.kill()
                    return {"status": "abort", "msg": f"process exited rc={rc}"}
                self.buf += chunk
        line, self.buf = self.buf.split(b"\n", 1)
        try:
            return json.loads(line)
        except Exception:
            return {"status": "badjson", "msg": line[:200].decode("utf8", "replace")}


def run_harness(binary, cases, timeout=10.0, workers=None, env=None):
    """Run JSON cases through harness processes; per-case wall-clock limit; order preserved."""
    n = len(cases)
    if n == 0:
        return []
    workers = workers or min(NPROC, max(1, n // 50))
    res = [None] * n
    nxt = [0]
    lk = threading.Lock()

    def work():
        w = Worker(binary, env)
        while True:
            with lk:
                i = nxt[0]
                nxt[0] += 1
            if i >= n:
                break
            res[i] = w.call(cases[i], timeout)
        w.kill()

    ts = [threading.Thread(target=work) for _ in range(workers)]
    [t.start() for t in ts]
    [t.join() for t in ts]
    return res


def run_prog(srcs, timeout=10.0, fuel=2_000_000, fresh=False, release=False, cli=False):
    """Convenience: run Noulith programs (strings or lists of statements) through bin/prog."""
    cases = []
    for i, s in enumerate(srcs):
        c = {"id": i, "fuel": fuel, "fresh": fresh}
        if cli:
            c["cli"] = True   # the way src/main.rs runs a program: noulith::warn (static freeze pass), then evaluate
        if isinstance(s, str):
            c["src"] = s
        else:
            c["stmts"] = list(s)
        cases.append(c)
    return run_harness(harness_bin("prog", release), cases, timeout=timeout)


# ----------------------------------------------------------------------------- context / verdicts
class Ctx:
    def __init__(self, pid, tier, seed):
        self.pid, self.tier, self.seed = pid, tier, seed
        self.rng = random.Random(seed)
        self.t0 = time.time()
        self.violations = []          # (kind, replay path, failing_input_found)
        self.known_hits = {}          # key -> count
        self.coverage = {"evaluations": 0, "distinct_nontrivial": 0, "rule": "", "samples": []}
        self.assumptions = []
        self.proof = None
        self.known = load_known(pid)
        self.level = "proof"
        self.extra = {}

    def quick(self):
        return self.tier == "quick"

    def n(self, quick, thorough):
        return quick if self.tier == "quick" else thorough

    def known_hit(self, key, what):
        """a failing case matching a committed known finding: report, do not fail"""
        if key not in self.known_hits:
            self.known_hits[key] = 0
            print(f"KNOWN-FINDING: property={self.pid} {self.known[key]}", flush=True)
        self.known_hits[key] += 1

    def violation(self, kind, replay, found=True):
        d = ROOT / "replays" / self.pid
        d.mkdir(parents=True, exist_ok=True)
        path = d / f"{kind}-{len(self.violations)}-{int(time.time())}.json"
        replay = dict(replay)
        replay.update({"property": self.pid, "kind": kind, "failing_input_found": found,
                       "seed": self.seed, "tier": self.tier})
        path.write_text(json.dumps(replay, indent=1, default=str) + "\n")
        self.violations.append((kind, str(path), found))
        # at most a handful of lines; every one names a replay
        if len(self.violations) <= 5:
            print(f"VIOLATION property={self.pid} replay={path}" + ("" if found else " no-failing-input-found"), flush=True)

    def finish(self):
        wall = round(time.time() - self.t0, 1)
        cov = dict(self.coverage)
        pr = self.proof or {}
        cov.update({
            "obligations": pr.get("obligations", 0), "discharged": pr.get("discharged", 0),
            "checker_cmd": pr.get("checker_cmd", ""),
            "trusted_base": TRUSTED_BASE_COMMON + self.extra.get("trusted_base", []),
            "theorems": pr.get("theorems", []),
            "axioms_per_theorem": pr.get("axioms", {}),
            "proof_problems": pr.get("problems", []),
            "audited_coq_files": pr.get("audited_files", []),
            "known_findings_hit": self.known_hits,
        })
        if "coqchk_axioms" in pr:
            cov["coqchk_axioms"] = pr["coqchk_axioms"]
        for k, v in self.extra.items():
            if k != "trusted_base":
                cov[k] = v
        if cov["evaluations"] < 1:
            cov["evaluations"] = 0
        ev = {"property_id": self.pid, "tier": self.tier, "seed": self.seed, "level": self.level,
              "coverage": cov, "assumptions": self.assumptions, "wall_s": wall,
              "violations": len(self.violations)}
        (ROOT / "evidence").mkdir(exist_ok=True)
        (ROOT / "evidence" / f"{self.pid}.json").write_text(json.dumps(ev, indent=1, default=str) + "\n")
        log(f"[{self.pid}] {self.tier} done in {wall}s: evaluations={cov['evaluations']} "
            f"nontrivial={cov['distinct_nontrivial']} obligations={cov['obligations']}/{cov['discharged']} "
            f"violations={len(self.violations)} known={self.known_hits}")
        return 1 if self.violations else 0


def load_known(pid):
    """KNOWN_FINDINGS.txt: `known: property=<id> key=<k> <text>`; fixed: lines suppress nothing"""
    out = {}
    f = ROOT / "KNOWN_FINDINGS.txt"
    if f.exists():
        for line in f.read_text().splitlines():
            m = re.match(r"known:\s+property=(\w+)\s+key=(\S+)\s+(.*)", line)
            if m and m.group(1) == pid:
                out[m.group(2)] = f"key={m.group(2)} {m.group(3)}"
    return out


def standard_prelude(ctx, model=True):
    """proof stage + builds common to all properties; returns (runner or None).
    Problems here are recorded; the correspondence still runs so a failing input can be searched."""
    ctx.proof = proof_stage(ctx.pid, ctx.tier)
    if not ctx.proof["ok"]:
        log(f"[{ctx.pid}] PROOF STAGE PROBLEMS: {ctx.proof['problems']}")
    ok, out = build_harness()
    if not ok:
        log(out)
        ctx.violation("harness-build-failed", {"what": "the harness no longer builds against /repo's working tree", "log": out[-3000:]}, found=False)
        return None
    runner = None
    if model:
        ok, runner = build_model(ctx.pid)
        if not ok:
            log(runner)
            ctx.proof["problems"].append(runner)
            ctx.proof["ok"] = False
            runner = None
    return runner


def conclude(ctx):
    """after the correspondence: a broken proof stage with no failing input is still a violation"""
    if ctx.proof is not None and not ctx.proof["ok"] and not any(f for (_, _, f) in ctx.violations):
        ctx.violation("proof-obligation", {"what": "a proof obligation, the axiom audit or the statement pin no longer checks",
                                           "problems": ctx.proof["problems"], "theorems": ctx.proof["theorems"]}, found=False)
    return ctx.finish()
