//! C15 harness: token dumps, parse-only totality probe, format-string segment dump, and the
//! Unicode class tables of the implementation's own `char` methods.
//! case: {"mode": "lex"|"parse"|"fmt"|"classes", "src": "...", "stack_mb": n (parse/fmt; default 8)}
//!   lex     -> {"status":"ok","toks":"<tokens, space separated>"} | {"status":"panic",..}
//!   parse   -> {"status":"ok"|"empty"|"parse"|"panic"}   (noulith::parse only, on a thread with the given stack)
//!   fmt     -> src is a complete program expected to be a single F-string literal:
//!              {"status":"ok","segs":"c<cp> e<Base>,<pad>,<padlen>,<Align> ..."} | "parse" | "panic" | "other"
//!   classes -> {"alphabetic":[lo,hi,...],"numeric":[...],"uppercase":[...]} for code points >= 128
//! A native stack overflow kills the process; the driver's worker pool reports that as "abort".
use nvh::noulith::{lex, parse, Expr, FmtAlign, FmtBase, Token};
use nvh::serde_json::{json, Value};

fn cps(s: &str) -> String {
    s.chars().map(|c| (c as u32).to_string()).collect::<Vec<_>>().join(",")
}

fn show_token(t: &Token) -> String {
    match t {
        Token::Invalid(_) => "Invalid".to_string(),
        Token::IntLit(n) => format!("Int:{}", n),
        Token::RatLit(r) => {
            if r.denom() == &num::BigInt::from(1) {
                format!("Rat:{}", r.numer())
            } else {
                format!("Rat:{}/{}", r.numer(), r.denom())
            }
        }
        Token::FloatLit(f) => format!("Float:{:016x}", f.to_bits()),
        Token::ImaginaryFloatLit(f) => format!("Imag:{:016x}", f.to_bits()),
        Token::StringLit(s) => format!("Str:{}", cps(s)),
        Token::BytesLit(b) => format!(
            "Bytes:{}",
            b.iter().map(|x| x.to_string()).collect::<Vec<_>>().join(",")
        ),
        Token::FormatString(s) => format!("Fmt:{}", cps(s)),
        Token::Ident(s) => format!("Ident:{}", cps(s)),
        Token::InternalPeekN(n) => format!("InternalPeekN:{}", n),
        Token::Comment(s) => format!("Comment:{}", cps(s)),
        other => format!("{:?}", other),
    }
}

fn panic_msg(p: Box<dyn std::any::Any + Send>) -> String {
    if let Some(s) = p.downcast_ref::<String>() {
        s.clone()
    } else if let Some(s) = p.downcast_ref::<&str>() {
        s.to_string()
    } else {
        "?".to_string()
    }
}

fn on_thread(stack_mb: usize, f: impl FnOnce() -> Value + Send + 'static) -> Value {
    let h = std::thread::Builder::new()
        .stack_size(stack_mb * 1024 * 1024)
        .spawn(move || std::panic::catch_unwind(std::panic::AssertUnwindSafe(f)))
        .unwrap();
    match h.join() {
        Ok(Ok(v)) => v,
        Ok(Err(p)) => json!({"status": "panic", "msg": panic_msg(p)}),
        Err(p) => json!({"status": "panic", "msg": panic_msg(p)}),
    }
}

fn ranges(pred: impl Fn(char) -> bool) -> Vec<u32> {
    let mut out = Vec::new();
    let mut start: Option<u32> = None;
    let mut last = 0u32;
    for x in 128u32..=0x10FFFF {
        let ok = match char::from_u32(x) {
            Some(c) => pred(c),
            None => false,
        };
        if ok {
            if start.is_none() {
                start = Some(x);
            }
            last = x;
        } else if let Some(s) = start {
            out.push(s);
            out.push(last);
            start = None;
        }
    }
    if let Some(s) = start {
        out.push(s);
        out.push(last);
    }
    out
}

fn main() {
    nvh::serve(|case| {
        let mode = case.get("mode").and_then(|v| v.as_str()).unwrap_or("lex").to_string();
        let src = case.get("src").and_then(|v| v.as_str()).unwrap_or("").to_string();
        let stack_mb = case.get("stack_mb").and_then(|v| v.as_u64()).unwrap_or(8) as usize;
        match mode.as_str() {
            "classes" => json!({
                "alphabetic": ranges(|c| c.is_alphabetic()),
                "numeric": ranges(|c| c.is_numeric()),
                "uppercase": ranges(|c| c.is_uppercase()),
                "whitespace": ranges(|c| c.is_whitespace()),
            }),
            "lex" => {
                let r = std::panic::catch_unwind(|| {
                    let toks = lex(&src);
                    toks.iter().map(|t| show_token(&t.token)).collect::<Vec<_>>().join(" ")
                });
                match r {
                    Ok(s) => json!({"status": "ok", "toks": s}),
                    Err(p) => json!({"status": "panic", "msg": panic_msg(p)}),
                }
            }
            "parse" => on_thread(stack_mb, move || match parse(&src) {
                Ok(Some(_)) => json!({"status": "ok"}),
                Ok(None) => json!({"status": "empty"}),
                Err(e) => json!({"status": "parse", "msg": e.0}),
            }),
            "fmt" => on_thread(stack_mb, move || match parse(&src) {
                Ok(Some(e)) => match &e.expr {
                    Expr::FormatString(v) => {
                        let segs: Vec<String> = v
                            .iter()
                            .map(|s| match s {
                                Ok(c) => format!("c{}", *c as u32),
                                Err((_, fl)) => format!(
                                    "e{},{},{},{}",
                                    match fl.base {
                                        FmtBase::Decimal => "Decimal",
                                        FmtBase::Binary => "Binary",
                                        FmtBase::Octal => "Octal",
                                        FmtBase::LowerHex => "LowerHex",
                                        FmtBase::UpperHex => "UpperHex",
                                    },
                                    fl.pad as u32,
                                    fl.pad_length,
                                    match fl.pad_align {
                                        FmtAlign::Left => "Left",
                                        FmtAlign::Right => "Right",
                                        FmtAlign::Center => "Center",
                                    }
                                ),
                            })
                            .collect();
                        json!({"status": "ok", "segs": segs.join(" ")})
                    }
                    _ => json!({"status": "other"}),
                },
                Ok(None) => json!({"status": "empty"}),
                Err(e) => json!({"status": "parse", "msg": e.0}),
            }),
            _ => json!({"status": "badcase"}),
        }
    });
}
