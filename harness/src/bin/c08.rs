//! C08 harness: the Rust comparison API of NNum called directly (PartialEq, PartialOrd, total_eq,
//! NNum::min / NNum::max) on values built with explicit representations: Small/Big integers,
//! rationals, floats and complex numbers from raw bit patterns (so e.g. a complex number with a
//! finite real part and a NaN imaginary part, which no Noulith expression produces, is reachable).
//!
//! case {"vals":[num,..],"pairs":[[i,j],..]}
//!   num: {"t":"i","v":dec} Small | {"t":"I","v":dec} Big | {"t":"r","n":dec,"d":dec}
//!      | {"t":"f","b":dec u64 bits} | {"t":"c","re":bits,"im":bits}
//! -> {"status":"ok","res":["<pcmp> <eq> <min> <max> <teq>",..]}
//!    pcmp: -1|0|1|n   eq,teq: 0|1   min,max: a|b (which argument was returned) ; "panic" for a panicking pair
use nvh::noulith::nnum::NNum;
use nvh::noulith::verif_hooks::NInt;
use nvh::serde_json::{json, Value};
use num::complex::Complex64;
use num::{BigInt, BigRational};
use std::cmp::Ordering;
use std::panic::{catch_unwind, AssertUnwindSafe};

fn s<'a>(v: &'a Value, k: &str) -> &'a str {
    v.get(k).and_then(|x| x.as_str()).unwrap_or("")
}
fn bits(x: &str) -> f64 {
    f64::from_bits(x.parse::<u64>().unwrap_or(0))
}

fn mk(v: &Value) -> Option<NNum> {
    Some(match s(v, "t") {
        "i" => NNum::Int(NInt::Small(s(v, "v").parse::<i64>().ok()?)),
        "I" => NNum::Int(NInt::Big(s(v, "v").parse::<BigInt>().ok()?)),
        "r" => NNum::Rational(Box::new(BigRational::new(
            s(v, "n").parse::<BigInt>().ok()?,
            s(v, "d").parse::<BigInt>().ok()?,
        ))),
        "f" => NNum::Float(bits(s(v, "b"))),
        "c" => NNum::Complex(Complex64::new(bits(s(v, "re")), bits(s(v, "im")))),
        _ => return None,
    })
}

fn one(a: &NNum, b: &NNum) -> String {
    let pc = match a.partial_cmp(b) {
        Some(Ordering::Less) => "-1",
        Some(Ordering::Equal) => "0",
        Some(Ordering::Greater) => "1",
        None => "n",
    };
    let eq = if a == b { 1 } else { 0 };
    let mn = if std::ptr::eq(a.min(b), a) { "a" } else { "b" };
    let mx = if std::ptr::eq(a.max(b), a) { "a" } else { "b" };
    let teq = if a.total_eq(b) { 1 } else { 0 };
    format!("{} {} {} {} {}", pc, eq, mn, mx, teq)
}

fn main() {
    nvh::serve(|case| {
        let vals: Vec<Option<NNum>> = case
            .get("vals")
            .and_then(|v| v.as_array())
            .map(|a| a.iter().map(mk).collect())
            .unwrap_or_default();
        let mut res: Vec<String> = Vec::new();
        if let Some(pairs) = case.get("pairs").and_then(|v| v.as_array()) {
            for p in pairs {
                let i = p.get(0).and_then(|x| x.as_u64()).unwrap_or(0) as usize;
                let j = p.get(1).and_then(|x| x.as_u64()).unwrap_or(0) as usize;
                match (vals.get(i).and_then(|x| x.as_ref()), vals.get(j).and_then(|x| x.as_ref())) {
                    (Some(a), Some(b)) => {
                        let b = &b.clone(); // distinct object even when i == j, so min/max identity is observable
                        res.push(match catch_unwind(AssertUnwindSafe(|| one(a, b))) {
                            Ok(s) => s,
                            Err(_) => "panic".to_string(),
                        })
                    }
                    _ => res.push("badval".to_string()),
                }
            }
        }
        json!({"status": "ok", "res": res})
    });
}
