//! C09 harness: the real `Hasher` write sequence and the real `Eq` of dictionary keys.
//! case: {"id":…, "keys": ["<noulith expr>", …], "eq": bool}
//! result: {"keys": [ {"canon": "<canonical value>", "tokens": ["u8:1", "i64:5", …]} | {"error": "<msg>"} , …],
//!          "eq": ["0110…", …]   (row i, column j: ObjKey_i == ObjKey_j; '-' when either key failed) }
//! Tokens are recorded at the granularity of the `Hasher` method called by the code under test:
//!   u8:<n> i64:<z> u64:<n> usize:<n> isize:<z> b:<hex bytes>  (other widths: u16/u32/u128/i8/i16/i32/i128)
//! `write_str`/`write_length_prefix` are unstable and cannot be overridden, so their defaults are what
//! is recorded (bytes then u8:255; usize:<len>), exactly as SipHasher13 sees them.
use nvh::noulith::{evaluate, parse, to_key, ObjKey};
use nvh::serde_json::{json, Value};
use std::hash::{Hash, Hasher};

struct Rec(Vec<String>);
impl Hasher for Rec {
    fn finish(&self) -> u64 {
        0
    }
    fn write(&mut self, bytes: &[u8]) {
        let mut s = String::from("b:");
        for b in bytes {
            s.push_str(&format!("{:02x}", b));
        }
        self.0.push(s);
    }
    fn write_u8(&mut self, i: u8) {
        self.0.push(format!("u8:{}", i));
    }
    fn write_u16(&mut self, i: u16) {
        self.0.push(format!("u16:{}", i));
    }
    fn write_u32(&mut self, i: u32) {
        self.0.push(format!("u32:{}", i));
    }
    fn write_u64(&mut self, i: u64) {
        self.0.push(format!("u64:{}", i));
    }
    fn write_u128(&mut self, i: u128) {
        self.0.push(format!("u128:{}", i));
    }
    fn write_usize(&mut self, i: usize) {
        self.0.push(format!("usize:{}", i));
    }
    fn write_i8(&mut self, i: i8) {
        self.0.push(format!("i8:{}", i));
    }
    fn write_i16(&mut self, i: i16) {
        self.0.push(format!("i16:{}", i));
    }
    fn write_i32(&mut self, i: i32) {
        self.0.push(format!("i32:{}", i));
    }
    fn write_i64(&mut self, i: i64) {
        self.0.push(format!("i64:{}", i));
    }
    fn write_i128(&mut self, i: i128) {
        self.0.push(format!("i128:{}", i));
    }
    fn write_isize(&mut self, i: isize) {
        self.0.push(format!("isize:{}", i));
    }
}

fn eval_key(env: &nvh::noulith::Rc<nvh::noulith::RefCell<nvh::noulith::Env>>, src: &str) -> Result<ObjKey, String> {
    let env2 = nvh::noulith::Rc::clone(env);
    let src2 = src.to_string();
    let r = std::panic::catch_unwind(std::panic::AssertUnwindSafe(move || match parse(&src2) {
        Ok(Some(ex)) => match evaluate(&env2, &ex) {
            Ok(o) => to_key(o).map_err(|e| format!("to_key: {}", nvh::nerr_to_json(&e))),
            Err(e) => Err(format!("eval: {}", nvh::nerr_to_json(&e))),
        },
        Ok(None) => Err("empty".to_string()),
        Err(_) => Err("parse".to_string()),
    }));
    match r {
        Ok(v) => v,
        Err(_) => Err("panic".to_string()),
    }
}

fn main() {
    let (base, _out) = nvh::fresh_env();
    nvh::serve(|case| {
        let env = nvh::noulith::Env::with_parent(&base);
        nvh::set_fuel(2_000_000);
        let srcs: Vec<String> = case
            .get("keys")
            .and_then(|v| v.as_array())
            .map(|a| a.iter().map(|s| s.as_str().unwrap_or("").to_string()).collect())
            .unwrap_or_default();
        let keys: Vec<Result<ObjKey, String>> = srcs.iter().map(|s| eval_key(&env, s)).collect();
        nvh::set_fuel(-1);
        let mut out: Vec<Value> = Vec::new();
        for k in keys.iter() {
            match k {
                Ok(k) => {
                    let kk = k.clone();
                    let toks = std::panic::catch_unwind(std::panic::AssertUnwindSafe(move || {
                        let mut h = Rec(Vec::new());
                        kk.hash(&mut h);
                        h.0
                    }));
                    match toks {
                        Ok(t) => out.push(json!({"canon": nvh::canon(&nvh::noulith::key_to_obj(k.clone())), "tokens": t})),
                        Err(_) => out.push(json!({"error": "panic in hash"})),
                    }
                }
                Err(e) => out.push(json!({ "error": e })),
            }
        }
        let mut eq: Vec<String> = Vec::new();
        if case.get("eq").and_then(|v| v.as_bool()).unwrap_or(false) {
            for a in keys.iter() {
                let mut row = String::new();
                for b in keys.iter() {
                    row.push(match (a, b) {
                        (Ok(a), Ok(b)) => {
                            let (a2, b2) = (a.clone(), b.clone());
                            match std::panic::catch_unwind(std::panic::AssertUnwindSafe(move || a2 == b2)) {
                                Ok(true) => '1',
                                Ok(false) => '0',
                                Err(_) => 'p',
                            }
                        }
                        _ => '-',
                    });
                }
                eq.push(row);
            }
        }
        json!({"keys": out, "eq": eq})
    });
}
