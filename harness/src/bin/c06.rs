//! C06 harness: NInt operators called directly through the cfg-guarded re-export
//! `noulith::verif_hooks::NInt` (all four owned/borrowed variants, explicit representations),
//! and Noulith programs whose integer results are reported together with their representation.
//!
//! case {"mode":"pair","a":dec,"ra":"S"|"B","b":dec,"rb":"S"|"B","pow":bool,"shift":bool}
//!   -> {"status":"ok","r":{"add/oo":"S 5",...}}        (every entry: "<rep> <dec>" | "b0"/"b1" | "lt"/"eq"/"gt" | "panic")
//! case {"mode":"un","a":dec,"ra":..,"prime":bool,"factorize":bool,"pows":[u32,..]}
//! case {"mode":"prog","stmts":[src,..],"fuel":n}
//!   -> {"results":[{"status","val","rep",...},..]}   rep: one letter per integer in the value, in order
use nvh::noulith::nnum::NNum;
use nvh::noulith::verif_hooks::NInt;
use nvh::noulith::{Env, Obj, Seq};
use nvh::serde_json::{json, Map, Value};
use num::BigInt;
use std::hash::{Hash, Hasher};
use std::panic::{catch_unwind, AssertUnwindSafe};

fn mk(dec: &str, rep: &str) -> Option<NInt> {
    let b: BigInt = dec.parse().ok()?;
    match rep {
        "S" => dec.parse::<i64>().ok().map(NInt::Small),
        _ => Some(NInt::Big(b)),
    }
}

fn show(n: &NInt) -> String {
    match n {
        NInt::Small(x) => format!("S {}", x),
        NInt::Big(x) => format!("B {}", x),
    }
}
fn showb(b: bool) -> String {
    (if b { "b1" } else { "b0" }).to_string()
}
fn showo(o: std::cmp::Ordering) -> String {
    match o {
        std::cmp::Ordering::Less => "lt",
        std::cmp::Ordering::Equal => "eq",
        std::cmp::Ordering::Greater => "gt",
    }
    .to_string()
}

fn guard(f: impl FnOnce() -> String) -> String {
    match catch_unwind(AssertUnwindSafe(f)) {
        Ok(s) => s,
        Err(_) => "panic".to_string(),
    }
}

struct Rec(Vec<String>);
impl Hasher for Rec {
    fn finish(&self) -> u64 {
        0
    }
    fn write(&mut self, bytes: &[u8]) {
        self.0.push(bytes.iter().map(|b| format!("{:02x}", b)).collect::<String>());
    }
}

macro_rules! four {
    ($m:expr, $name:expr, $a:expr, $b:expr, $op:tt) => {
        $m.insert(format!("{}/oo", $name), json!(guard(|| show(&($a.clone() $op $b.clone())))));
        $m.insert(format!("{}/or", $name), json!(guard(|| show(&($a.clone() $op &$b)))));
        $m.insert(format!("{}/ro", $name), json!(guard(|| show(&(&$a $op $b.clone())))));
        $m.insert(format!("{}/rr", $name), json!(guard(|| show(&(&$a $op &$b)))));
    };
}

fn pair(case: &Value) -> Value {
    let g = |k: &str| case.get(k).and_then(|v| v.as_str()).unwrap_or("");
    let (a, b) = match (mk(g("a"), g("ra")), mk(g("b"), g("rb"))) {
        (Some(a), Some(b)) => (a, b),
        _ => return json!({"status": "badcase"}),
    };
    let mut m = Map::new();
    four!(m, "add", a, b, +);
    four!(m, "sub", a, b, -);
    four!(m, "mul", a, b, *);
    four!(m, "div", a, b, /);
    four!(m, "rem", a, b, %);
    four!(m, "and", a, b, &);
    four!(m, "or", a, b, |);
    four!(m, "xor", a, b, ^);
    m.insert("eq".into(), json!(guard(|| showb(a == b))));
    m.insert("cmp".into(), json!(guard(|| showo(a.cmp(&b)))));
    m.insert(
        "pcmp".into(),
        json!(guard(|| a.partial_cmp(&b).map_or("none".to_string(), showo))),
    );
    m.insert("lt".into(), json!(guard(|| showb(a < b))));
    m.insert("gt".into(), json!(guard(|| showb(a > b))));
    m.insert("div_floor".into(), json!(guard(|| show(&a.div_floor(&b)))));
    m.insert("mod_floor".into(), json!(guard(|| show(&a.mod_floor(&b)))));
    m.insert("gcd".into(), json!(guard(|| show(&a.gcd(&b)))));
    m.insert("lcm".into(), json!(guard(|| show(&a.lcm(&b)))));
    if case.get("pow").and_then(|v| v.as_bool()).unwrap_or(false) {
        m.insert(
            "powr".into(),
            json!(guard(|| {
                let (f, r) = a.pow_maybe_recip(&b);
                format!("{} {}", if f { 1 } else { 0 }, show(&r))
            })),
        );
    }
    if case.get("shift").and_then(|v| v.as_bool()).unwrap_or(false) {
        if let Some(s) = b.to_usize() {
            m.insert("shl".into(), json!(guard(|| show(&(a.clone() << s)))));
            m.insert("shr".into(), json!(guard(|| show(&(a.clone() >> s)))));
        }
    }
    json!({"status": "ok", "r": Value::Object(m)})
}

fn un(case: &Value) -> Value {
    let g = |k: &str| case.get(k).and_then(|v| v.as_str()).unwrap_or("");
    let a = match mk(g("a"), g("ra")) {
        Some(a) => a,
        None => return json!({"status": "badcase"}),
    };
    let mut m = Map::new();
    let opt = |o: Option<String>| o.unwrap_or("none".to_string());
    m.insert("neg/o".into(), json!(guard(|| show(&(-a.clone())))));
    m.insert("neg/r".into(), json!(guard(|| show(&(-&a)))));
    m.insert("not/o".into(), json!(guard(|| show(&(!a.clone())))));
    m.insert("not/r".into(), json!(guard(|| show(&(!&a)))));
    m.insert("abs".into(), json!(guard(|| show(&a.abs()))));
    m.insert("signum".into(), json!(guard(|| show(&a.signum()))));
    m.insert(
        "sign".into(),
        json!(guard(|| format!("{:?}", a.sign()))),
    );
    m.insert("is_zero".into(), json!(guard(|| showb(a.is_zero()))));
    m.insert("is_positive".into(), json!(guard(|| showb(a.is_positive()))));
    m.insert("is_negative".into(), json!(guard(|| showb(a.is_negative()))));
    m.insert("to_i64".into(), json!(guard(|| opt(a.to_i64().map(|x| x.to_string())))));
    m.insert("to_usize".into(), json!(guard(|| opt(a.to_usize().map(|x| x.to_string())))));
    m.insert("lte1".into(), json!(guard(|| showb(a.lte(1)))));
    m.insert("lte3".into(), json!(guard(|| showb(a.lte(3)))));
    m.insert("of_big".into(), json!(guard(|| show(&NInt::from(a.clone().into_bigint())))));
    m.insert(
        "hash".into(),
        json!(guard(|| {
            let mut r = Rec(Vec::new());
            a.hash(&mut r);
            r.0.join(",")
        })),
    );
    if !a.is_negative() {
        m.insert("sqrt".into(), json!(guard(|| show(&a.sqrt()))));
    }
    if case.get("prime").and_then(|v| v.as_bool()).unwrap_or(false) {
        m.insert("is_prime".into(), json!(guard(|| showb(a.lazy_is_prime()))));
    }
    if case.get("factorize").and_then(|v| v.as_bool()).unwrap_or(false) {
        m.insert(
            "factorize".into(),
            json!(guard(|| {
                nvh::noulith::nnum::lazy_factorize(a.clone().into_bigint())
                    .into_iter()
                    .map(|(p, e)| format!("{}^{}", p, e))
                    .collect::<Vec<_>>()
                    .join(" ")
            })),
        );
    }
    if let Some(es) = case.get("pows").and_then(|v| v.as_array()) {
        for e in es {
            if let Some(e) = e.as_u64() {
                m.insert(format!("pow{}", e), json!(guard(|| show(&a.pow(e as u32)))));
            }
        }
    }
    json!({"status": "ok", "r": Value::Object(m)})
}

fn reps(o: &Obj, out: &mut String) {
    match o {
        Obj::Num(NNum::Int(NInt::Small(_))) => out.push('S'),
        Obj::Num(NNum::Int(NInt::Big(_))) => out.push('B'),
        Obj::Num(_) => out.push('-'),
        Obj::Seq(Seq::List(v)) => {
            for x in v.iter() {
                reps(x, out)
            }
        }
        Obj::Seq(Seq::Vector(v)) => {
            for x in v.iter() {
                reps(&Obj::Num(x.clone()), out)
            }
        }
        _ => out.push('?'),
    }
}

fn main() {
    let (base, base_out) = nvh::fresh_env();
    nvh::serve(|case| {
        match case.get("mode").and_then(|v| v.as_str()).unwrap_or("") {
            "pair" => return pair(case),
            "un" => return un(case),
            _ => {}
        }
        let fuel = case.get("fuel").and_then(|v| v.as_i64()).unwrap_or(2_000_000);
        let env = Env::with_parent(&base);
        base_out.take();
        let mut results: Vec<Value> = Vec::new();
        if let Some(stmts) = case.get("stmts").and_then(|v| v.as_array()) {
            for s in stmts {
                nvh::set_fuel(fuel);
                let src = s.as_str().unwrap_or("").to_string();
                let env2 = nvh::noulith::Rc::clone(&env);
                let r = catch_unwind(AssertUnwindSafe(move || match nvh::noulith::parse(&src) {
                    Ok(Some(ex)) => match nvh::noulith::evaluate(&env2, &ex) {
                        Ok(o) => {
                            let mut rp = String::new();
                            reps(&o, &mut rp);
                            json!({"status": "ok", "val": nvh::canon(&o), "rep": rp})
                        }
                        Err(e) => nvh::nerr_to_json(&e),
                    },
                    Ok(None) => json!({"status": "empty"}),
                    Err(pe) => json!({"status": "parse", "msg": pe.render(&src)}),
                }));
                let r = match r {
                    Ok(v) => v,
                    Err(p) => {
                        let msg = if let Some(s) = p.downcast_ref::<String>() {
                            s.clone()
                        } else if let Some(s) = p.downcast_ref::<&str>() {
                            s.to_string()
                        } else {
                            "?".to_string()
                        };
                        json!({"status": "panic", "msg": msg})
                    }
                };
                results.push(r);
            }
        }
        nvh::set_fuel(-1);
        base_out.take();
        json!({ "results": results })
    });
}
