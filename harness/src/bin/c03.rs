//! C03 harness: chains over test operators built through the Rust API.
//!
//! A `TOp` is a builtin whose `run` builds a tree `[name, arg…]`, so the grouping chosen by
//! the chain evaluator is directly observable. Synthetic operators carry an arbitrary
//! `Precedence(f64, Assoc)` and a chain group; wrapped operators delegate precedence and
//! `try_chain` to a real builtin of the live environment.
//!
//! modes:
//!  {"mode":"table"}                      -> every global function: name, precedence, assoc, and the chain relation
//!  {"mode":"chain","ops":[{"name","prec","assoc","group"}|{"real":"<"}],"src":"<program>"}
//!        binds o1..on (and `ev`, which logs its argument) in a fresh scope, runs src
use nvh::noulith::{self, Assoc, Builtin, Env, Func, NErr, NRes, Obj, ObjType, Precedence, Rc, RefCell};
use nvh::serde_json::{json, Value};
use std::sync::{Arc, Mutex};

type REnv = Rc<RefCell<Env>>;

#[derive(Debug, Clone)]
struct TOp {
    name: String,
    group: i64,           // synthetic chain group (0 = chains with nothing)
    inner: Option<Func>,  // wrapped real function
}
impl Builtin for TOp {
    fn run(&self, _env: &REnv, args: Vec<Obj>) -> NRes<Obj> {
        let mut v = vec![Obj::from(self.name.clone())];
        v.extend(args);
        Ok(Obj::list(v))
    }
    fn builtin_name(&self) -> &str {
        // real wrapped builtins identify each other by name (til/by, zip/with, ...)
        match &self.inner {
            Some(Func::Builtin(b)) => b.builtin_name(),
            _ => &self.name,
        }
    }
    fn try_chain(&self, other: &Func) -> Option<Func> {
        let o = match other {
            Func::Builtin(b) => (b.as_ref() as &dyn std::any::Any).downcast_ref::<TOp>()?,
            _ => return None,
        };
        match (&self.inner, &o.inner) {
            (Some(Func::Builtin(mine)), Some(theirs)) => {
                let merged = mine.try_chain(theirs)?;
                Some(Func::Builtin(Rc::new(TOp {
                    name: format!("{},{}", self.name, o.name),
                    group: 0,
                    inner: Some(merged),
                })))
            }
            (None, None) if self.group != 0 && self.group == o.group => Some(Func::Builtin(Rc::new(TOp {
                name: format!("{},{}", self.name, o.name),
                group: self.group,
                inner: None,
            }))),
            _ => None,
        }
    }
}

#[derive(Debug, Clone)]
struct Ev(Arc<Mutex<Vec<String>>>);
impl Builtin for Ev {
    fn run(&self, _env: &REnv, args: Vec<Obj>) -> NRes<Obj> {
        match args.into_iter().next() {
            Some(a) => {
                self.0.lock().unwrap().push(nvh::canon(&a));
                Ok(a)
            }
            None => Err(NErr::argument_error("ev: one arg".to_string())),
        }
    }
    fn builtin_name(&self) -> &str {
        "ev"
    }
}

fn parse_prec(s: &str) -> f64 {
    match s {
        "nan" => f64::NAN,
        "inf" => f64::INFINITY,
        "-inf" => f64::NEG_INFINITY,
        _ => s.parse().unwrap_or(0.0),
    }
}
fn show_prec(p: f64) -> String {
    if p.is_nan() {
        "nan".to_string()
    } else {
        format!("{:016x}", p.to_bits())
    }
}

fn table(base: &REnv) -> Value {
    let env = base.borrow();
    let mut funcs: Vec<(String, Func, Precedence)> = Vec::new();
    for (k, (_ty, cell)) in env.vars.iter() {
        if let Obj::Func(f, p) = &*cell.borrow() {
            funcs.push((k.clone(), f.clone(), *p));
        }
    }
    funcs.sort_by(|a, b| a.0.cmp(&b.0));
    let mut rows = Vec::new();
    let mut chains = Vec::new();
    let mut onward_bad = Vec::new();
    for (k, f, p) in &funcs {
        rows.push(json!({"name": k, "prec": show_prec(p.0), "precf": p.0, "assoc": match p.1 { Assoc::Left => "L", Assoc::Right => "R" },
                         "builtin": match f { Func::Builtin(b) => Some(b.builtin_name().to_string()), _ => None }}));
        if let Func::Builtin(b) = f {
            for (k2, f2, _) in &funcs {
                if let Some(m) = b.try_chain(f2) {
                    chains.push(json!([k, k2]));
                    // a merged operator chains onward exactly as its left component does
                    if let Func::Builtin(mb) = &m {
                        for (k3, f3, _) in &funcs {
                            if mb.try_chain(f3).is_some() != b.try_chain(f3).is_some() {
                                onward_bad.push(json!([k, k2, k3]));
                            }
                        }
                    } else {
                        onward_bad.push(json!([k, k2, "merged-not-builtin"]));
                    }
                }
            }
        }
    }
    json!({"status": "ok", "funcs": rows, "chains": chains, "onward_bad": onward_bad})
}

fn main() {
    let (base, out) = nvh::fresh_env();
    nvh::serve(|case| {
        let mode = case.get("mode").and_then(|v| v.as_str()).unwrap_or("chain");
        if mode == "table" {
            return table(&base);
        }
        let env = Env::with_parent(&base);
        let log = Arc::new(Mutex::new(Vec::new()));
        {
            let mut e = env.borrow_mut();
            let _ = e.insert("ev".to_string(), ObjType::Any, Obj::Func(Func::Builtin(Rc::new(Ev(log.clone()))), Precedence::zero()));
            if let Some(ops) = case.get("ops").and_then(|v| v.as_array()) {
                for (i, o) in ops.iter().enumerate() {
                    let var = format!("o{}", i + 1);
                    let obj = if let Some(real) = o.get("real").and_then(|v| v.as_str()) {
                        let found = {
                            let b = base.borrow();
                            b.vars.get(real).map(|(_, c)| c.borrow().clone())
                        };
                        match found {
                            Some(Obj::Func(f, p)) => Obj::Func(
                                Func::Builtin(Rc::new(TOp {
                                    name: o.get("name").and_then(|v| v.as_str()).unwrap_or(real).to_string(),
                                    group: 0,
                                    inner: Some(f),
                                })),
                                p,
                            ),
                            _ => return json!({"status": "badcase", "msg": format!("no function {}", real)}),
                        }
                    } else {
                        let name = o.get("name").and_then(|v| v.as_str()).unwrap_or("?").to_string();
                        let p = parse_prec(o.get("prec").and_then(|v| v.as_str()).unwrap_or("0"));
                        let a = if o.get("assoc").and_then(|v| v.as_str()) == Some("R") { Assoc::Right } else { Assoc::Left };
                        let g = o.get("group").and_then(|v| v.as_i64()).unwrap_or(0);
                        Obj::Func(Func::Builtin(Rc::new(TOp { name, group: g, inner: None })), Precedence(p, a))
                    };
                    let _ = e.insert(var, ObjType::Any, obj);
                }
            }
        }
        out.take();
        nvh::set_fuel(200_000);
        let src = case.get("src").and_then(|v| v.as_str()).unwrap_or("");
        let mut r = nvh::run_src(&env, src);
        nvh::set_fuel(-1);
        let _ = noulith::Obj::Null;
        r.as_object_mut().unwrap().insert("log".into(), json!(log.lock().unwrap().clone()));
        r
    });
}
