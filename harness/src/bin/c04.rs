//! C04 harness: the three entry points of every global function, called directly.
//!
//! cases (one JSON object per line):
//!   {"mode":"list"}
//!       -> {"status":"ok","names":[{"name","kind":"builtin"|"type"|"func"|"value"}, ...]}
//!   {"mode":"probe","fns":[src,...],"args":[src,...],"setup":[src,...]}
//!       -> {"status":"ok","kinds":[[k,...],...]}   k = what fns[i](args[j]) is:
//!          "P2" PartialApp2(that builtin, arg) | "PL" PartialAppLast(that builtin, arg) | "fn" | "val" | "err" | "panic"
//!   {"mode":"sweep","fn":name,"pool":[src,...],"setup":[src,...],"probes":[[i..],..],
//!    "tuples":[[i],[i,j],...],"fuel":n,"limit_ms":m}
//!       -> {"status":"batch","done":k,"n":total,"calls":c,"diffs":[...],"panics":[...],"skipped":[...],
//!           "counts":{...},"sections":s, "hang_at":k?}
//!       For a tuple [x]:    Func::run(vec![x]) vs Func::run1(x)
//!       For a tuple [x,y]:  Func::run(vec![x,y]) vs Func::run2(x,y); and when run(vec![x,y]) succeeds and
//!                           run(vec![y]) is a function g: g.run(vec![x]) and g.run1(x) vs run(vec![x,y]).
//!       For a tuple [x,y,z]: when run(vec![x,y,z]) succeeds and run(vec![z]) is a function g:
//!                           g.run(vec![x,y]) and g.run2(x,y) vs run(vec![x,y,z]).
//!       (For Func::Builtin these dispatch straight to Builtin::run / run1 / run2.)
//!       Outcomes are compared as canonical value + captured output, or "raised"; two function results
//!       are compared by applying both to the probe tuples. A panic on one side against a VALUE on the other
//!       is a difference; panics on both sides (or panic vs raised) count as "both fail"; fuel exhaustion and
//!       control-flow signals are recorded and skipped. That a call panics at all is C14's business. When one call exceeds limit_ms a
//!       watchdog prints the partial result with "hang_at" and exits with code 97.
//! Arguments are evaluated afresh from their source for every single call, so they are uniquely owned
//! exactly as in `f(<literal>, <literal>)`.
use nvh::noulith::{evaluate, parse, Env, Func, LocExpr, NErr, Obj, Rc, RefCell, Seq};
use nvh::serde_json::{json, Map, Value};
use std::io::Write;
use std::sync::{Arc, Mutex};
use std::time::{Duration, Instant};

#[repr(C)]
struct Rlimit {
    cur: u64,
    max: u64,
}
extern "C" {
    fn setrlimit(resource: i32, rlim: *const Rlimit) -> i32;
}
const RLIMIT_AS: i32 = 9; // linux

struct Shared {
    id: Value,
    active: bool,
    started: Option<Instant>,
    limit: Duration,
    partial: Value,
}

#[derive(Clone)]
enum Out {
    Val(String, String, Option<Func>), // canonical value, captured output, the function if it is one
    Raised(String),                    // output
    Skip(String),                      // panic / fuel / signal: not compared
}

fn bump(m: &mut Map<String, Value>, k: &str) {
    let v = m.get(k).and_then(|v| v.as_u64()).unwrap_or(0);
    m.insert(k.to_string(), json!(v + 1));
}

fn panic_msg(p: Box<dyn std::any::Any + Send>) -> String {
    if let Some(s) = p.downcast_ref::<String>() {
        s.clone()
    } else if let Some(s) = p.downcast_ref::<&str>() {
        s.to_string()
    } else {
        "?".to_string()
    }
}

struct Pool {
    key: String,
    exprs: Vec<LocExpr>,
    env: Rc<RefCell<Env>>,
    out: nvh::OutBuf,
}

fn strs(v: &Value) -> Vec<String> {
    v.as_array()
        .map(|a| a.iter().map(|v| v.as_str().unwrap_or("").to_string()).collect())
        .unwrap_or_default()
}

fn build_pool(srcs: &[String], setup: &[String]) -> Result<Pool, String> {
    let key = format!("{:?}|{:?}", srcs, setup);
    let (env, out) = nvh::fresh_env();
    for s in setup {
        let r = nvh::run_src(&env, s);
        if r["status"] != "ok" && r["status"] != "empty" {
            return Err(format!("setup {:?} failed: {}", s, r));
        }
    }
    let mut exprs = Vec::new();
    for s in srcs {
        match parse(s) {
            Ok(Some(e)) => exprs.push(e),
            Ok(None) => return Err(format!("pool value {:?} is empty", s)),
            Err(e) => return Err(format!("pool value {:?} does not parse: {}", s, e.render(s))),
        }
    }
    Ok(Pool { key, exprs, env, out })
}

impl Pool {
    fn args(&self, env: &Rc<RefCell<Env>>, t: &[usize]) -> Result<Vec<Obj>, String> {
        nvh::set_fuel(-1);
        let mut v = Vec::with_capacity(t.len());
        for &i in t {
            match evaluate(env, &self.exprs[i]) {
                Ok(o) => v.push(o),
                Err(_) => return Err(format!("pool value {} failed to evaluate", i)),
            }
        }
        Ok(v)
    }
}

// one guarded call (below); `which`: 0 = run(vec), 1 = run1, 2 = run2
thread_local! {
    static UNORDERED: std::cell::Cell<bool> = std::cell::Cell::new(false);
}

/// canonical text; for builtins whose result order is the iteration order of a HashMap the
/// elements of a top-level list are sorted
fn canon_result(o: &Obj) -> String {
    if UNORDERED.with(|u| u.get()) {
        if let Obj::Seq(Seq::List(v)) = o {
            let mut parts: Vec<String> = v.iter().map(|x| nvh::canon_cap(x, 24)).collect();
            parts.sort();
            return format!("L~[{}]", parts.join(","));
        }
    }
    nvh::canon_cap(o, 24)
}

fn variant(f: &Func) -> &'static str {
    match f {
        Func::Builtin(_) => "Builtin",
        Func::Closure(_) => "Closure",
        Func::InternalLambda(..) => "InternalLambda",
        Func::PartialApp1(..) => "PartialApp1",
        Func::PartialApp2(..) => "PartialApp2",
        Func::PartialAppLast(..) => "PartialAppLast",
        Func::Composition(..) => "Composition",
        Func::OnComposition(..) => "OnComposition",
        Func::Parallel(_) => "Parallel",
        Func::Fanout(_) => "Fanout",
        Func::OnFanoutConst(..) => "OnFanoutConst",
        Func::Flip(_) => "Flip",
        Func::ListSection(_) => "ListSection",
        Func::ChainSection(..) => "ChainSection",
        Func::CallSection(..) => "CallSection",
        Func::IndexSection(..) => "IndexSection",
        Func::UpdateSection(_) => "UpdateSection",
        Func::SliceSection(..) => "SliceSection",
        Func::Type(_) => "Type",
        Func::StructField(..) => "StructField",
        Func::SymbolAccess(_) => "SymbolAccess",
        Func::Memoized(..) => "Memoized",
    }
}

/// what a one-argument call returned, relative to the function called
fn one_kind(f: &Func, arg_canon: &str, r: &Out) -> &'static str {
    match r {
        Out::Val(_, _, Some(g)) => {
            let selfname = match f {
                Func::Builtin(b) => Some(b.builtin_name().to_string()),
                _ => None,
            };
            match (g, selfname) {
                (Func::PartialApp2(inner, y), Some(n)) => match &**inner {
                    Func::Builtin(b2) if b2.builtin_name() == n && nvh::canon(y) == arg_canon => "P2",
                    _ => "fn",
                },
                (Func::PartialAppLast(inner, y), Some(n)) => match &**inner {
                    Func::Builtin(b2) if b2.builtin_name() == n && nvh::canon(y) == arg_canon => "PL",
                    _ => "fn",
                },
                _ => "fn",
            }
        }
        Out::Val(..) => "val",
        Out::Raised(_) => "err",
        Out::Skip(_) => "skip",
    }
}

fn guarded(p: &Pool, f: &Func, which: u8, t: &[usize], fuel: i64, calls: &mut u64) -> Result<Out, String> {
    let env = Env::with_parent(&p.env);
    let args = p.args(&env, t)?;
    p.out.take();
    nvh::set_fuel(fuel);
    *calls += 1;
    let f2 = f.clone();
    let env2 = Rc::clone(&env);
    let r = std::panic::catch_unwind(std::panic::AssertUnwindSafe(move || {
        let mut it = args.into_iter();
        let r = match which {
            1 => {
                let a = it.next().unwrap();
                f2.run1(&env2, a)
            }
            2 => {
                let a = it.next().unwrap();
                let b = it.next().unwrap();
                f2.run2(&env2, a, b)
            }
            _ => f2.run(&env2, it.collect()),
        };
        match r {
            Ok(o) => {
                let c = canon_result(&o);
                let fun = match &o {
                    Obj::Func(g, _) => Some(g.clone()),
                    _ => None,
                };
                (0u8, c, fun)
            }
            Err(NErr::Throw(o, _)) => {
                let fuel_out = match &o {
                    Obj::Seq(Seq::String(s)) => s.starts_with("verif: fuel exhausted"),
                    _ => false,
                };
                (if fuel_out { 2u8 } else { 1u8 }, String::new(), None)
            }
            Err(_) => (3u8, String::new(), None),
        }
    }));
    nvh::set_fuel(-1);
    let out = p.out.take();
    Ok(match r {
        Ok((0, c, fun)) => Out::Val(c, out, fun),
        Ok((1, _, _)) => Out::Raised(out),
        Ok((2, _, _)) => Out::Skip("fuel".to_string()),
        Ok((_, _, _)) => Out::Skip("signal".to_string()),
        Err(pl) => Out::Skip(format!("panic: {}", panic_msg(pl).chars().take(160).collect::<String>())),
    })
}

/// apply a function result to one probe tuple (vector entry point)
fn apply_probe(p: &Pool, g: &Func, t: &[usize], fuel: i64, calls: &mut u64) -> Result<Out, String> {
    guarded(p, g, 0, t, fuel, calls)
}

fn show(o: &Out) -> String {
    match o {
        Out::Val(c, out, _) => {
            if out.is_empty() {
                format!("ok {}", c)
            } else {
                format!("ok {} printed {:?}", c, out)
            }
        }
        Out::Raised(out) => {
            if out.is_empty() {
                "raised".to_string()
            } else {
                format!("raised printed {:?}", out)
            }
        }
        Out::Skip(s) => format!("skip({})", s),
    }
}

/// Some(true) equal, Some(false) different, None not comparable (a panic / fuel / signal on one side)
fn same(p: &Pool, a: &Out, b: &Out, probes: &[Vec<usize>], fuel: i64, calls: &mut u64, why: &mut String) -> Result<Option<bool>, String> {
    let is_panic = |o: &Out| matches!(o, Out::Skip(s) if s.starts_with("panic"));
    match (a, b) {
        // a panic on one side while the other side returns a VALUE is a disagreement between entry points
        // (both failing - panic, or panic vs raised - is "all fail"; that a call panics at all is C14's business)
        (x, Out::Val(..)) if is_panic(x) => {
            *why = "one entry point panics, the other returns a value".to_string();
            Ok(Some(false))
        }
        (Out::Val(..), y) if is_panic(y) => {
            *why = "one entry point panics, the other returns a value".to_string();
            Ok(Some(false))
        }
        (x, y) if is_panic(x) && (is_panic(y) || matches!(y, Out::Raised(_))) => Ok(Some(true)),
        (x, y) if is_panic(y) && matches!(x, Out::Raised(_)) => Ok(Some(true)),
        (Out::Skip(_), _) | (_, Out::Skip(_)) => Ok(None),
        (Out::Raised(o1), Out::Raised(o2)) => Ok(Some(o1 == o2)),
        (Out::Val(c1, o1, f1), Out::Val(c2, o2, f2)) => {
            if c1 != c2 || o1 != o2 {
                return Ok(Some(false));
            }
            if let (Some(g1), Some(g2)) = (f1, f2) {
                for t in probes {
                    let r1 = apply_probe(p, g1, t, fuel, calls)?;
                    let r2 = apply_probe(p, g2, t, fuel, calls)?;
                    let eq = match (&r1, &r2) {
                        (Out::Skip(_), _) | (_, Out::Skip(_)) => true,
                        (Out::Raised(x), Out::Raised(y)) => x == y,
                        (Out::Val(x, xo, _), Out::Val(y, yo, _)) => x == y && xo == yo,
                        _ => false,
                    };
                    if !eq {
                        *why = format!("as functions they differ on probe {:?}: {} vs {}", t, show(&r1), show(&r2));
                        return Ok(Some(false));
                    }
                }
            }
            Ok(Some(true))
        }
        _ => Ok(Some(false)),
    }
}

fn main() {
    let lim = std::env::var("C04_AS_LIMIT_MB").ok().and_then(|s| s.parse::<u64>().ok()).unwrap_or(3072);
    unsafe {
        let r = Rlimit { cur: lim << 20, max: lim << 20 };
        setrlimit(RLIMIT_AS, &r);
    }
    let _ = std::fs::create_dir_all("/tmp/nv-c04-sandbox");
    let _ = std::env::set_current_dir("/tmp/nv-c04-sandbox");

    let shared = Arc::new(Mutex::new(Shared {
        id: Value::Null,
        active: false,
        started: None,
        limit: Duration::from_millis(3000),
        partial: Value::Null,
    }));
    {
        let sh = Arc::clone(&shared);
        std::thread::spawn(move || loop {
            std::thread::sleep(Duration::from_millis(50));
            let g = sh.lock().unwrap();
            if g.active {
                if let Some(t0) = g.started {
                    if t0.elapsed() > g.limit {
                        let mut r = g.partial.clone();
                        r["id"] = g.id.clone();
                        let so = std::io::stdout();
                        let mut o = so.lock();
                        let _ = writeln!(o, "{}", r);
                        let _ = o.flush();
                        std::process::exit(97);
                    }
                }
            }
        });
    }
    let mut pool: Option<Pool> = None;

    nvh::serve(|case| {
        let mode = case["mode"].as_str().unwrap_or("sweep");
        if mode == "list" {
            let (env, _out) = nvh::fresh_env();
            let e = env.borrow();
            let mut keys: Vec<&String> = e.vars.keys().collect();
            keys.sort();
            let mut names: Vec<Value> = Vec::new();
            for k in keys {
                let (_, cell) = &e.vars[k];
                let kind = match &*cell.borrow() {
                    Obj::Func(Func::Builtin(_), _) => "builtin",
                    Obj::Func(Func::Type(_), _) => "type",
                    Obj::Func(_, _) => "func",
                    _ => "value",
                };
                names.push(json!({"name": k, "kind": kind}));
            }
            return json!({"status": "ok", "names": names});
        }
        let srcs = strs(&case["pool"]);
        let setup = strs(&case["setup"]);
        if mode == "probe" {
            let fns = strs(&case["fns"]);
            let args = strs(&case["args"]);
            let mut all = fns.clone();
            all.extend(args.iter().cloned());
            let p = match build_pool(&all, &setup) {
                Ok(p) => p,
                Err(e) => return json!({"status": "badcase", "msg": e}),
            };
            let mut kinds: Vec<Value> = Vec::new();
            let mut calls = 0u64;
            for i in 0..fns.len() {
                let env = Env::with_parent(&p.env);
                let fv = match p.args(&env, &[i]) {
                    Ok(mut v) => v.remove(0),
                    Err(e) => return json!({"status": "badcase", "msg": e}),
                };
                let mut row: Vec<Value> = Vec::new();
                for j in 0..args.len() {
                    let k = match &fv {
                        Obj::Func(f, _) => {
                            let x = match p.args(&env, &[fns.len() + j]) {
                                Ok(mut v) => v.remove(0),
                                Err(e) => return json!({"status": "badcase", "msg": e}),
                            };
                            let xc = nvh::canon(&x);
                            match guarded(&p, f, 0, &[fns.len() + j], 200_000, &mut calls) {
                                Ok(r) => one_kind(f, &xc, &r),
                                Err(_) => "badarg",
                            }
                        }
                        _ => "notfn",
                    };
                    row.push(json!(k));
                }
                kinds.push(Value::Array(row));
            }
            return json!({"status": "ok", "kinds": kinds});
        }
        // ---- sweep
        let key = format!("{:?}|{:?}", srcs, setup);
        if pool.as_ref().map(|p| p.key != key).unwrap_or(true) {
            match build_pool(&srcs, &setup) {
                Ok(p) => pool = Some(p),
                Err(e) => return json!({"status": "badcase", "msg": e}),
            }
        }
        let p = pool.as_ref().unwrap();
        let fname = case["fn"].as_str().unwrap_or("");
        let func = {
            let e = p.env.borrow();
            match e.vars.get(fname) {
                Some((_, cell)) => match &*cell.borrow() {
                    Obj::Func(f, _) => f.clone(),
                    _ => return json!({"status": "badcase", "msg": format!("{} is not a function", fname)}),
                },
                None => return json!({"status": "badcase", "msg": format!("no global {}", fname)}),
            }
        };
        let fuel = case["fuel"].as_i64().unwrap_or(20_000);
        let limit = Duration::from_millis(case["limit_ms"].as_u64().unwrap_or(2000));
        let idx = |v: &Value| -> Vec<Vec<usize>> {
            v.as_array()
                .map(|a| {
                    a.iter()
                        .map(|t| t.as_array().map(|x| x.iter().map(|i| i.as_u64().unwrap_or(0) as usize).collect()).unwrap_or_default())
                        .collect()
                })
                .unwrap_or_default()
        };
        UNORDERED.with(|u| u.set(case["unordered"].as_bool().unwrap_or(false)));
        let tuples = idx(&case["tuples"]);
        let probes = idx(&case["probes"]);
        for t in tuples.iter().chain(probes.iter()) {
            if t.iter().any(|&i| i >= p.exprs.len()) {
                return json!({"status": "badcase", "msg": "pool index out of range"});
            }
        }
        let n = tuples.len();
        let mut counts = Map::new();
        let mut diffs: Vec<Value> = Vec::new();
        let mut panics: Vec<Value> = Vec::new();
        let mut calls = 0u64;
        let mut sections = 0u64;
        let mut compared = 0u64;
        let mut oks: Vec<Value> = Vec::new();
        let mut one_kinds = Map::new();
        {
            let mut g = shared.lock().unwrap();
            g.id = case.get("id").cloned().unwrap_or(Value::Null);
            g.active = true;
            g.limit = limit;
            g.started = None;
        }
        macro_rules! partial {
            ($done:expr, $hang:expr, $t:expr) => {{
                let mut r = json!({"status": "batch", "fn": fname, "done": $done, "n": n, "calls": calls, "compared": compared,
                                   "sections": sections, "diffs": diffs, "panics": panics, "counts": Value::Object(counts.clone()),
                                   "oks": oks, "one_kinds": Value::Object(one_kinds.clone())});
                if $hang {
                    r["hang_at"] = json!($done);
                    r["hang_t"] = json!($t);
                }
                r
            }};
        }
        for (k, t) in tuples.iter().enumerate() {
            {
                let mut g = shared.lock().unwrap();
                g.partial = partial!(k, true, t);
                g.started = Some(Instant::now());
            }
            let note = |kind: &str, what: String, a: &Out, b: &Out, why: &str, gv: &str, diffs: &mut Vec<Value>| {
                diffs.push(json!({"fn": fname, "t": t, "kind": kind, "what": what, "left": show(a), "right": show(b), "why": why, "one_arg_result": gv}));
            };
            let res: Result<(), String> = (|| {
                let r0 = guarded(p, &func, 0, t, fuel, &mut calls)?;
                if t.len() == 1 {
                    let env = Env::with_parent(&p.env);
                    let xc = nvh::canon(&p.args(&env, t)?[0]);
                    one_kinds.insert(t[0].to_string(), json!(one_kind(&func, &xc, &r0)));
                }
                match &r0 {
                    Out::Val(..) => {
                        bump(&mut counts, "ok");
                        oks.push(json!(t));
                    }
                    Out::Raised(_) => bump(&mut counts, "raised"),
                    Out::Skip(s) => {
                        bump(&mut counts, if s.starts_with("panic") { "panic" } else { s.as_str() });
                        if s.starts_with("panic") {
                            panics.push(json!({"fn": fname, "t": t, "entry": "run", "msg": s}));
                        }
                    }
                }
                if t.len() <= 2 {
                    let which = if t.len() == 1 { 1 } else { 2 };
                    let r1 = guarded(p, &func, which, t, fuel, &mut calls)?;
                    if let Out::Skip(s) = &r1 {
                        if s.starts_with("panic") {
                            panics.push(json!({"fn": fname, "t": t, "entry": format!("run{}", which), "msg": s}));
                        }
                    }
                    let mut why = String::new();
                    match same(p, &r0, &r1, &probes, fuel, &mut calls, &mut why)? {
                        Some(true) => compared += 1,
                        Some(false) => {
                            compared += 1;
                            note("entry", format!("run(vec) vs run{}", which), &r0, &r1, &why, "", &mut diffs);
                        }
                        None => bump(&mut counts, "not-compared"),
                    }
                }
                if t.len() >= 2 {
                    if let Out::Val(..) = &r0 {
                        // f(last): a function? then f(last)(the others) must be f(all)
                        let k = t.len() - 1;
                        let s = guarded(p, &func, 0, &t[k..], fuel, &mut calls)?;
                        // (with more than one other argument only a PartialAppLast can be meant as a section:
                        //  PartialApp2 takes exactly one more argument by design)
                        let applicable = match &s {
                            Out::Val(_, _, Some(g)) => k == 1 || variant(g) == "PartialAppLast",
                            _ => false,
                        };
                        if let (true, Out::Val(_, _, Some(g))) = (applicable, &s) {
                            sections += 1;
                            let entries: &[(u8, &str)] = if k == 1 {
                                &[(0u8, "f(y).run(vec![x])"), (1u8, "f(y).run1(x)")]
                            } else if k == 2 {
                                &[(0u8, "f(z).run(vec![x,y])"), (2u8, "f(z).run2(x,y)")]
                            } else {
                                &[(0u8, "f(last).run(vec![others])")]
                            };
                            for (w, label) in entries {
                                let r = guarded(p, g, *w, &t[..k], fuel, &mut calls)?;
                                let mut why = String::new();
                                match same(p, &r0, &r, &probes, fuel, &mut calls, &mut why)? {
                                    Some(true) => compared += 1,
                                    Some(false) => {
                                        compared += 1;
                                        note("section", format!("f(all) vs {}", label), &r0, &r, &why, variant(g), &mut diffs);
                                    }
                                    None => bump(&mut counts, "not-compared"),
                                }
                            }
                        }
                    }
                }
                Ok(())
            })();
            if let Err(m) = res {
                shared.lock().unwrap().active = false;
                return json!({"status": "badcase", "msg": m});
            }
            shared.lock().unwrap().started = None;
        }
        shared.lock().unwrap().active = false;
        partial!(n, false, Vec::<usize>::new())
    });
}
