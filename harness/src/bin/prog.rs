//! Generic program runner.
//! case: {"id":…, "src": "<program>" | "stmts": ["<stmt>", …], "fuel": n (default 2_000_000),
//!        "fresh": bool (default false: a child scope of one shared initialised env),
//!        "cli": bool (default false; true: run the way src/main.rs does, through noulith::warn first)}
//! result: {"status","val"|"msg"|…,"out"} or {"results":[…]} for "stmts".
use nvh::noulith::{Env, Rc};
use nvh::serde_json::{json, Value};

fn main() {
    let (base, base_out) = nvh::fresh_env();
    nvh::serve(|case| {
        let fuel = case.get("fuel").and_then(|v| v.as_i64()).unwrap_or(2_000_000);
        let fresh = case.get("fresh").and_then(|v| v.as_bool()).unwrap_or(false);
        let cli = case.get("cli").and_then(|v| v.as_bool()).unwrap_or(false);
        let run = if cli { nvh::run_src_cli } else { nvh::run_src };
        let (env, out) = if fresh {
            nvh::fresh_env()
        } else {
            (Env::with_parent(&base), base_out.clone())
        };
        let _ = Rc::strong_count(&env);
        out.take();
        nvh::set_fuel(fuel);
        if let Some(stmts) = case.get("stmts").and_then(|v| v.as_array()) {
            let mut results: Vec<Value> = Vec::new();
            for s in stmts {
                let mut r = run(&env, s.as_str().unwrap_or(""));
                r.as_object_mut().unwrap().insert("out".into(), json!(out.take()));
                let stop = r["status"] == "panic";
                results.push(r);
                if stop {
                    break;
                }
            }
            nvh::set_fuel(-1);
            json!({ "results": results })
        } else {
            let src = case.get("src").and_then(|v| v.as_str()).unwrap_or("");
            let mut r = run(&env, src);
            r.as_object_mut().unwrap().insert("out".into(), json!(out.take()));
            nvh::set_fuel(-1);
            r
        }
    });
}
