//! C17 program runner: like bin/prog in "stmts" mode, but the evaluation budget is reset for
//! every statement (an unfrozen lambda may legitimately stop terminating after `swap +, *`;
//! that must not starve the statements after it).
//! case: {"id":…, "stmts": ["<stmt>", …], "fuel": n per statement, "fresh": bool}
//! result: {"results":[{"status","val"|"msg"|…,"out"}, …]}
use nvh::noulith::Env;
use nvh::serde_json::{json, Value};

fn main() {
    let (base, base_out) = nvh::fresh_env();
    nvh::serve(|case| {
        let fuel = case.get("fuel").and_then(|v| v.as_i64()).unwrap_or(200_000);
        let fresh = case.get("fresh").and_then(|v| v.as_bool()).unwrap_or(false);
        let (env, out) = if fresh {
            nvh::fresh_env()
        } else {
            (Env::with_parent(&base), base_out.clone())
        };
        out.take();
        let mut results: Vec<Value> = Vec::new();
        if let Some(stmts) = case.get("stmts").and_then(|v| v.as_array()) {
            for s in stmts {
                nvh::set_fuel(fuel);
                let mut r = nvh::run_src(&env, s.as_str().unwrap_or(""));
                r.as_object_mut().unwrap().insert("out".into(), json!(out.take()));
                let stop = r["status"] == "panic";
                results.push(r);
                if stop {
                    break;
                }
            }
        }
        nvh::set_fuel(-1);
        json!({ "results": results })
    });
}
