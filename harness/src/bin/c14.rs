//! C14 sweep harness: applies global functions of the live env to tuples of pool values, every
//! call under catch_unwind, with the fuel hook, a per-call watchdog, an allocation cap and an
//! address-space limit.
//!
//! cases (one JSON object per line in, one JSON object per line out):
//!   {"mode":"list"}
//!       -> {"status":"ok","names":[{"name","kind":"builtin"|"type"|"func"|"value","type":..}, ...],
//!           "obj_size": size_of::<Obj>(), "alloc_cap": bytes}
//!   {"mode":"sweep","fn":name,"pool":[src,...],"setup":[src,...],
//!    "tuples":[[i,j],...] | "grid":{"vals":[i,...],"arity":k,"start":a,"end":b},
//!    "fuel":n,"limit_ms":m,"detail":bool,"force":k}
//!       -> {"status":"batch","done":k,"n":total,"counts":{"ok":..,"err:type":..,...},
//!           "bad":[{"t":[..],"status":"panic","msg":..,"loc":..}],"slow":[{"t","ms"}],
//!           "hang_at":index? | "alloc_at":index? | "abort_sig":n?, "results":[...]? (when detail)}
//!       limit_ms is CPU time of one call (wall time is cut at 8x limit_ms)
//!
//! The process is a fork server: the parent initialises the env and parses the pool once; every
//! batch runs in a forked child that reports through a pipe. So a batch cannot disturb the env
//! of the next one, and a call that hangs (watchdog thread in the child: "hang_at"), requests a
//! single allocation above C14_ALLOC_CAP_MB / fails to allocate ("alloc_at") or aborts the process
//! ("abort_sig") costs a fork, not a re-initialisation.
//! Arguments are evaluated afresh from their source text for every call, so that they are
//! uniquely owned exactly as in `f(<literal>, <literal>)`.
use nvh::noulith::{evaluate, parse, Env, Func, LocExpr, Obj, Rc, RefCell};
use nvh::serde_json::{json, Map, Value};
use std::alloc::{GlobalAlloc, Layout, System};
use std::sync::atomic::{AtomicBool, AtomicI32, AtomicUsize, Ordering};
use std::sync::{Arc, Mutex, OnceLock};
use std::time::{Duration, Instant};

extern "C" {
    fn setrlimit(resource: i32, rlim: *const Rlimit) -> i32;
    fn write(fd: i32, buf: *const u8, n: usize) -> isize;
    fn read(fd: i32, buf: *mut u8, n: usize) -> isize;
    fn close(fd: i32) -> i32;
    fn pipe(fds: *mut i32) -> i32;
    fn fork() -> i32;
    fn waitpid(pid: i32, status: *mut i32, options: i32) -> i32;
    fn _exit(code: i32) -> !;
    fn clock_gettime(clk: i32, ts: *mut Timespec) -> i32;
    fn mallopt(param: i32, value: i32) -> i32;
    fn signal(signum: i32, handler: usize) -> usize;
}
#[repr(C)]
struct Timespec {
    sec: i64,
    nsec: i64,
}
/// CPU time consumed by this process (the forked child): the per-call limit is in CPU time so that a
/// loaded machine does not turn a slow call into a "hang"; wall time is limited at 8x that.
fn cpu_now() -> Duration {
    let mut ts = Timespec { sec: 0, nsec: 0 };
    unsafe { clock_gettime(2, &mut ts) }; // CLOCK_PROCESS_CPUTIME_ID
    Duration::new(ts.sec as u64, ts.nsec as u32)
}
#[repr(C)]
struct Rlimit {
    cur: u64,
    max: u64,
}
const RLIMIT_AS: i32 = 9; // linux

/// Allocator wrapper: a single request above the cap is refused; if that (or any other failed allocation)
/// ends in abort(), the SIGABRT handler reports "alloc_at" with the index of the call; an abort for
/// another reason is reported as "abort_at".
struct CapAlloc;
static ALLOC_CAP: AtomicUsize = AtomicUsize::new(usize::MAX);
static SHARED: OnceLock<Arc<Mutex<Shared>>> = OnceLock::new();
static IN_BOMB: AtomicBool = AtomicBool::new(false);
static LAST_REFUSED: AtomicUsize = AtomicUsize::new(0);
static OUT_FD: AtomicI32 = AtomicI32::new(-1);

fn write_all(fd: i32, s: &str) {
    let b = s.as_bytes();
    let mut off = 0;
    while off < b.len() {
        let n = unsafe { write(fd, b[off..].as_ptr(), b.len() - off) };
        if n <= 0 {
            break;
        }
        off += n as usize;
    }
}

/// Called from the SIGABRT handler (Rust's handle_alloc_error ends in abort()): report where, then leave.
fn report_abort() -> ! {
    if !IN_BOMB.swap(true, Ordering::SeqCst) {
        ALLOC_CAP.store(usize::MAX, Ordering::SeqCst);
        let fd = OUT_FD.load(Ordering::SeqCst);
        let size = LAST_REFUSED.load(Ordering::SeqCst);
        if let (Some(sh), true) = (SHARED.get(), fd >= 0) {
            if let Ok(g) = sh.try_lock() {
                let mut r = partial_json(&g);
                if size > 0 {
                    r["alloc_at"] = json!(g.cur);
                    r["alloc_size"] = json!(size as u64);
                } else {
                    r["abort_at"] = json!(g.cur);
                }
                write_all(fd, &format!("{}\n", r));
                unsafe { _exit(98) }
            }
        }
    }
    unsafe { _exit(99) }
}
extern "C" fn on_sigabrt(_sig: i32) {
    report_abort()
}

/// A single request above the cap is REFUSED (null), exactly like an allocator that is out of memory:
/// fallible callers (try_reserve) see an error, infallible ones go through handle_alloc_error -> abort().
unsafe impl GlobalAlloc for CapAlloc {
    unsafe fn alloc(&self, l: Layout) -> *mut u8 {
        if l.size() > ALLOC_CAP.load(Ordering::Relaxed) {
            LAST_REFUSED.store(l.size(), Ordering::SeqCst);
            return std::ptr::null_mut();
        }
        let p = System.alloc(l);
        if p.is_null() && l.size() > 0 {
            LAST_REFUSED.store(l.size(), Ordering::SeqCst);
        }
        p
    }
    unsafe fn dealloc(&self, p: *mut u8, l: Layout) {
        System.dealloc(p, l)
    }
    unsafe fn alloc_zeroed(&self, l: Layout) -> *mut u8 {
        if l.size() > ALLOC_CAP.load(Ordering::Relaxed) {
            LAST_REFUSED.store(l.size(), Ordering::SeqCst);
            return std::ptr::null_mut();
        }
        let p = System.alloc_zeroed(l);
        if p.is_null() && l.size() > 0 {
            LAST_REFUSED.store(l.size(), Ordering::SeqCst);
        }
        p
    }
    unsafe fn realloc(&self, p: *mut u8, l: Layout, n: usize) -> *mut u8 {
        if n > ALLOC_CAP.load(Ordering::Relaxed) {
            LAST_REFUSED.store(n, Ordering::SeqCst);
            return std::ptr::null_mut();
        }
        let q = System.realloc(p, l, n);
        if q.is_null() && n > 0 {
            LAST_REFUSED.store(n, Ordering::SeqCst);
        }
        q
    }
}
#[global_allocator]
static GLOBAL: CapAlloc = CapAlloc;

struct Shared {
    started: Option<(Instant, Duration)>,
    limit: Duration,
    cur: usize,
    n: usize,
    counts: Map<String, Value>,
    bad: Vec<Value>,
    slow: Vec<Value>,
    results: Option<Vec<Value>>,
}

thread_local! {
    static LAST_PANIC_LOC: RefCell<String> = RefCell::new(String::new());
}

fn bump(m: &mut Map<String, Value>, k: &str) {
    let v = m.get(k).and_then(|v| v.as_u64()).unwrap_or(0);
    m.insert(k.to_string(), json!(v + 1));
}

fn partial_json(s: &Shared) -> Value {
    let mut r = json!({"status": "batch", "done": s.cur, "n": s.n, "counts": Value::Object(s.counts.clone()),
                       "bad": s.bad, "slow": s.slow});
    if let Some(rs) = &s.results {
        r["results"] = json!(rs);
    }
    r
}

fn panic_msg(p: Box<dyn std::any::Any + Send>) -> String {
    if let Some(s) = p.downcast_ref::<String>() {
        s.clone()
    } else if let Some(s) = p.downcast_ref::<&str>() {
        s.to_string()
    } else {
        "?".to_string()
    }
}

struct Pool {
    key: String,
    exprs: Vec<Option<LocExpr>>,
    env: Rc<RefCell<Env>>,
    out: nvh::OutBuf,
}

fn strs(v: &Value) -> Vec<String> {
    v.as_array()
        .map(|a| a.iter().map(|v| v.as_str().unwrap_or("").to_string()).collect())
        .unwrap_or_default()
}

fn pool_key(case: &Value) -> String {
    format!("{:?}|{:?}", strs(&case["pool"]), strs(&case["setup"]))
}

fn build_pool(case: &Value) -> Result<Pool, String> {
    let (env, out) = nvh::fresh_env();
    for s in &strs(&case["setup"]) {
        let r = nvh::run_src(&env, s);
        if r["status"] != "ok" && r["status"] != "empty" {
            return Err(format!("setup {:?} failed: {}", s, r));
        }
    }
    let mut exprs = Vec::new();
    for s in &strs(&case["pool"]) {
        match parse(s) {
            Ok(Some(e)) => exprs.push(Some(e)),
            Ok(None) => exprs.push(None),
            Err(e) => return Err(format!("pool value {:?} does not parse: {}", s, e.render(s))),
        }
    }
    Ok(Pool { key: pool_key(case), exprs, env, out })
}

fn tuple_of_grid(vals: &[usize], arity: usize, mut idx: usize) -> Vec<usize> {
    let b = vals.len();
    let mut t = vec![0usize; arity];
    for p in (0..arity).rev() {
        t[p] = vals[idx % b];
        idx /= b;
    }
    t
}

fn usizes(v: &Value) -> Vec<usize> {
    v.as_array()
        .map(|a| a.iter().map(|i| i.as_u64().unwrap_or(0) as usize).collect())
        .unwrap_or_default()
}

/// Walk (a bounded prefix of) a result so that a panic hidden in a lazy stream surfaces; materialised
/// containers are only sampled. Returns a short tag for the detail record.
fn touch(o: &Obj, cap: usize, depth: usize) -> String {
    use nvh::noulith::Seq;
    match o {
        Obj::Seq(Seq::Stream(st)) => {
            let mut it = st.clone_box();
            let mut n = 0usize;
            while n < cap {
                match it.next() {
                    None => break,
                    Some(Ok(x)) => {
                        if depth > 0 {
                            touch(&x, cap, depth - 1);
                        }
                    }
                    Some(Err(_)) => return format!("T[{}..!err]", n),
                }
                n += 1;
            }
            format!("T[{}]", n)
        }
        Obj::Seq(Seq::List(v)) => {
            if depth > 0 {
                for x in v.iter().take(cap) {
                    touch(x, cap, depth - 1);
                }
            }
            format!("L[{}]", v.len())
        }
        Obj::Seq(Seq::Dict(d, _)) => {
            if depth > 0 {
                for (_, x) in d.iter().take(cap) {
                    touch(x, cap, depth - 1);
                }
            }
            format!("D[{}]", d.len())
        }
        Obj::Instance(_, fields) => {
            if depth > 0 {
                for x in fields.iter().take(cap) {
                    touch(x, cap, depth - 1);
                }
            }
            "X".to_string()
        }
        Obj::Null => "N".to_string(),
        Obj::Num(_) => "num".to_string(),
        Obj::Seq(Seq::String(s)) => format!("S[{}]", s.len()),
        Obj::Seq(Seq::Vector(v)) => format!("V[{}]", v.len()),
        Obj::Seq(Seq::Bytes(v)) => format!("B[{}]", v.len()),
        Obj::Func(..) => "Fn".to_string(),
    }
}

/// Runs in the forked child. Returns the final JSON (the watchdog / allocator paths exit on their own).
fn run_batch(case: &Value, p: &Pool, cap_mb: usize) -> Value {
    let fname = case["fn"].as_str().unwrap_or("");
    let fobj = {
        let e = p.env.borrow();
        match e.vars.get(fname) {
            Some((_, cell)) => cell.borrow().clone(),
            None => return json!({"status": "badcase", "msg": format!("no global {}", fname)}),
        }
    };
    let func = match &fobj {
        Obj::Func(f, _) => f.clone(),
        _ => return json!({"status": "badcase", "msg": format!("{} is not a function", fname)}),
    };
    let fuel = case["fuel"].as_i64().unwrap_or(20_000);
    let limit = Duration::from_millis(case["limit_ms"].as_u64().unwrap_or(3000));
    let detail = case["detail"].as_bool().unwrap_or(false);
    let cap = case["force"].as_u64().unwrap_or(16) as usize;
    let explicit: Option<Vec<Vec<usize>>> = case["tuples"].as_array().map(|a| a.iter().map(usizes).collect());
    let grid = &case["grid"];
    let gvals = usizes(&grid["vals"]);
    let garity = grid["arity"].as_u64().unwrap_or(0) as usize;
    let gstart = grid["start"].as_u64().unwrap_or(0) as usize;
    let gend = grid["end"].as_u64().unwrap_or(0) as usize;
    let n = match &explicit {
        Some(v) => v.len(),
        None => gend.saturating_sub(gstart),
    };
    let shared = Arc::new(Mutex::new(Shared {
        started: None,
        limit,
        cur: 0,
        n,
        counts: Map::new(),
        bad: Vec::new(),
        slow: Vec::new(),
        results: if detail { Some(Vec::new()) } else { None },
    }));
    let _ = SHARED.set(Arc::clone(&shared));
    unsafe {
        signal(6, on_sigabrt as *const () as usize); // SIGABRT
    }
    {
        let sh = Arc::clone(&shared);
        std::thread::spawn(move || loop {
            std::thread::sleep(Duration::from_millis(25));
            let g = sh.lock().unwrap();
            if let Some((t0, c0)) = g.started {
                if cpu_now().saturating_sub(c0) > g.limit || t0.elapsed() > g.limit * 8 {
                    ALLOC_CAP.store(usize::MAX, Ordering::SeqCst);
                    let mut r = partial_json(&g);
                    r["hang_at"] = json!(g.cur);
                    write_all(OUT_FD.load(Ordering::SeqCst), &format!("{}\n", r));
                    unsafe { _exit(97) }
                }
            }
        });
    }
    std::panic::set_hook(Box::new(|info| {
        let loc = info.location().map(|l| format!("{}:{}", l.file(), l.line())).unwrap_or_default();
        LAST_PANIC_LOC.with(|c| *c.borrow_mut() = loc);
    }));
    for k in 0..n {
        let t: Vec<usize> = match &explicit {
            Some(v) => v[k].clone(),
            None => tuple_of_grid(&gvals, garity, gstart + k),
        };
        if t.iter().any(|&i| i >= p.exprs.len()) {
            return json!({"status": "badcase", "msg": "pool index out of range"});
        }
        let env = Env::with_parent(&p.env);
        nvh::set_fuel(-1);
        let mut args: Vec<Obj> = Vec::with_capacity(t.len());
        for &i in &t {
            match &p.exprs[i] {
                Some(e) => match evaluate(&env, e) {
                    Ok(o) => args.push(o),
                    Err(_) => return json!({"status": "badcase", "msg": format!("pool value {} failed to evaluate", i)}),
                },
                None => args.push(Obj::Null),
            }
        }
        {
            let mut g = shared.lock().unwrap();
            g.cur = k;
            g.started = Some((Instant::now(), cpu_now()));
        }
        let t0 = Instant::now();
        nvh::set_fuel(fuel);
        LAST_REFUSED.store(0, Ordering::SeqCst);
        ALLOC_CAP.store(cap_mb << 20, Ordering::SeqCst);
        let f2 = func.clone();
        let env2 = Rc::clone(&env);
        let r = std::panic::catch_unwind(std::panic::AssertUnwindSafe(move || match f2.run(&env2, args) {
            Ok(o) => {
                // force (a prefix of) a lazy result: a panic hidden in a stream is a panic too
                let c = touch(&o, cap, 3);
                drop(o);
                ("ok".to_string(), c)
            }
            Err(e) => {
                let j = nvh::nerr_to_json(&e);
                if j["status"] == "err" {
                    (
                        format!("err:{}", j["class"].as_str().unwrap_or("other")),
                        j["msg"].as_str().unwrap_or("").chars().take(120).collect(),
                    )
                } else {
                    (format!("sig:{}", j["sig"].as_str().unwrap_or("?")), String::new())
                }
            }
        }));
        ALLOC_CAP.store(usize::MAX, Ordering::SeqCst);
        nvh::set_fuel(-1);
        let ms = t0.elapsed().as_millis() as u64;
        let mut g = shared.lock().unwrap();
        g.started = None;
        drop(env);
        p.out.take();
        match r {
            Ok((status, info)) => {
                bump(&mut g.counts, &status);
                if let Some(rs) = g.results.as_mut() {
                    rs.push(json!({"t": t, "status": status, "info": info.chars().take(200).collect::<String>()}));
                }
            }
            Err(pl) => {
                let msg = panic_msg(pl);
                let loc = LAST_PANIC_LOC.with(|c| c.borrow().clone());
                bump(&mut g.counts, "panic");
                let rec = json!({"t": t, "status": "panic", "msg": msg.chars().take(300).collect::<String>(), "loc": loc});
                if let Some(rs) = g.results.as_mut() {
                    rs.push(rec.clone());
                }
                g.bad.push(rec);
            }
        }
        if ms >= 500 {
            g.slow.push(json!({"t": t, "ms": ms}));
        }
        g.cur = k + 1;
    }
    let g = shared.lock().unwrap();
    partial_json(&g)
}

fn main() {
    // address-space limit per process: an allocation bomb made of many small allocations fails
    // (-> "alloc_at") instead of taking the machine down
    // no backtraces: symbolising one (alloc-error message, panic message) costs seconds per event
    std::env::set_var("RUST_BACKTRACE", "0");
    let lim = std::env::var("C14_AS_LIMIT_MB").ok().and_then(|s| s.parse::<u64>().ok()).unwrap_or(3072);
    unsafe {
        let r = Rlimit { cur: lim << 20, max: lim << 20 };
        setrlimit(RLIMIT_AS, &r);
    }
    // keep freed memory in the process (glibc): most of the sweep's system time was page faults of
    // blocks that malloc had given back to the kernel after every call
    unsafe {
        mallopt(-1, 1 << 30); // M_TRIM_THRESHOLD
        mallopt(-3, 32 << 20); // M_MMAP_THRESHOLD (its maximum)
    }
    let cap_mb = std::env::var("C14_ALLOC_CAP_MB").ok().and_then(|s| s.parse::<usize>().ok()).unwrap_or(1024);
    let _ = std::fs::create_dir_all("/tmp/nv-c14-sandbox");
    let _ = std::env::set_current_dir("/tmp/nv-c14-sandbox");
    let mut pool: Option<Pool> = None;

    nvh::serve(|case| {
        let mode = case["mode"].as_str().unwrap_or("sweep");
        if mode == "list" {
            let (env, _out) = nvh::fresh_env();
            let e = env.borrow();
            let mut names: Vec<Value> = Vec::new();
            let mut keys: Vec<&String> = e.vars.keys().collect();
            keys.sort();
            for k in keys {
                let (ty, cell) = &e.vars[k];
                let kind = match &*cell.borrow() {
                    Obj::Func(Func::Builtin(_), _) => "builtin",
                    Obj::Func(Func::Type(_), _) => "type",
                    Obj::Func(_, _) => "func",
                    _ => "value",
                };
                names.push(json!({"name": k, "kind": kind, "type": format!("{:?}", ty)}));
            }
            return json!({"status": "ok", "names": names, "obj_size": std::mem::size_of::<Obj>(),
                          "alloc_cap": (cap_mb as u64) << 20});
        }
        if pool.as_ref().map(|p| p.key != pool_key(case)).unwrap_or(true) {
            match build_pool(case) {
                Ok(p) => pool = Some(p),
                Err(e) => return json!({"status": "badcase", "msg": e}),
            }
        }
        let p = pool.as_ref().unwrap();
        let mut fds = [0i32; 2];
        if unsafe { pipe(fds.as_mut_ptr()) } != 0 {
            return json!({"status": "badcase", "msg": "pipe failed"});
        }
        let pid = unsafe { fork() };
        if pid < 0 {
            return json!({"status": "badcase", "msg": "fork failed"});
        }
        if pid == 0 {
            unsafe { close(fds[0]) };
            OUT_FD.store(fds[1], Ordering::SeqCst);
            let r = run_batch(case, p, cap_mb);
            write_all(fds[1], &format!("{}\n", r));
            unsafe { _exit(0) }
        }
        unsafe { close(fds[1]) };
        let mut buf: Vec<u8> = Vec::new();
        let mut chunk = [0u8; 65536];
        loop {
            let n = unsafe { read(fds[0], chunk.as_mut_ptr(), chunk.len()) };
            if n <= 0 {
                break;
            }
            buf.extend_from_slice(&chunk[..n as usize]);
        }
        unsafe { close(fds[0]) };
        let mut status = 0i32;
        unsafe { waitpid(pid, &mut status, 0) };
        let line = String::from_utf8_lossy(&buf);
        match line.lines().next().and_then(|l| nvh::serde_json::from_str::<Value>(l).ok()) {
            Some(v) => v,
            None => {
                let sig = status & 0x7f;
                let code = (status >> 8) & 0xff;
                json!({"status": "batch", "done": 0, "n": 0, "counts": {}, "bad": [], "slow": [],
                       "abort_sig": sig, "exit_code": code})
            }
        }
    });
}
