//! C02 harness: (a) dump the REAL Rc graph of the variables after each statement, (b) measure the
//! bytes requested from the global allocator while `evaluate` runs a workload.
//!
//! case (graph): {"id", "vars": ["it","v1",..], "stmts": ["..."], "dump": [bool,...]}
//!   -> {"results": [{"status",.., "graph": {"roots":[hv..], "cells": {addr: {"k","c","len","items"|"s"}}}}]}
//!   hv := "N" | "I5" | {"r": addr, "d": hv|null} | {"x": name, "f": [hv..]} | "Fn" | "T"
//!   The walk only borrows (no Obj is cloned), so the counts are the program's own.
//! case (alloc): {"id", "mode": "alloc", "setup": ["..."], "work": ["..."]}
//!   -> {"status", "bytes": n, "allocs": n, "setup_status", "work_status"}: bytes/allocations requested while the
//!   already parsed `work` statements are evaluated (parsing and the harness' own bookkeeping excluded).
use nvh::noulith::{evaluate, parse, Env, Obj, Rc, RefCell, Seq};
use nvh::serde_json::{json, Map, Value};
use std::alloc::{GlobalAlloc, Layout, System};
use std::sync::atomic::{AtomicBool, AtomicU64, Ordering};

struct Counting;
static ON: AtomicBool = AtomicBool::new(false);
static BYTES: AtomicU64 = AtomicU64::new(0);
static ALLOCS: AtomicU64 = AtomicU64::new(0);

unsafe impl GlobalAlloc for Counting {
    unsafe fn alloc(&self, l: Layout) -> *mut u8 {
        if ON.load(Ordering::Relaxed) {
            BYTES.fetch_add(l.size() as u64, Ordering::Relaxed);
            ALLOCS.fetch_add(1, Ordering::Relaxed);
        }
        System.alloc(l)
    }
    unsafe fn dealloc(&self, p: *mut u8, l: Layout) {
        System.dealloc(p, l)
    }
    unsafe fn realloc(&self, p: *mut u8, l: Layout, new_size: usize) -> *mut u8 {
        if ON.load(Ordering::Relaxed) {
            BYTES.fetch_add(new_size as u64, Ordering::Relaxed);
            ALLOCS.fetch_add(1, Ordering::Relaxed);
        }
        System.realloc(p, l, new_size)
    }
}

#[global_allocator]
static A: Counting = Counting;

fn walk(o: &Obj, cells: &mut Map<String, Value>) -> Value {
    match o {
        Obj::Null => json!("N"),
        Obj::Num(n) => json!(nvh::canon_num(n)),
        Obj::Func(..) => json!("Fn"),
        Obj::Instance(s, fields) => {
            let fs: Vec<Value> = fields.iter().map(|f| walk(f, cells)).collect();
            json!({"x": s.name.to_string(), "f": fs})
        }
        Obj::Seq(s) => match s {
            Seq::List(rc) => {
                let addr = format!("{:p}", Rc::as_ptr(rc));
                if !cells.contains_key(&addr) {
                    cells.insert(addr.clone(), Value::Null);
                    let items: Vec<Value> = rc.iter().map(|x| walk(x, cells)).collect();
                    cells.insert(addr.clone(), json!({"k": "L", "c": Rc::strong_count(rc), "len": rc.len(), "items": items}));
                }
                json!({"r": addr, "d": Value::Null})
            }
            Seq::Dict(rc, def) => {
                let addr = format!("{:p}", Rc::as_ptr(rc));
                if !cells.contains_key(&addr) {
                    cells.insert(addr.clone(), Value::Null);
                    let mut items: Vec<(String, Value)> = rc
                        .iter()
                        .map(|(k, v)| (nvh::canon(&nvh::noulith::key_to_obj(k.clone())), walk(v, cells)))
                        .collect();
                    items.sort_by(|a, b| a.0.cmp(&b.0));
                    let items: Vec<Value> = items.into_iter().map(|(k, v)| json!([k, v])).collect();
                    cells.insert(addr.clone(), json!({"k": "D", "c": Rc::strong_count(rc), "len": rc.len(), "items": items}));
                }
                let d = match def {
                    Some(d) => walk(d, cells),
                    None => Value::Null,
                };
                json!({"r": addr, "d": d})
            }
            Seq::String(rc) => {
                let addr = format!("{:p}", Rc::as_ptr(rc));
                cells.insert(addr.clone(), json!({"k": "S", "c": Rc::strong_count(rc), "len": rc.len(), "s": nvh::canon(o)}));
                json!({"r": addr, "d": Value::Null})
            }
            Seq::Vector(rc) => {
                let addr = format!("{:p}", Rc::as_ptr(rc));
                cells.insert(addr.clone(), json!({"k": "V", "c": Rc::strong_count(rc), "len": rc.len(), "s": nvh::canon(o)}));
                json!({"r": addr, "d": Value::Null})
            }
            Seq::Bytes(rc) => {
                let addr = format!("{:p}", Rc::as_ptr(rc));
                cells.insert(addr.clone(), json!({"k": "B", "c": Rc::strong_count(rc), "len": rc.len(), "s": nvh::canon(o)}));
                json!({"r": addr, "d": Value::Null})
            }
            Seq::Stream(_) => json!("T"),
        },
    }
}

fn graph(env: &Rc<RefCell<Env>>, vars: &[String]) -> Value {
    let mut cells = Map::new();
    let mut roots = Vec::new();
    let e = env.borrow();
    for v in vars {
        match e.vars.get(v) {
            Some((_, cell)) => {
                let b = cell.borrow();
                roots.push(walk(&b, &mut cells));
            }
            None => roots.push(json!("undeclared")),
        }
    }
    json!({"roots": roots, "cells": Value::Object(cells)})
}

fn strs(v: Option<&Value>) -> Vec<String> {
    v.and_then(|x| x.as_array())
        .map(|a| a.iter().map(|s| s.as_str().unwrap_or("").to_string()).collect())
        .unwrap_or_default()
}

fn main() {
    let (base, base_out) = nvh::fresh_env();
    nvh::serve(|case| {
        let env = Env::with_parent(&base);
        base_out.take();
        nvh::set_fuel(case.get("fuel").and_then(|v| v.as_i64()).unwrap_or(50_000_000));
        if case.get("mode").and_then(|m| m.as_str()) == Some("alloc") {
            let mut setup_status = json!("ok");
            for s in strs(case.get("setup")) {
                let r = nvh::run_src(&env, &s);
                if r["status"] != "ok" {
                    setup_status = r;
                    break;
                }
            }
            let work: Vec<_> = strs(case.get("work")).iter().map(|s| parse(s)).collect();
            let mut work_status = json!("ok");
            let envc = Rc::clone(&env);
            let res = std::panic::catch_unwind(std::panic::AssertUnwindSafe(move || {
                let mut status = json!("ok");
                BYTES.store(0, Ordering::Relaxed);
                ALLOCS.store(0, Ordering::Relaxed);
                ON.store(true, Ordering::Relaxed);
                for w in work.iter() {
                    match w {
                        Ok(Some(ex)) => {
                            let r = evaluate(&envc, ex);
                            ON.store(false, Ordering::Relaxed);
                            if let Err(e) = &r {
                                status = nvh::nerr_to_json(e);
                            }
                            drop(r);
                            if status != json!("ok") {
                                break;
                            }
                            ON.store(true, Ordering::Relaxed);
                        }
                        _ => {
                            ON.store(false, Ordering::Relaxed);
                            status = json!("parse");
                            break;
                        }
                    }
                }
                ON.store(false, Ordering::Relaxed);
                status
            }));
            ON.store(false, Ordering::Relaxed);
            let bytes = BYTES.load(Ordering::Relaxed);
            let allocs = ALLOCS.load(Ordering::Relaxed);
            match res {
                Ok(s) => work_status = s,
                Err(_) => work_status = json!("panic"),
            }
            nvh::set_fuel(-1);
            return json!({"status": "ok", "bytes": bytes, "allocs": allocs, "setup_status": setup_status, "work_status": work_status});
        }
        let vars = strs(case.get("vars"));
        let dump: Vec<bool> = case
            .get("dump")
            .and_then(|v| v.as_array())
            .map(|a| a.iter().map(|b| b.as_bool().unwrap_or(false)).collect())
            .unwrap_or_default();
        let mut results: Vec<Value> = Vec::new();
        for (i, s) in strs(case.get("stmts")).iter().enumerate() {
            let mut r = nvh::run_src(&env, s);
            base_out.take();
            let stop = r["status"] == "panic";
            if !stop && dump.get(i).copied().unwrap_or(false) {
                r.as_object_mut().unwrap().insert("graph".into(), graph(&env, &vars));
            }
            results.push(r);
            if stop {
                break;
            }
        }
        nvh::set_fuel(-1);
        json!({ "results": results })
    });
}
