//! Common harness code: runs Noulith programs built from /repo's current tree, captures
//! printed output, serialises values canonically (no addresses, dict entries sorted,
//! floats as bit patterns) and turns panics into observations.
//!
//! Protocol of every binary in src/bin: one JSON case per input line, one JSON result per
//! output line (flushed), so the Python driver can kill and bisect on a hang.

use noulith::{evaluate, initialize, parse, Env, NErr, Obj, Rc, RefCell, Seq, TopEnv};
use serde_json::{json, Value};
use std::io::Write;
use std::sync::{Arc, Mutex};

pub use noulith;
pub use serde_json;

#[derive(Clone)]
pub struct OutBuf(pub Arc<Mutex<Vec<u8>>>);
impl Write for OutBuf {
    fn write(&mut self, buf: &[u8]) -> std::io::Result<usize> {
        self.0.lock().unwrap().extend_from_slice(buf);
        Ok(buf.len())
    }
    fn flush(&mut self) -> std::io::Result<()> {
        Ok(())
    }
}
impl noulith::WriteMaybeExtractable for OutBuf {}

impl OutBuf {
    pub fn new() -> OutBuf {
        OutBuf(Arc::new(Mutex::new(Vec::new())))
    }
    pub fn take(&self) -> String {
        let mut g = self.0.lock().unwrap();
        let s = String::from_utf8_lossy(&g).to_string();
        g.clear();
        s
    }
}

pub fn fresh_env() -> (Rc<RefCell<Env>>, OutBuf) {
    let out = OutBuf::new();
    let mut env = Env::new(
        TopEnv {
            backrefs: Vec::new(),
            input: Box::new(std::io::empty()),
            output: Box::new(out.clone()),
        },
        false,
    );
    initialize(&mut env);
    (Rc::new(RefCell::new(env)), out)
}

pub fn set_fuel(n: i64) {
    noulith::verif_hooks::set_fuel(n);
}

pub fn esc(s: &str) -> String {
    let mut r = String::new();
    for c in s.chars() {
        match c {
            '\\' => r.push_str("\\\\"),
            '"' => r.push_str("\\\""),
            '\n' => r.push_str("\\n"),
            c if (c as u32) < 0x20 || (c as u32) == 0x7f => {
                r.push_str(&format!("\\u{{{:x}}}", c as u32))
            }
            c => r.push(c),
        }
    }
    r
}

pub fn canon_num(n: &noulith::nnum::NNum) -> String {
    use noulith::nnum::NNum;
    match n {
        NNum::Int(i) => format!("I{}", i),
        NNum::Rational(r) => format!("R{}/{}", r.numer(), r.denom()),
        NNum::Float(f) => {
            if f.is_nan() {
                "Fnan".to_string()
            } else {
                format!("F{:016x}", f.to_bits())
            }
        }
        NNum::Complex(c) => {
            let p = |f: f64| {
                if f.is_nan() {
                    "nan".to_string()
                } else {
                    format!("{:016x}", f.to_bits())
                }
            };
            format!("C{},{}", p(c.re), p(c.im))
        }
    }
}

/// Canonical text of a value. Streams are forced up to `stream_cap` elements.
pub fn canon(o: &Obj) -> String {
    canon_cap(o, 64)
}

pub fn canon_cap(o: &Obj, stream_cap: usize) -> String {
    match o {
        Obj::Null => "N".to_string(),
        Obj::Num(n) => canon_num(n),
        Obj::Seq(s) => match s {
            Seq::String(s) => format!("S\"{}\"", esc(s)),
            Seq::List(v) => format!(
                "L[{}]",
                v.iter().map(|x| canon_cap(x, stream_cap)).collect::<Vec<_>>().join(",")
            ),
            Seq::Dict(d, def) => {
                let mut es: Vec<String> = d
                    .iter()
                    .map(|(k, v)| {
                        format!(
                            "{}:{}",
                            canon_cap(&noulith::key_to_obj(k.clone()), stream_cap),
                            canon_cap(v, stream_cap)
                        )
                    })
                    .collect();
                es.sort();
                match def {
                    None => format!("D{{{}}}", es.join(",")),
                    Some(dv) => format!("D{{{}|{}}}", es.join(","), canon_cap(dv, stream_cap)),
                }
            }
            Seq::Vector(v) => format!(
                "V[{}]",
                v.iter().map(canon_num).collect::<Vec<_>>().join(",")
            ),
            Seq::Bytes(b) => format!(
                "B[{}]",
                b.iter().map(|x| x.to_string()).collect::<Vec<_>>().join(",")
            ),
            Seq::Stream(st) => {
                let mut it = st.clone_box();
                let mut parts = Vec::new();
                let mut more = false;
                loop {
                    if parts.len() >= stream_cap {
                        more = it.next().is_some();
                        break;
                    }
                    match it.next() {
                        None => break,
                        Some(Ok(x)) => parts.push(canon_cap(&x, stream_cap)),
                        Some(Err(_)) => {
                            parts.push("!err".to_string());
                            break;
                        }
                    }
                }
                format!("T[{}{}]", parts.join(","), if more { ",..." } else { "" })
            }
        },
        Obj::Func(_, _) => "Fn".to_string(),
        Obj::Instance(s, fields) => format!(
            "X{}({})",
            esc(&s.name),
            fields.iter().map(|x| canon_cap(x, stream_cap)).collect::<Vec<_>>().join(",")
        ),
    }
}

pub fn err_class(msg: &str) -> &'static str {
    for c in [
        "index error",
        "key error",
        "type error",
        "value error",
        "name error",
        "argument error",
        "syntax error",
        "empty error",
        "io error",
        "assert error",
        "verif: fuel exhausted",
    ] {
        if msg.starts_with(c) {
            return match c {
                "index error" => "index",
                "key error" => "key",
                "type error" => "type",
                "value error" => "value",
                "name error" => "name",
                "argument error" => "argument",
                "syntax error" => "syntax",
                "empty error" => "empty",
                "io error" => "io",
                "assert error" => "assert",
                _ => "fuel",
            };
        }
    }
    "other"
}

pub fn nerr_to_json(e: &NErr) -> Value {
    match e {
        NErr::Throw(o, _) => {
            let msg = match o {
                Obj::Seq(Seq::String(s)) => s.to_string(),
                other => canon(other),
            };
            json!({"status": "err", "class": err_class(&msg), "msg": msg, "thrown": canon(o)})
        }
        NErr::Break(n, v) => {
            json!({"status": "sig", "sig": "break", "n": n, "val": v.as_ref().map(canon)})
        }
        NErr::Continue(n) => json!({"status": "sig", "sig": "continue", "n": n}),
        NErr::Return(v) => json!({"status": "sig", "sig": "return", "val": canon(v)}),
    }
}

/// Parse and evaluate `src` in `env`; never unwinds.
pub fn run_src(env: &Rc<RefCell<Env>>, src: &str) -> Value {
    let env2 = Rc::clone(env);
    let src2 = src.to_string();
    let r = std::panic::catch_unwind(std::panic::AssertUnwindSafe(move || {
        match parse(&src2) {
            Ok(Some(ex)) => match evaluate(&env2, &ex) {
                Ok(o) => json!({"status": "ok", "val": canon(&o)}),
                Err(e) => nerr_to_json(&e),
            },
            Ok(None) => json!({"status": "empty"}),
            Err(pe) => json!({"status": "parse", "msg": pe.render(&src2)}),
        }
    }));
    match r {
        Ok(v) => v,
        Err(p) => {
            let msg = if let Some(s) = p.downcast_ref::<String>() {
                s.clone()
            } else if let Some(s) = p.downcast_ref::<&str>() {
                s.to_string()
            } else {
                "?".to_string()
            };
            json!({"status": "panic", "msg": msg})
        }
    }
}

/// As `run_src`, but the way the command-line interpreter (src/main.rs) runs a program: the parsed
/// program first goes through `noulith::warn` (the static name-resolution pass: `freeze` with the
/// warn flag over the whole program, which panics if the pass refuses the program), then `evaluate`.
pub fn run_src_cli(env: &Rc<RefCell<Env>>, src: &str) -> Value {
    let env2 = Rc::clone(env);
    let src2 = src.to_string();
    let r = std::panic::catch_unwind(std::panic::AssertUnwindSafe(move || {
        match parse(&src2) {
            Ok(Some(ex)) => {
                let ex = noulith::warn(&env2, &ex);
                match evaluate(&env2, &ex) {
                    Ok(o) => json!({"status": "ok", "val": canon(&o)}),
                    Err(e) => nerr_to_json(&e),
                }
            }
            Ok(None) => json!({"status": "empty"}),
            Err(pe) => json!({"status": "parse", "msg": pe.render(&src2)}),
        }
    }));
    match r {
        Ok(v) => v,
        Err(p) => {
            let msg = if let Some(s) = p.downcast_ref::<String>() {
                s.clone()
            } else if let Some(s) = p.downcast_ref::<&str>() {
                s.to_string()
            } else {
                "?".to_string()
            };
            json!({"status": "panic", "msg": msg})
        }
    }
}

pub fn quiet_panics() {
    std::panic::set_hook(Box::new(|_| {}));
}

/// Standard main loop: read JSON lines, call `f`, print JSON lines.
pub fn serve(mut f: impl FnMut(&Value) -> Value) {
    use std::io::BufRead;
    quiet_panics();
    let stdin = std::io::stdin();
    let stdout = std::io::stdout();
    for line in stdin.lock().lines() {
        let line = match line {
            Ok(l) => l,
            Err(_) => break,
        };
        if line.trim().is_empty() {
            continue;
        }
        let case: Value = match serde_json::from_str(&line) {
            Ok(v) => v,
            Err(e) => {
                let mut o = stdout.lock();
                writeln!(o, "{}", json!({"status": "badcase", "msg": e.to_string()})).unwrap();
                o.flush().unwrap();
                continue;
            }
        };
        let mut res = f(&case);
        if let (Some(id), Some(obj)) = (case.get("id"), res.as_object_mut()) {
            obj.insert("id".to_string(), id.clone());
        }
        let mut o = stdout.lock();
        writeln!(o, "{}", res).unwrap();
        o.flush().unwrap();
    }
}
