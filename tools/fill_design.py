#!/usr/bin/env python3
"""Regenerates the generated tables of DESIGN.md (between <!-- X --> and <!-- /X --> markers)."""
import json, glob, os, re, subprocess
from pathlib import Path
R = Path("/verif")
d = (R / "DESIGN.md").read_text()
status = subprocess.run(["python3", str(R / "tools" / "status_table.py")], capture_output=True, text=True).stdout
rows = ["| seed | property | what the change does (author's summary, shortened) | reported by | first run |", "|---|---|---|---|---|"]
misses = json.loads((R / "seeded" / "initial_misses.json").read_text()) if (R / "seeded" / "initial_misses.json").exists() else {}
for m in sorted(glob.glob(str(R / "seeded" / "*seed*" / "meta.json"))):
    name = os.path.basename(os.path.dirname(m))
    meta = json.load(open(m))
    pid = meta.get("property", name[:3])
    mm = re.match(r"(C\d+)-(r\d)?seed(\d)", name)
    rnd = {"": "round1", "r2": "round2", "r3": "round3", "r4": "round4", "r5": "round5"}.get(mm.group(2) or "", "round1") if mm else "round1"
    key = f"{pid}/{mm.group(3)}" if mm else name
    first = misses.get(rnd, {}).get(key, {}).get("first", "reported")
    summ = (meta.get("summary") or "").replace("|", "/").replace("\n", " ")[:170]
    final = meta.get('caught_by_final', meta.get('caught_by'))
    rows.append(f"| {name} | {pid} | {summ} | {', '.join(final or []) or 'NOT reported'} | {first} |")
def put(d, tag, body):
    return re.sub(rf"<!-- {tag} -->.*?<!-- /{tag} -->", lambda _: f"<!-- {tag} -->\n{body}\n<!-- /{tag} -->", d, flags=re.S)
d = put(d, "STATUS_TABLE", status.strip())
d = put(d, "SEED_TABLE", "\n".join(rows))
(R / "DESIGN.md").write_text(d)
print("filled", len(rows) - 2, "seed rows")
