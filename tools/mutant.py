#!/usr/bin/env python3
"""Run /verif's checks against a MUTATED copy of /repo without touching /repo or /verif.

  tools/mutant.py setup                 create /tmp/mut/repo (git worktree of /repo HEAD) and /tmp/mut/verif (copy of /verif)
  tools/mutant.py sync                  refresh the copies (new /repo HEAD, current /verif files)
  tools/mutant.py run <patch> <ID>...   apply patch to the worktree, run `./check <ID> quick` for each ID in the copy, undo
  tools/mutant.py base <ID>...          run the checks in the copy on the unmutated worktree (must be clean)
  tools/mutant.py clean                 remove both

The copy's harness depends on /tmp/mut/repo by path; everything else is identical. This is only a
development aid for testing detection; registered checks always run from /verif against /repo."""
import os, re, shutil, subprocess, sys, json, time
from pathlib import Path

MUT = Path(os.environ.get("MUT_DIR", "/tmp/mut"))
MREPO, MVERIF = MUT / "repo", MUT / "verif"


def sh(cmd, **kw):
    return subprocess.run(cmd, shell=isinstance(cmd, str), text=True, stdout=subprocess.PIPE, stderr=subprocess.STDOUT, **kw)


def sync():
    MUT.mkdir(parents=True, exist_ok=True)
    if not MREPO.exists():
        print(sh(f"git -C /repo worktree add --detach {MREPO} HEAD").stdout[-300:])
    else:
        head = sh("git -C /repo rev-parse HEAD").stdout.strip()
        sh(f"git -C {MREPO} checkout -q -- . && git -C {MREPO} clean -fdq -e target && git -C {MREPO} checkout -q --detach {head}")
    sh(f"rsync -a --delete --exclude .git --exclude build/cargo --exclude replays --exclude evidence /verif/ {MVERIF}/")
    (MVERIF / "evidence").mkdir(exist_ok=True)
    ct = MVERIF / "harness" / "Cargo.toml"
    ct.write_text(ct.read_text().replace('path = "/repo"', f'path = "{MREPO}"'))
    cc = MVERIF / "harness" / ".cargo" / "config.toml"
    cc.write_text(cc.read_text().replace("/verif/build/cargo", str(MVERIF / "build" / "cargo")))
    cm = MVERIF / "driver" / "common.py"
    cm.write_text(cm.read_text().replace('REPO = Path("/repo")', f'REPO = Path("{MREPO}")'))
    lock = MVERIF / "harness" / "Cargo.lock"
    if lock.exists():
        lock.unlink()


def run_checks(ids):
    out = {}
    for pid in ids:
        t0 = time.time()
        r = sh(["./check", pid, "quick"], cwd=MVERIF)
        viol = [l for l in r.stdout.splitlines() if l.startswith("VIOLATION") or l.startswith("KNOWN-FINDING")]
        viol.sort(key=lambda l: not l.startswith("VIOLATION"))
        kinds = sorted({m.group(1) for l in viol for m in [re.search(r"replays/C\d+/([a-z-]+)-\d", l)] if m})
        out[pid] = {"rc": r.returncode, "kinds": kinds, "lines": viol[:6], "wall": round(time.time() - t0, 1), "tail": r.stdout[-400:] if r.returncode not in (0, 1) else ""}
        print(pid, json.dumps(out[pid]), flush=True)
        for l in viol[:2]:
            m = re.search(r"replay=(\S+)", l)
            if m and Path(m.group(1)).exists():
                d = json.load(open(m.group(1)))
                print("   replay:", json.dumps({k: d[k] for k in list(d)[:8]})[:600])
    return out


def main():
    a = sys.argv[1:]
    if not a:
        print(__doc__); return 2
    if a[0] == "setup" or a[0] == "sync":
        sync(); return 0
    if a[0] == "clean":
        sh(f"git -C /repo worktree remove --force {MREPO}"); shutil.rmtree(MUT, ignore_errors=True); return 0
    if a[0] == "base":
        sh(f"git -C {MREPO} checkout -q -- .")
        run_checks(a[1:]); return 0
    if a[0] == "run":
        patch = os.path.abspath(a[1])
        sh(f"git -C {MREPO} checkout -q -- .")
        r = sh(f"git -C {MREPO} apply --whitespace=nowarn {patch}")
        if r.returncode != 0:
            r = sh(f"cd {MREPO} && patch -p1 --no-backup-if-mismatch < {patch}")
            if r.returncode != 0:
                print("patch does not apply:", r.stdout[-500:]); return 2
        try:
            res = run_checks(a[2:])
        finally:
            sh(f"git -C {MREPO} checkout -q -- . && git -C {MREPO} clean -fdq -e target")
        caught = [p for p, v in res.items() if v["rc"] == 1]
        print("CAUGHT BY:", caught)
        return 0
    print(__doc__); return 2


sys.exit(main())
